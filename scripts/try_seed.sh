#!/bin/sh
# usage: scripts/try_seed.sh <dir with patch.diff> <prop> [<prop>...]
# Applies the seeded change to /repo, runs the given checks, and reverts /repo.
d=$1; shift
git -C /repo apply --check "$d/patch.diff" || { echo "PATCH DOES NOT APPLY"; exit 3; }
git -C /repo apply "$d/patch.diff"
for p in "$@"; do
  echo "=== $p on $(basename $d)"
  VERIF_EVIDENCE_DIR=/tmp/seed-evidence /verif/scripts/check $p quick 2>&1 | grep -v "^KNOWN-FINDING" | grep -E "VIOLATION|ANALYSIS-ERROR|new violations|\[R" | head -20
done
git -C /repo checkout -- .
git -C /repo status --short | head -3
