#!/usr/bin/env python3
"""Writes /verif/MANIFEST.json from the table below (kept next to the rules so that the
claim text and the rules are edited together)."""
import json, os, sys

HERE = os.path.dirname(os.path.dirname(os.path.abspath(__file__)))

TRUST = ("Trusted base: the Go type checker and go/ssa (x/tools v0.29.0); cosmos-sdk semantics of the bank keeper, KVStore, "
         "runTx atomicity and CacheContext; interface calls are resolved to comdex implementations only (class-hierarchy analysis "
         "restricted to the repository); the reasoned exception tables printed in the evidence. The check decides a structural "
         "necessary condition on every control-flow path of the current source; it does not execute comdex code and does not bound any runtime quantity.")

# id -> (claimed?, technique, text, design_ref)
CLAIMS = {
    "C14": ("must-pass guard on success-path CFG (edge-deletion reachability), interprocedural; value provenance for price reads",
            "Static, path-exhaustive decision of the code shape the property depends on: every vault/locker/lend handler that moves coins cannot reach a success exit through a bank effect without the circuit-breaker test; every seizure/auction-start site and every CDP mint site is reachable only through the breaker / shutdown test up its whole call chain; MsgWithdraw passes the cool-off test; oracle prices are read only under found && IsPriceActive and price/ratio errors are consumed. Holds for every input and state because it is decided on all CFG paths; it does NOT decide 'a rejected operation changes nothing' (SDK atomicity, trusted) and no numeric behaviour.",
            "DESIGN.md §3 C14"),
}

CLAIMS["C15"] = ("wrapper-discipline rules on SSA: guard on write-back, captured-context (free-variable) check, effect reachability outside wrapper closures, loop-exit analysis, slice-bound provenance",
    "Static decision of the wrapper discipline the property rests on: ApplyFuncIfNoError recovers panics into its error, runs f on the cache context and writes back only on nil error; all closures passed to it (17) use only their own context parameter; in every BeginBlocker/EndBlocker (wired or not) no bank effect is reachable outside a wrapper closure and no state-writing item loop outside a wrapper can be left by return/break; sweep slices are bounded by the sliced list's own length; no explicit panic in unwrapped hook code. Covers every path and every hook, which crash-point tests only sample. NOT covered: panics raised inside cosmos-sdk/math on reachable states, integer divisions by configured values (listed as an informational inventory), and that a unit's body is semantically one 'item'.",
    "DESIGN.md §3 C15")
CLAIMS["C16"] = ("banned-construct scan and map-range order-independence analysis over the entry-reachable call graph",
    "Static decision, over every comdex function reachable from message handlers, block hooks, wasm bindings, ante decorators, IBC callbacks, genesis and app-level block functions (about 1600 functions), that (a) every range over a map has an order-independent body (commutative exact accumulation, writes keyed by the loop key, pure calls, sorted appends; no early exit, no context call, no float/string accumulation) and (b) no wall clock, global or crypto randomness, process environment, goroutine, channel, select, %p or unordered map-key extraction is used. This is the strongest fit for static analysis: replay tests can only observe nondeterminism that happens to manifest, the scan covers all code. NOT covered: nondeterminism inside dependencies, reflection, cross-architecture floating point (float sites are listed for information).",
    "DESIGN.md §3 C16")

CLAIMS["C12"] = ("must-pass owner-equality guard with signer provenance (interprocedural), sender-guard under chain-id assumption, swallowed-rejection and identifier-kind rules",
    "Static decision of the authorisation shape: every handler whose request names a vault/locker/lend/borrow/order id passes record.owner == signer on all success paths, the signer being traced from the request's GetSigners field through keeper parameters at every call site; each of the 20 custom contract-message handlers reaches keeper code on comdex-1 / comdex-test3 only behind sender-parameter == governance address (same index on both chains); kill switch only behind Admin(signer); no error branch of a handler returns a known-nil error; no id of one kind is passed where another kind is expected (catches owner checks against the wrong record, swapped app/pair ids). Quantifies over all handlers and paths, which per-case tests cannot. NOT covered: 'a rejected attempt changes nothing' (SDK atomicity, trusted); farm positions and limit bids are keyed by the signer and are covered by construction, not by an equality test; identifier kinds are inferred from names and are silent when a name is generic.",
    "DESIGN.md §3 C12")

CLAIMS["C01"] = ("counter-balance data-flow, effect co-occurrence (books twins) with expression-identity amount matching, stale-read analysis, unit-context check",
    "Static decision of the bookkeeping shape (not the sums): on every success path of every unit touching the vault counter, increments minus decrements equal creations minus deletions; in every vault handler each custody movement (collateral in/out, debt mint/burn) has its totals update and vault-record change on the same path and every booked amount is the very amount moved (expression identity, locals resolved flow-sensitively); no value read from a vault before a call that may rewrite it is used afterwards; the per-vault sweep units isolate their writes. NOT covered: the numeric identity sum(vaults) = custody balance, unsolicited transfers, the auction-settlement side of the totals.",
    "DESIGN.md §3 C01")
CLAIMS["C02"] = ("expression-identity matching of minted / paid-out / recorded / burnt amounts; who-may-mint call-site rule",
    "Static decision that in every vault handler the amount minted, the amount recorded as new principal and the amounts handed out are the same value or its stated split (user = minted - collector share; share derived from the minted amount and DrawDownFee), that every burn retires exactly the recorded principal reduction, and that vault-module debt is minted nowhere else. NOT covered: supply = sum of principal as a number, the cross-decimal conversion arithmetic, auction-settlement burns.",
    "DESIGN.md §3 C02")
CLAIMS["C03"] = ("must-pass comparison guards with comparator strictness (finite orderings), interprocedural; stale-argument and totals-twin rules",
    "Static decision that the three vault limits are enforced with the right strictness on every path that needs them: the ratio check succeeds only through ratio >= minimum; every mint / collateral release from a vault that stays open needs a successful ratio check against the product's MinCr computed from the current vault record; every mint passes total <= DebtCeiling where the total includes the mint and is kept exact by the handlers; creation and repay pass principal >= DebtFloor; price errors propagate. Values are touched only through comparisons so the implied orderings are exact. NOT covered: whether truncation lets a boundary input slip; the numeric inequality over prices and decimals.",
    "DESIGN.md §3 C03")

CLAIMS["C09"] = ("site guards with comparator strictness and operand provenance; loop-exit, post-loop must-store, store-key agreement and window bookkeeping rules on the sweeps",
    "Static decision of the structural part of liquidation safety and liveness: all seizure sites (12 call sites in sweeps and liquidate messages of both generations) are reachable only through ratio < MinCr (vaults) or ratio > threshold (borrows), the ratio being computed from the position's own recorded amounts and the threshold factor belonging to the transit asset the branch tests for; seizure cannot succeed without a successful auction start and hands over exactly the recorded collateral; each sweep leaves its item loop only through the header, always stores the advanced offset afterwards, under the key it was read from, wraps on an empty window; per-item units isolate their writes. NOT covered: the numeric ratio, the two-sweeps bound, list shifts caused by concurrent creation/closing.",
    "DESIGN.md §3 C09")

CLAIMS["C20"] = ("store-key prefix coverage (writer prefixes vs export readers vs import writers), GenesisState field agreement, bulk-reader decode rule",
    "Static decision, for all 15 modules, of the structural necessary conditions of the genesis round trip: every key prefix a keeper writes is exported and re-imported or re-derived at import; every GenesisState field filled by export is read by import and vice versa; every bulk reader used by export decodes the records it returns. Every state prefix is covered, which a round-trip test only does for the state its workload happens to create. The 36 prefixes that today do not survive a round trip (id counters, limit bids, histories, sweep offsets, snapshots ...) are recorded as known findings keyed by (module, prefix). NOT covered: behavioural equality after the round trip; that restored values equal exported values beyond field/prefix agreement.",
    "DESIGN.md §3 C20")

CLAIMS["C13"] = ("books-twin analysis (custody movement vs book update, expression-identity amounts), must-pass successful-book-update guard for collector custody, bounded-release comparison guard, stale-read analysis",
    "Static decision of the bookkeeping shape: locker handlers move coins together with NetBalance and the deposited total for the very same amount, releases are bounded by the balance, no stale locker copy is written back after the savings calculation; every movement out of (into) the collector custody, anywhere in the repository (25 sites), is on a path with a successful decrease (increase) of the recorded net fees for the same amount, the book update being accepted before a failure can be swallowed; the decrease cannot store a negative balance. NOT covered: the numeric identities custody >= sum of books, savings-rate arithmetic.",
    "DESIGN.md §3 C13")

CLAIMS["C17"] = ("must-pass guards on price reads and on activation stores; wrap-test edge classification (finite orderings) between cursor increment and store; accumulation-type rule",
    "Static decision of the structural part of the oracle pipeline: the market keeper's valuation API reads the stored price only under found && IsPriceActive and errors otherwise; IsPriceActive becomes true only behind a window-full comparison; after each cursor increment the record is stored only behind a wrap test whose outcomes are index < N or index >= N with reset (so an off-by-one `>` is reported); the window is emptied only together with cursor reset and deactivation; the window sum is not accumulated in a fixed-width integer. Holds for every sample sequence because it is decided on all paths. NOT covered: that the published value equals the integer mean for every sequence; N = 0.",
    "DESIGN.md §3 C17")

CLAIMS["C08"] = ("must-pass comparison / call guards on borrow booking and lend release, totals-vs-custody amount matching, id-list removal idiom rule, stale-read analysis",
    "Static decision of the structural part: the lend ratio check succeeds only through ratio <= threshold; every function booking a new or larger borrow needs a successful check against the asset's (E)Ltv and the comparison loan <= pool balance; lend withdrawals are bounded by AvailableToBorrow and a lend closes only when its open-borrow id list is nil; each change of the published totals is matched, in the same function, by a pool custody movement or the position-record change of the same amount; id-list removals keep the remaining ids; no borrow/lend copy read before interest accrual is used afterwards. NOT covered: the totals identity as numbers, interest accrual arithmetic, cross-pool bridged-asset accounting.",
    "DESIGN.md §3 C08")

CLAIMS["C11"] = ("one-sided comparison guards with operand provenance, effect co-occurrence for refunds, recipient/amount provenance at close, custody release rule, books twins and store-key agreement for limit bids",
    "Static decision for the three English-auction implementations and the limit-bid API: a bid is taken only behind a one-sided comparison with a value derived from the stored standing bid in the direction of the auction type; the outbid bidder is refunded (recipient and coins both from the stored record) on every success path with a previous bid; at close, coins go to the stored bidder and are the stored bid or lot; message-named amounts/denominations leave custody only behind requested <= recorded and denom equality; the limit-bid record and the protocol total change by the custody amount and the record is read under the key it is stored under. NOT covered: that custody equals the standing bid as a number, auction timing, totals over bid sequences.",
    "DESIGN.md §3 C11")

CLAIMS["C07"] = ("site guards on settlement payouts, refund provenance, loop-exit analysis of the market-making cancel, enumeration of rejection reasons, identifier-kind agreement, escrow-on-placement co-occurrence",
    "Static decision of the settlement shape of orders: FinishOrder/FinishMMOrder pay the refund only when the order is not yet terminal (both status tests), from the escrow of the order's own (app, pair) to the stored orderer, built from RemainingOfferCoin, and store the terminal status; orders become terminal only through them; cancelling market-making orders visits every indexed id before deleting the index; ValidateMsgCancelOrder rejects only for the allowed reasons; ids of different kinds are not interchanged (the fixed GetOrder(pair, app) swap); new orders are stored only on paths that escrow coins. NOT covered: the per-order money identity across batches, fee arithmetic.",
    "DESIGN.md §3 C07")
CLAIMS["C04"] = ("escrow-on-creation co-occurrence, once-only refund guards with provenance, bounded release, who-may-mint/burn rule with must-reach disable test, loop-carried accumulator rule",
    "Static decision of the custody discipline of the liquidity module: requests and orders are recorded only on paths that move their coins into the (global / pair) escrow; requests and orders are refunded at most once, from the right escrow to the stored requester, from their own coins; farming moves coins into the module on the recording path and un-farming is bounded by the recorded amount; pool coins are minted/burnt only by pool creation and the executors, and a burn is followed by the zero-supply test that disables the pool; per-farmer queue records do not inherit entries accumulated across farmers. NOT covered: the balance inequalities as numbers, batch interleavings.",
    "DESIGN.md §3 C04")

CLAIMS["C05"] = ("rounding-direction classification of Dec->Int conversions, over-fill site guard, loop-carried accumulator rule, matched-set site guard, amount provenance",
    "Thin claim: decides only named structural necessary conditions of matching: buyers' quote payment is rounded up and sellers' receipt down in FillOrder, every order mutation sits behind amt <= MatchableAmount, remaining-amount accumulators of the distribution loops decrease from themselves, an order stays matched only if it is a buy or its share is worth a positive quote amount, and ApplyMatchResult moves the orders' own paid/received amounts and the computed dust. NOT covered (the bulk of the property): conservation over arbitrary books, the price search, pro-rata remainders, limit-price respect.",
    "DESIGN.md §3 C05")
CLAIMS["C06"] = ("rounding-direction classification over the whole computation chain, entry-test shape rule, amount provenance",
    "Thin claim: decides only that amm.Deposit rounds the minted shares down at every inexact step and the accepted coins up, that amm.Withdraw rounds down and tests the last-share case first returning the reserves, and that the executors mint, accept, pay out and burn exactly the values those functions returned. Also: in the amm package the branch taken for an empty reserve and the branch taken when its ratio to the other reserve rounds to zero choose the same price bound (sibling agreement). NOT covered: the fairness inequality, the 1e-17 bound, the numeric content of the ranged-pool translation and price range.",
    "DESIGN.md §3 C06")
CLAIMS["C10"] = ("clip-guard rules, price/amount provenance, settlement-set presence, sibling field-set rule for restarts",
    "Thin claim: decides that bids are clipped against the stored remaining collateral/debt, that V2 conversions use the auction's stored price and the oracle/CMST price and the reserve top-up uses the auction's current remaining debt, that the closing settlement contains burn, penalty-to-collector with net-fee increase and totals reduction, and that a restart refreshes initial/current/end price and end time together. NOT covered: totals over bid sequences, monotone price between restarts, one-unit rounding; the missing price checks of the V2 bid path are C14's known findings.",
    "DESIGN.md §3 C10")
CLAIMS["C19"] = ("site guards on payouts (comparison strictness), post-payout must-store/must-reduce path rule, sibling agreement",
    "Thin claim: decides that reward sends sit behind sum of shares <= allocation, that a gauge epoch is paid only behind available >= epoch amount and a guarded split index, that after a payout the gauge is always stored with its remaining balance reduced by what was paid, and that the sibling valuations of farmed pool coins pick the oracle-priced side by the same pair field. NOT covered: that the split sums to the deposit, the 1e-12 floating-point bound, custody >= remainder as numbers.",
    "DESIGN.md §3 C19")


# repository-wide rules instantiated from the code itself (generic.go, recordlink.go), scoped per property
GENERIC = {
    "C20": " Also: all call sites of a store-key constructor pass their identifier kinds in the same order (genesis-only setters write under the key the runtime reads). Also: an export reader is not conditional on another reader's result; an index entry that is deleted and written again is deleted under its old key. Store keys over one prefix share their leading components with the scan prefix; a value decoded inside a loop has a fresh target per iteration.",
    "C18": " Also: in the lend keeper a refreshed accrual index comes with a refreshed accrual clock on every success path. Also: the base of an accrual formula is not a field the calling function increases.",
    "C17": " Also: the wide window sum is divided before it is narrowed; consumers in every module read the stored price only under found and IsPriceActive of the very record read (4 known findings: reward valuation and the V2 bid path accept an inactive price). Also: identifier kinds in the oracle modules (a script id is not an asset id).",
    "C15": " Also: at any depth inside a unit the error of a step that can fail after writing state is tested, handed on or returned, never dropped. Also: a window helper whose results bound a slice in unwrapped hook code does arithmetic only on parameters tested non-negative.",
    "C12": " Also: a record stored under an id read from a counter advances that counter on the same success path (otherwise the next creation overwrites the record and its owner).",
    "C05": " Also: a matching function given the fill price judges and fills every order at that price only; MatchableAmount applies its zero-quote-value test on every path (both directions). Also where the fill price is a local or captured variable: every judged price is one the function fills at. FulfillOrder fills exactly when the matchable amount is positive.",
    "C06": " Also: the denomination-linkage and execute-once rules of the liquidity module (foreign shares redeemed against a pool, or a deposit executed twice, change the reserves per share). Also: pool creation recomputes the other coin's amount (rounded up) only when its first guess strictly exceeds the offer. Also: x = quote, y = base at every call into the amm package. The module's identifier-kind rule is part of this check.",
    "C02": " Also: counter provenance (a vault stored under a fresh id takes it from the vault counter read in the same function, and that id is what is stored back as the counter), and the stable-mint handlers book on the stable vault of the product the message names. Also: a running amount (esm redemption set-up) is started and continued with the same quantity.",
    "C01": " Also (repository-wide rules scoped to the vault module): identifier-kind agreement at every keeper call, no stale copy for every Get/Set accessor pair, outside the handlers a vault is credited only by an amount moved into vault custody in the same function (auction settlement under shutdown), and records loaded under independent message ids are tied by an equality test before a coin-moving handler can succeed. Also: counter provenance for vault ids. Also: direction-flag updaters of the published totals store the field plus / minus the amount and nothing else; no sdk-math result is computed and dropped.",
    "C03": " Also: records loaded under independent message ids (product and vault) are tied by an equality test, so the limits applied are those of the vault's own product. Also: in/out scale agreement and price discipline in the vault and market modules (a failed or inactive price is an error, never a default value). Also: direction-flag updaters of the minted / locked totals store the field plus / minus the amount; the floor is compared with one vault's principal. The vault module's stale-copy rule is part of this check; every total a direction-flag updater touches gets both directions.",
    "C04": " Also (liquidity module): identifier-kind agreement at every keeper call and no stale copy for every Get/Set accessor pair. Also: a message naming a pool and carrying one coin cannot succeed without the denomination equality with the pool's share denomination; a stored request reaches its executor only behind Status == NotExecuted or when just recorded.",
    "C07": " Also: paired writers (an order id is indexed only together with storing the order). Also: identifier kinds through record constructors and field-by-field record fills (an app id stored as the pair id of the market-making order index). Also: a newly created order is entered into the orderer's index on every success path.",
    "C08": " Also: paired writers mined from the repository and frozen (a new borrow id only with the stored borrow, its entry in the lend position's open-borrow list and the totals update; a removed borrow leaves every index); the LTV check of a draw covers principal and accrued interest. Also (lend module): identifier-kind agreement at every keeper call, no stale copy for every Get/Set accessor pair, and borrow totals follow the change applied to the recorded principal when the function changes it. Also: counter provenance for lend/borrow ids. Also: a lend/borrow record stored under a fresh id advances its counter on the same success path. Also: UpdateLendStats / UpdateBorrowStats store the field plus / minus the amount for the two flag values.",
    "C09": " Also (liquidation modules): identifier-kind agreement at every keeper call and no stale copy for every Get/Set accessor pair. Also: each sweep reads and stores its cursor under its own key (own prefix, swept app), no two sweeps share a key; a lend position is deleted only under the AmountIn <= 0 test of its own record. Also: the vault length counter that bounds the sweep window moves exactly with vault creation and deletion; readers of the liquidation modules build their store key from their inputs. The debt that decides a vault seizure contains principal, interest and closing fee. A bool parameter that selects between the id lists of a record edits each list under one value of the flag only.",
    "C10": " Also (auction modules): identifier-kind agreement at every keeper call and no stale copy for every Get/Set accessor pair. Also: the elapsed time of the price path is measured from the auction record's own StartTime at all three update sites; at a v1 close the penalty sent to the collector is the collected inflow less the burnt principal. Also: a V2 settlement payout is never sized by the auction's remaining debt. V2 price updates happen only while the auction has not expired; no id parameter of a vault / auction keeper function is ignored.",
    "C11": " Also: the minimum bid step is rounded up; a deleted limit-bid deposit leaves the recorded total (paired writers). Also (auction modules): identifier-kind agreement at every keeper call and no stale copy for every Get/Set accessor pair. Also: in the automatic fill each reduction of the recorded limit-bid total equals the change of the depositor's record on the same path. Also: the depositor's record and the recorded total change by the same amount in every limit-bid function.",
    "C13": " Also: identifier-kind agreement and generic stale-copy rule for locker and collector, per-asset books receive the amount of the same side (sold lot / raised asset) of the auction record as the asset id they are keyed by, and locker handlers tie the records loaded under independent message ids. Also: UpdateCollector raises the net fees by the sum of exactly the fee amounts handed in; counter provenance for locker ids. Also: the stateless validation of the locker messages rejects negative and zero amounts.",
    "C14": " Also: the failure branch of a price/ratio helper cannot reach a success exit; every call into the esm and market keepers passes ids of the kind the callee names (the breaker is not looked up under an asset id); vault/locker/lend handlers tie the records loaded under independent message ids (the breaker's app is the position's app). Also: a sweep that consults the breaker of the app it sweeps seizes only vaults tied to that app.",
    "C19": " Also (rewards module): identifier-kind agreement at every keeper call. Also: the per-epoch split gives the extra unit to exactly total%n epochs; each selection of the priced reserve side is decided on the edges of its denom test. Also: the remaining balance of an external programme decreases from its own previous value; calls into the amm package pass quote-side values as x and base-side values as y.",
}

CLAIMS["C18"] = ("comparison guard on the elapsed-time difference (finite orderings), must-pass-through store rule, expression-identity carry rule",
    "Thin claim: decides three structural necessary conditions and nothing numeric. (1) Every accrual formula that scales by elapsed seconds (CalculationOfRewards, CalculateLendReward, CalculateBorrowInterest, CalculateStableInterest) can succeed only behind elapsed >= 0, without which (1+r)^t-1 and r*t turn negative. (2) In the stability-fee and locker-savings accrual every success path that stores the carry tracker also stores the position with its time base moved to the block time, so triggering twice does not accrue one interval twice. (3) Carry discipline in every accrue-and-carry function: what is subtracted from the tracker is Dec(TruncateInt(tracker)), that truncated amount is what is credited, and the tracker is stored afterwards on every successful path. (4) One borrow-rate value (a returned rate, or the arguments of one pure rate helper) is built from one family of rate parameters, variable or stable, never a mix - a necessary condition of continuity at the kink. NOT covered: sign, monotonicity and sub-additivity of the formulas as numbers, float64 rounding in math.Pow, the interest-rate model (base rate, continuity at the kink, lend <= borrow).",
    "DESIGN.md §3 C18")

NOT_APPLICABLE = {
}

ALL = ["C%02d" % i for i in range(1, 21)]


def main():
    checks = []
    na = []
    for pid in ALL:
        if pid in CLAIMS:
            tech, text, ref = CLAIMS[pid]
            text = text + GENERIC.get(pid, "")
            checks.append({
                "property_id": pid,
                "quick_cmd": "scripts/check %s quick" % pid,
                "thorough_cmd": "scripts/check %s thorough" % pid,
                "evidence_file": "/verif/evidence/%s.json" % pid,
                "replay_cmd_template": "bin/comdexlint -explain {path}",
                "engine": "comdexlint",
                "level_claimed": {"category": "other", "text": text, "design_ref": ref},
                "level_note": TRUST,
                "technique": "static analysis: " + tech,
            })
        elif pid in NOT_APPLICABLE:
            na.append({"property_id": pid, "reason": NOT_APPLICABLE[pid]})
        else:
            na.append({"property_id": pid, "reason": "not claimed yet: the static rules for this property are still being built (see DESIGN.md §3); no verdict is given until they exist."})
    m = {
        "version": 1,
        "setup_cmd": "cd /verif/checker && GOFLAGS=-mod=mod GOPROXY=off GOSUMDB=off GOTOOLCHAIN=local GOWORK=off go build -o /verif/bin/comdexlint .",
        "hooks": {
            "guard": "verif",
            "enable": "none: static analysis needs no instrumentation; /repo is only read (go/packages + go/ssa), never built with a tag or executed",
            "baseline_off_cmd": "cd /repo && GOFLAGS=-mod=mod go test -vet=off -count=1 -timeout 25m ./...",
            "source_commits": [],
            "add_only": True,
        },
        "engines": [{
            "name": "comdexlint",
            "path": "/verif/checker",
            "serves_properties": sorted(CLAIMS.keys()),
            "kind_free_text": "repository-specific static analyser (Go, golang.org/x/tools v0.29.0: go/packages + go/ssa): entry-point discovery, success-path CFG with edge-deletion reachability (must-pass guards with comparator strictness), effect co-occurrence, value provenance, store-key prefix evaluation; known findings keyed by rule+construct",
        }],
        "checks": checks,
        "not_applicable": na,
        "notes": "All claims are at level 'other': each decides named structural necessary conditions of the property on every path of the current source and states what it does not cover. Exit codes: 0 held (possibly with KNOWN-FINDING lines), 1 with VIOLATION lines, 2 ANALYSIS-ERROR (analysis could not be carried out; never a verdict).",
    }
    with open(os.path.join(HERE, "MANIFEST.json"), "w") as f:
        json.dump(m, f, indent=1)
        f.write("\n")


if __name__ == "__main__":
    main()
