#!/bin/bash
# Runs every seeded change under /verif/seeded/C* against the check of the property it breaks
# (and prints whether a VIOLATION was raised). /repo is restored after each.
# EVAL_REPO / EVAL_BIN may name a scratch worktree and a copy of the analyser.
cd /verif
repo=${EVAL_REPO:-/repo}
bin=${EVAL_BIN:-/verif/bin/comdexlint}
[ "$bin" = /verif/bin/comdexlint ] && scripts/check C16 quick >/dev/null 2>&1
for d in /verif/seeded/C*/; do
  id=$(basename $d)
  prop=$(python3 -c "import json;print(json.load(open('$d/meta.json'))['property'])")
  if ! git -C $repo apply --check $d/patch.diff 2>/dev/null; then echo "$id $prop PATCH-DOES-NOT-APPLY"; continue; fi
  git -C $repo apply $d/patch.diff
  out=$(VERIF_EVIDENCE_DIR=/tmp/seed-evidence $bin -verif /verif -repo $repo -prop $prop -tier quick 2>&1)
  git -C $repo checkout -- .
  if echo "$out" | grep -q "^VIOLATION"; then
    rule=$(echo "$out" | grep -v "^KNOWN" | grep -o "\[R[0-9.a-z]*\]" | sort -u | tr '\n' ' ')
    echo "$id $prop DETECTED $rule"
  elif echo "$out" | grep -q "ANALYSIS-ERROR"; then echo "$id $prop ANALYSIS-ERROR";
  else echo "$id $prop missed"; fi
done
