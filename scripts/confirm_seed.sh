#!/bin/bash
# usage: scripts/confirm_seed.sh <seedout dir> <test packages to run as "existing tests">
# Confirms a seeded change in a scratch worktree of /repo: (1) demo passes without the patch,
# (2) with the patch: builds, existing tests of the given packages pass, demo fails.
set -u
export GOFLAGS=-mod=mod GOPROXY=off GOSUMDB=off GOTOOLCHAIN=local; unset GOWORK
d=$1; shift
pkgs="$@"
name=$(basename $d)
wt=/tmp/confirm-$name
git -C /repo worktree remove --force $wt >/dev/null 2>&1
git -C /repo worktree add --detach $wt HEAD >/dev/null 2>&1 || { echo "cannot create worktree"; exit 2; }
cd $wt
demo_path=$(cat $d/demo_path.txt | head -1 | tr -d '[:space:]')
demo_cmd=$(python3 -c "import json;print(json.load(open('$d/meta.json'))['demo_cmd'])")
mkdir -p $(dirname $demo_path)
if [ -f $d/demo_test.go ]; then cp $d/demo_test.go $demo_path; else cp -r $d/demo/* $(dirname $demo_path)/; fi
echo "--- demo on unchanged tree: $demo_cmd"
( eval "$demo_cmd" ) > /tmp/confirm-$name.base.log 2>&1; base=$?
tail -3 /tmp/confirm-$name.base.log
rm -f $demo_path
git apply $d/patch.diff || { echo "PATCH FAILS TO APPLY"; cd /; git -C /repo worktree remove --force $wt; exit 3; }
echo "--- build with patch"
go build ./... > /tmp/confirm-$name.build.log 2>&1; build=$?
echo "--- existing tests with patch: $pkgs"
go test -vet=off -count=1 $pkgs > /tmp/confirm-$name.tests.log 2>&1; tests=$?
grep -v "no test files" /tmp/confirm-$name.tests.log | tail -5
cp $d/demo_test.go $demo_path 2>/dev/null || cp -r $d/demo/* $(dirname $demo_path)/
echo "--- demo with patch"
( eval "$demo_cmd" ) > /tmp/confirm-$name.mut.log 2>&1; mut=$?
tail -3 /tmp/confirm-$name.mut.log
cd /
git -C /repo worktree remove --force $wt
echo "RESULT $name base_demo_exit=$base build=$build existing_tests=$tests mutated_demo_exit=$mut"
if [ $base -eq 0 ] && [ $build -eq 0 ] && [ $tests -eq 0 ] && [ $mut -ne 0 ]; then echo "CONFIRMED $name"; else echo "NOT-CONFIRMED $name"; fi
