#!/bin/bash
# Runs every behaviour-preserving refactoring under /verif/seeded/refactor-* against ALL checks;
# each must stay silent. /repo is restored after each.
cd /verif
for d in /verif/seeded/refactor-*/; do scripts/try_refactor.sh $d 2>&1 | grep -v "^WARNING"; done
