#!/bin/bash
# usage: scripts/try_refactor.sh <dir with patch.diff>
# Applies a behaviour-preserving refactoring to the repository, runs EVERY check (quick, 6 at
# a time) and reports any VIOLATION / ANALYSIS-ERROR (= false alarm), then restores the tree.
# EVAL_REPO (default /repo) may name a scratch worktree; EVAL_BIN the analyser binary.
d=$(cd "$1" && pwd)
name=$(basename $d)
repo=${EVAL_REPO:-/repo}
bin=${EVAL_BIN:-/verif/bin/comdexlint}
cd /verif
if ! git -C $repo apply --check $d/patch.diff 2>/dev/null; then echo "$name PATCH-DOES-NOT-APPLY"; exit 0; fi
[ "$bin" = /verif/bin/comdexlint ] && scripts/check C16 quick >/dev/null 2>&1   # make sure the binary is built before going parallel
git -C $repo apply $d/patch.diff
out=/tmp/refactor-out-$name
rm -rf $out; mkdir -p $out
printf "%s\n" C01 C02 C03 C04 C05 C06 C07 C08 C09 C10 C11 C12 C13 C14 C15 C16 C17 C18 C19 C20 | \
  xargs -P ${EVAL_PAR:-6} -I{} sh -c "VERIF_EVIDENCE_DIR=/tmp/seed-evidence-$name/{} $bin -verif /verif -repo $repo -prop {} -tier quick > $out/{}.log 2>&1"
git -C $repo checkout -- .
git -C $repo clean -fdq x app types 2>/dev/null
bad=0
for c in C01 C02 C03 C04 C05 C06 C07 C08 C09 C10 C11 C12 C13 C14 C15 C16 C17 C18 C19 C20; do
  if grep -q "^VIOLATION\|ANALYSIS-ERROR" $out/$c.log; then
    bad=1
    echo "=== $name: $c raises"
    grep -v "^KNOWN-FINDING\|^WARNING" $out/$c.log | grep -B1 "^VIOLATION\|ANALYSIS-ERROR" | grep -v "^--" | cut -c1-700
  fi
done
[ $bad -eq 0 ] && echo "$name silent on all checks"
rm -rf $out /tmp/seed-evidence-$name
