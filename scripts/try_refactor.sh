#!/bin/bash
# usage: scripts/try_refactor.sh <dir with patch.diff>
# Applies a behaviour-preserving refactoring to /repo, runs EVERY check (quick) and reports
# any VIOLATION / ANALYSIS-ERROR (= false alarm), then restores /repo.
d=$(cd "$1" && pwd)
cd /verif
if ! git -C /repo apply --check $d/patch.diff 2>/dev/null; then echo "$(basename $d) PATCH-DOES-NOT-APPLY"; exit 0; fi
git -C /repo apply $d/patch.diff
bad=0
for c in C01 C02 C03 C04 C05 C06 C07 C08 C09 C10 C11 C12 C13 C14 C15 C16 C17 C18 C19 C20; do
  out=$(VERIF_EVIDENCE_DIR=/tmp/seed-evidence scripts/check $c quick 2>&1)
  if echo "$out" | grep -q "^VIOLATION\|ANALYSIS-ERROR"; then
    bad=1
    echo "=== $(basename $d): $c raises"
    echo "$out" | grep -v "^KNOWN-FINDING\|^WARNING" | grep -B1 "^VIOLATION\|ANALYSIS-ERROR" | grep -v "^--" | cut -c1-700
  fi
done
git -C /repo checkout -- .
git -C /repo clean -fdq x app types 2>/dev/null
[ $bad -eq 0 ] && echo "$(basename $d) silent on all checks"
