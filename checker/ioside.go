package main

import (
	"fmt"
	"sort"
	"strings"

	"golang.org/x/tools/go/ssa"
)

// In/out scale agreement. The position modules name the two assets of a pair "in" and
// "out" throughout (AssetIn/AssetOut, AmountIn/AmountOut, AssetOutPrice, rateIn/rateOut ...).
// Whichever asset each word means in a module, one valuation must stay on one side: an
// amount or price of the "out" asset is scaled by the decimals of the "out" asset. The rule
// looks at every arithmetic call or helper call that takes an Asset.Decimals value and
// requires the other operands whose side is decidable to be of the same side.

func ioTokenSide(name string) string {
	in, out := false, false
	for _, t := range camelTokens(name) {
		switch t {
		case "in", "inflow", "collateral":
			in = true
		case "out", "outflow", "debt":
			out = true
		}
	}
	switch {
	case in && !out:
		return "in"
	case out && !in:
		return "out"
	case in && out:
		return "mixed"
	}
	return ""
}

// ioSide: "in", "out", "mixed" or "" for a value, from the names on its provenance: record
// fields, parameters, and the id arguments of the getter calls it was loaded through.
func (p *Prog) ioSide(v ssa.Value, depth int) string {
	if depth > 4 {
		return ""
	}
	in, out := false, false
	add := func(s string) {
		switch s {
		case "in":
			in = true
		case "out":
			out = true
		case "mixed":
			in, out = true, true
		}
	}
	for _, o := range p.DeepOrigins(v) {
		named := false
		for _, f := range o.Path {
			if s := ioTokenSide(f); s != "" {
				add(s)
				named = true
			}
		}
		if named {
			continue // the nearest name decides: asset loaded under pair.AssetOut is "out" whatever the pair was loaded under
		}
		switch o.Kind {
		case "param":
			add(ioTokenSide(o.Val.Name()))
		case "call":
			for _, a := range callArgs(o.Call) {
				if isUint64(a.Type()) {
					add(p.ioSide(a, depth+1))
				}
			}
		}
	}
	switch {
	case in && out:
		return "mixed"
	case in:
		return "in"
	case out:
		return "out"
	}
	return ""
}

// isDecimalsValue: every deep origin of v is the Decimals field of an Asset record.
func (p *Prog) isDecimalsValue(v ssa.Value) bool {
	os := p.DeepOrigins(v)
	if len(os) == 0 {
		return false
	}
	for _, o := range os {
		if len(o.Path) == 0 || o.Path[len(o.Path)-1] != "Decimals" {
			return false
		}
	}
	return true
}

func scaleAgreementRule(p *Prog, r *Report, rule string, mods map[string]bool, floor int) {
	r.Rule(rule, "an amount or price of one side of a pair (in / out) is scaled by the decimals of the asset of the same side", floor)
	ops := p.operationalFns()
	var fns []*ssa.Function
	for f := range ops {
		if mods[moduleOf(f)] && !p.isAuxFn(f) {
			fns = append(fns, f)
		}
	}
	sort.Slice(fns, func(i, j int) bool { return fname(fns[i]) < fname(fns[j]) })
	for _, fn := range fns {
		seen := map[string]int{}
		for _, c := range calls(fn) {
			cc := c.Common()
			if len(cc.Args) < 2 {
				continue
			}
			name := calleeFullName(cc)
			if isTransparentCallee(name) && !(strings.HasSuffix(name, ".Quo") || strings.HasSuffix(name, ".Mul") || strings.HasSuffix(name, ".QuoTruncate") || strings.HasSuffix(name, ".MulTruncate") || strings.HasSuffix(name, ".QuoInt") || strings.HasSuffix(name, ".MulInt")) {
				continue // conversions and constructors: not a scaling step
			}
			dec := -1
			for i, a := range cc.Args {
				if p.isDecimalsValue(a) {
					dec = i
				}
			}
			if dec < 0 {
				continue
			}
			ds := p.ioSide(cc.Args[dec], 0)
			if ds == "" || ds == "mixed" {
				continue
			}
			for i, a := range cc.Args {
				if i == dec || p.isDecimalsValue(a) {
					continue
				}
				as := p.ioSide(a, 0)
				if as == "" || as == "mixed" {
					continue
				}
				r.Instance(rule)
				r.FuncsSeen[fname(fn)] = true
				base := fmt.Sprintf("%s %s operand %d", fname(fn), callName(c), i)
				seen[base]++
				construct := base
				if seen[base] > 1 {
					construct = fmt.Sprintf("%s #%d", base, seen[base])
				}
				if as == ds {
					r.OK(rule, construct, "the '"+as+"' value is scaled by the decimals of the '"+ds+"' asset", p.instrPos(c))
				} else {
					r.Fail(rule, construct, fmt.Sprintf("a value of the '%s' side of the pair is scaled by the decimals of the '%s' asset: with assets of different decimal scales the valuation is off by a power of ten", as, ds), p.instrPos(c), nil)
				}
			}
		}
	}
}
