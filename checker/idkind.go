package main

import (
	"fmt"
	"go/types"
	"strings"

	"golang.org/x/tools/go/ssa"
)

// Identifier-kind agreement: ids are plain uint64 values, so nothing in the type system
// stops a borrow id from being passed where a lend id is expected, or (app, pair) from
// being swapped. Kinds are inferred from names the repository itself uses: parameter
// names, field names (borrowPos.LendingID), the record type a generic `.ID` field belongs
// to, and the record type a reader function returns.

func camelTokens(name string) []string {
	var toks []string
	cur := ""
	rs := []rune(name)
	for i, r := range rs {
		if r == '_' {
			if cur != "" {
				toks = append(toks, strings.ToLower(cur))
			}
			cur = ""
			continue
		}
		upper := r >= 'A' && r <= 'Z'
		if upper && cur != "" {
			prevUpper := rs[i-1] >= 'A' && rs[i-1] <= 'Z'
			nextLower := i+1 < len(rs) && rs[i+1] >= 'a' && rs[i+1] <= 'z'
			if !prevUpper || nextLower {
				toks = append(toks, strings.ToLower(cur))
				cur = ""
			}
		}
		cur += string(r)
	}
	if cur != "" {
		toks = append(toks, strings.ToLower(cur))
	}
	return toks
}

func isIDName(name string) bool {
	t := camelTokens(name)
	if len(t) == 0 {
		return false
	}
	l := t[len(t)-1]
	return l == "id" || l == "ids"
}

// kindOfTokens maps the word sequence before the trailing "id" to a kind.
func kindOfTokens(t []string) string {
	has := func(w string) bool {
		for _, x := range t {
			if x == w {
				return true
			}
		}
		return false
	}
	switch {
	case has("extended") && has("pair"), has("ext") && has("pair"), has("pairs") && has("vault"), has("pair") && has("vault"):
		return "extpair"
	case has("locked") && has("vault"):
		return "lockedvault"
	case has("lend") && has("pair"):
		return "pair"
	case has("borrow") || has("borrowing"):
		return "borrow"
	case has("lend") || has("lending"):
		return "lend"
	case has("vault"):
		return "vault"
	case has("locker"):
		return "locker"
	case has("order"):
		return "order"
	case has("pool"):
		return "pool"
	case has("pair"):
		return "pair"
	case has("app"):
		return "app"
	case has("debt") && (has("asset") || has("token")):
		return "debt-asset"
	case has("collateral") && (has("asset") || has("token")):
		return "collateral-asset"
	case has("asset"):
		return "asset"
	case has("auction"):
		return "auction"
	case has("bid") || has("bidding"):
		return "bid"
	case has("script"):
		return "script"
	case has("gauge"):
		return "gauge"
	case has("epoch"):
		return "epoch"
	}
	return ""
}

// kindOfName maps an identifier name to its id kind ("" when unknown/generic).
func kindOfName(name string) string {
	if !isIDName(name) {
		return ""
	}
	t := camelTokens(name)
	return kindOfTokens(t[:len(t)-1])
}

// kindOfType maps a record type name to the kind of its own ID field.
func kindOfType(tn string) string {
	l := strings.ToLower(tn)
	switch {
	case strings.HasPrefix(l, "lendasset"):
		return "lend"
	case strings.HasPrefix(l, "borrowasset"):
		return "borrow"
	case l == "extendedpairvault" || l == "extended_pair":
		return "extpair"
	case l == "vault" || l == "stablemintvault":
		return "vault"
	case l == "lockedvault":
		return "lockedvault"
	case l == "locker":
		return "locker"
	case l == "order":
		return "order"
	case l == "pool":
		return "pool"
	case l == "pair":
		return "pair"
	case l == "appdata" || l == "app":
		return "app"
	case l == "asset":
		return "asset"
	case strings.HasSuffix(l, "auction"):
		return "auction"
	}
	return ""
}

func isUint64(t types.Type) bool {
	b, ok := t.Underlying().(*types.Basic)
	return ok && b.Kind() == types.Uint64
}

// argKind infers the kind of an argument value from its origins; all origins must agree.
func (p *Prog) argKind(v ssa.Value) string {
	kind := ""
	for _, o := range p.Origins(v) {
		k := ""
		switch o.Kind {
		case "param":
			if len(o.Path) == 0 {
				k = kindOfName(o.Val.Name())
			} else {
				k = p.fieldKind(o, o.Val.Type())
			}
		case "call", "alloc", "global", "freevar":
			if len(o.Path) > 0 {
				var t types.Type
				if o.Kind == "call" {
					t = o.Call.Type()
					if tup, ok := t.(*types.Tuple); ok && o.Index < tup.Len() {
						t = tup.At(o.Index).Type()
					}
				} else {
					t = o.Val.Type()
				}
				k = p.fieldKind(o, t)
			}
		case "const":
			return ""
		}
		if k == "" {
			return ""
		}
		if kind == "" {
			kind = k
		} else if kind != k {
			return ""
		}
	}
	return kind
}

// fieldKind: kind of the last field of the access path; a generic ID field takes the
// kind of the struct it belongs to.
func (p *Prog) fieldKind(o Origin, base types.Type) string {
	last := o.Path[len(o.Path)-1]
	if last == "[]" {
		return ""
	}
	if last == "OriginalVaultId" || last == "ExtendedPairId" {
		// LockedVault reuses these two fields for lend-type positions (borrow id / lend pair id):
		// their kind depends on the record's IsDebtCmst/type flag, so it is not decidable here
		t := base
		for i := 0; i < len(o.Path)-1 && t != nil; i++ {
			t = stepField(t, o.Path[i])
		}
		if t != nil && namedTypeName(derefAll(t)) == "LockedVault" {
			return ""
		}
	}
	if k := kindOfName(last); k != "" {
		return k
	}
	if !isIDName(last) {
		return ""
	}
	// walk the path to find the struct type holding the last field
	t := base
	for i := 0; i < len(o.Path)-1; i++ {
		t = stepField(t, o.Path[i])
		if t == nil {
			return ""
		}
	}
	return kindOfType(namedTypeName(derefAll(t)))
}

func derefAll(t types.Type) types.Type {
	for {
		if pt, ok := t.(*types.Pointer); ok {
			t = pt.Elem()
			continue
		}
		if pt, ok := t.Underlying().(*types.Pointer); ok {
			t = pt.Elem()
			continue
		}
		return t
	}
}

func stepField(t types.Type, name string) types.Type {
	t = derefAll(t)
	if name == "[]" {
		switch x := t.Underlying().(type) {
		case *types.Slice:
			return x.Elem()
		case *types.Array:
			return x.Elem()
		case *types.Map:
			return x.Elem()
		}
		return nil
	}
	st, ok := t.Underlying().(*types.Struct)
	if !ok {
		return nil
	}
	for i := 0; i < st.NumFields(); i++ {
		if st.Field(i).Name() == name {
			return st.Field(i).Type()
		}
	}
	return nil
}

// paramKinds infers the kinds of the uint64 parameters of a callee.
func paramKinds(f *ssa.Function) []string {
	sig := f.Signature
	out := make([]string, sig.Params().Len())
	generic := -1
	nGeneric := 0
	for i := 0; i < sig.Params().Len(); i++ {
		pv := sig.Params().At(i)
		if !isUint64(pv.Type()) {
			continue
		}
		out[i] = kindOfName(pv.Name())
		if f.Name() == "CreateLockedVault" && (pv.Name() == "OriginalVaultId" || pv.Name() == "ExtendedPairId") {
			out[i] = "" // the LockedVault field reuse (see fieldKind)
			continue
		}
		if out[i] == "" && isIDName(pv.Name()) {
			generic = i
			nGeneric++
		}
	}
	if nGeneric == 1 {
		// reader/deleter of a record: Get<Rec>, Delete<Rec>, Has<Rec>
		n := f.Name()
		for _, pre := range []string{"Get", "Delete", "Has", "MustGet"} {
			if strings.HasPrefix(n, pre) {
				rest := strings.TrimPrefix(n, pre)
				out[generic] = kindOfType(rest)
				if toks := camelTokens(rest); out[generic] == "" && len(toks) <= 2 {
					out[generic] = kindOfTokens(toks)
				}
				break
			}
		}
	}
	return out
}

// ctorParamKinds: for a constructor New<Record>(...) of a comdex types package that returns
// a record struct, the kind of each uint64 parameter taken from the one record field it is
// stored in (nil when the function is not such a constructor).
func ctorParamKinds(f *ssa.Function) []string {
	if len(f.Blocks) == 0 || !strings.HasPrefix(f.Name(), "New") {
		return nil
	}
	res := f.Signature.Results()
	if res.Len() != 1 {
		return nil
	}
	rt := namedOf(res.At(0).Type())
	if rt == nil {
		return nil
	}
	if _, ok := rt.Underlying().(*types.Struct); !ok {
		return nil
	}
	out := make([]string, len(f.Params))
	any := false
	for i, pr := range f.Params {
		if !isUint64(pr.Type()) || pr.Referrers() == nil {
			continue
		}
		kind, n := "", 0
		for _, ref := range *pr.Referrers() {
			st, ok := ref.(*ssa.Store)
			if !ok || st.Val != ssa.Value(pr) {
				continue
			}
			fa, ok := st.Addr.(*ssa.FieldAddr)
			if !ok || namedOf(fa.X.Type()) == nil || namedOf(fa.X.Type()).Obj() != rt.Obj() {
				continue
			}
			fn := fieldName(fa.X.Type(), fa.Field)
			n++
			if fn == ownIDField(rt) {
				kind = kindOfType(rt.Obj().Name())
			} else {
				kind = kindOfName(fn)
			}
		}
		if n == 1 && kind != "" {
			out[i] = kind
			any = true
		}
	}
	if !any {
		return nil
	}
	return out
}

var idKindAllFns = map[string]bool{"R17.7": true}

var idKindExceptions = map[string]string{
	"x/lend/keeper.Keeper.CreteNewBorrow -> GetLendPair arg 1 (id)": "v1 liquidation stores the lend pair id of a lend-type locked vault in LockedVault.ExtendedPairId (documented reuse of the field)",
	"x/lend/keeper.Keeper.CreteNewBorrow -> GetBorrow arg 1 (ID)":   "v1 liquidation stores the borrow id of a lend-type locked vault in LockedVault.OriginalVaultId (documented reuse of the field)",
}

// idKindRule checks every call in the operational code of the given modules.
func idKindRule(p *Prog, r *Report, rule string, modules map[string]bool, floor int) {
	idKindRuleX(p, r, rule, modules, nil, floor)
}

// idKindRuleX: a call is an instance when the caller is in callerMods or the (first
// resolved) callee is in calleeMods.
func idKindRuleX(p *Prog, r *Report, rule string, modules, calleeMods map[string]bool, floor int) {
	r.Rule(rule, "identifier-kind agreement at calls (no borrow id where a lend id is expected, no swapped app/pair ids)", floor)
	ops := p.operationalFns()
	for _, fn := range p.Funcs {
		// the oracle configuration is driven by governance proposals, which are not among the
		// operational roots: for that scope every keeper function of the modules is looked at
		if !ops[fn] && !(idKindAllFns[rule] && modules[moduleOf(fn)] && strings.HasSuffix(fnPkgPath(fn), "/keeper")) {
			continue
		}
		if p.isAuxFn(fn) {
			continue
		}
		callerIn := modules[moduleOf(fn)]
		if !callerIn && len(calleeMods) == 0 {
			continue
		}
		n := 0
		for _, c := range calls(fn) {
			ts := p.Callees(c)
			if len(ts) == 0 {
				continue
			}
			t := ts[0]
			if !isComdexFn(t) {
				continue
			}
			var pk []string
			if t.Signature.Recv() == nil && strings.HasSuffix(fnPkgPath(t), "/types") {
				// record constructors: the kind of a parameter is the kind of the record field it is
				// stored in (key constructors in types packages carry unreliable parameter names and
				// are not looked at)
				if !callerIn {
					continue
				}
				pk = ctorParamKinds(t)
				if pk == nil {
					continue
				}
			} else if t.Signature.Recv() == nil || strings.HasSuffix(fnPkgPath(t), "/types") {
				continue // only keeper-style methods
			} else {
				if !callerIn && !calleeMods[moduleOf(t)] {
					continue
				}
				pk = paramKinds(t)
			}
			args := callArgs(c)
			known := 0
			for _, k := range pk {
				if k != "" {
					known++
				}
			}
			if known == 0 {
				continue
			}
			have := map[string]bool{}
			for _, k := range pk {
				if k != "" {
					have[k] = true
				}
			}
			for i, a := range args {
				if i >= len(pk) || pk[i] == "" || !isUint64(a.Type()) {
					continue
				}
				ak := p.argKind(a)
				if ak == "" {
					continue
				}
				r.Instance(rule)
				n++
				construct := fmt.Sprintf("%s -> %s arg %d (%s)", fname(fn), t.Name(), i, t.Signature.Params().At(i).Name())
				if compatibleKinds(ak, pk[i]) {
					r.OK(rule, construct, ak+" id passed as "+pk[i]+" id", p.instrPos(c))
					continue
				}
				if why, ok := idKindExceptions[construct]; ok {
					r.Note("%s exception %s: %s", rule, construct, why)
					continue
				}
				msg := fmt.Sprintf("a %s id is passed where %s expects a %s id", ak, short(fullName(t)), pk[i])
				if have[ak] {
					msg += " (the callee has a " + ak + " parameter in another position: arguments swapped?)"
				}
				r.Fail(rule, construct, msg, p.instrPos(c), nil)
			}
		}
		// the same agreement where a record is filled field by field (composite literals and
		// assignments): an id stored in a field naming another kind of record
		if callerIn {
			for _, b := range fn.Blocks {
				for _, in := range b.Instrs {
					st, ok := in.(*ssa.Store)
					if !ok || !isUint64(st.Val.Type()) {
						continue
					}
					fa, ok := st.Addr.(*ssa.FieldAddr)
					if !ok {
						continue
					}
					rt := namedOf(fa.X.Type())
					if rt == nil || rt.Obj().Pkg() == nil || !strings.Contains(rt.Obj().Pkg().Path(), "comdex-official/comdex") {
						continue
					}
					fnm := fieldName(fa.X.Type(), fa.Field)
					if rt.Obj().Name() == "LockedVault" && (fnm == "OriginalVaultId" || fnm == "ExtendedPairId") {
						continue
					}
					fk := kindOfName(fnm)
					if fk == "" && fnm == ownIDField(rt) {
						fk = kindOfType(rt.Obj().Name())
					}
					if fk == "" {
						continue
					}
					ak := p.argKind(st.Val)
					if ak == "" {
						continue
					}
					r.Instance(rule)
					n++
					construct := fmt.Sprintf("%s %s.%s := %s id", fname(fn), rt.Obj().Name(), fnm, ak)
					if compatibleKinds(ak, fk) {
						r.OK(rule, construct, ak+" id stored as "+fk+" id", p.instrPos(st))
						continue
					}
					if why, ok := idKindExceptions[construct]; ok {
						r.Note("%s exception %s: %s", rule, construct, why)
						continue
					}
					r.Fail(rule, construct, fmt.Sprintf("a %s id is stored in %s.%s, which names a %s", ak, rt.Obj().Name(), fnm, fk), p.instrPos(st), nil)
				}
			}
		}
		if n > 0 {
			r.FuncsSeen[fname(fn)] = true
		}
	}
}

func compatibleKinds(a, b string) bool {
	if a == b {
		return true
	}
	// a debt / collateral asset id is an asset id
	if (a == "asset" && strings.HasSuffix(b, "-asset")) || (b == "asset" && strings.HasSuffix(a, "-asset")) {
		return true
	}
	return false
}
