package main

import (
	"fmt"
	"go/token"
	"go/types"
	"strings"

	"golang.org/x/tools/go/ssa"
)

// Edge is the idx-th successor edge of a block.
type Edge struct {
	From *ssa.BasicBlock
	Idx  int
}

type ExitKind int

const (
	ExitSuccess ExitKind = iota // error result is the constant nil (or function has no error result)
	ExitError                   // error result is known non-nil
	ExitUnknown                 // anything else; treated as success by "must" rules
)

var errorType = types.Universe.Lookup("error").Type()

func isErrorType(t types.Type) bool { return types.Identical(t, errorType) }

// errResultIndex returns the index of the trailing error result of fn, or -1.
func errResultIndex(fn *ssa.Function) int {
	res := fn.Signature.Results()
	if res.Len() == 0 {
		return -1
	}
	if isErrorType(res.At(res.Len() - 1).Type()) {
		return res.Len() - 1
	}
	return -1
}

var errCtorNames = map[string]bool{
	"errors.New": true, "fmt.Errorf": true,
	"cosmossdk.io/errors.Wrap": true, "cosmossdk.io/errors.Wrapf": true,
	"cosmossdk.io/errors.Error.Wrap": true, "cosmossdk.io/errors.Error.Wrapf": true,
	"cosmossdk.io/errors.Register": true, "cosmossdk.io/errors.New": true,
	"github.com/cosmos/cosmos-sdk/types/errors.Wrap": true, "github.com/cosmos/cosmos-sdk/types/errors.Wrapf": true,
	"github.com/cosmos/cosmos-sdk/types/errors.Register": true,
	"google.golang.org/grpc/status.Error":                true, "google.golang.org/grpc/status.Errorf": true,
	"github.com/pkg/errors.New": true, "github.com/pkg/errors.Wrap": true, "github.com/pkg/errors.Wrapf": true, "github.com/pkg/errors.Errorf": true,
}

// nilCheck recognises cond as "e != nil" (neq=true) or "e == nil" (neq=false) on an
// interface/pointer value and returns e.
func nilCheck(cond ssa.Value) (e ssa.Value, neq bool, ok bool) {
	b, isB := cond.(*ssa.BinOp)
	if !isB || (b.Op != token.NEQ && b.Op != token.EQL) {
		return nil, false, false
	}
	isNil := func(v ssa.Value) bool {
		c, ok := v.(*ssa.Const)
		return ok && c.Value == nil && c.IsNil()
	}
	switch {
	case isNil(b.Y):
		return b.X, b.Op == token.NEQ, true
	case isNil(b.X):
		return b.Y, b.Op == token.NEQ, true
	}
	return nil, false, false
}

// sameValue compares two SSA values modulo trivial wrappers and repeated loads of the
// same local (go/ssa does no CSE).
func sameValue(a, b ssa.Value) bool {
	if a == b {
		return true
	}
	la, ok1 := a.(*ssa.UnOp)
	lb, ok2 := b.(*ssa.UnOp)
	if ok1 && ok2 && la.Op == token.MUL && lb.Op == token.MUL {
		return la.X == lb.X
	}
	return false
}

// knownNonNilOnEntry reports whether value e is known to be non-nil in block blk
// because blk is dominated by the taken edge of a test "e != nil".
func knownNonNilIn(e ssa.Value, blk *ssa.BasicBlock) bool {
	for d := blk; d != nil; d = d.Idom() {
		c := d.Idom()
		if c == nil {
			break
		}
		if len(d.Preds) != 1 || d.Preds[0] != c {
			continue
		}
		ifi, ok := c.Instrs[len(c.Instrs)-1].(*ssa.If)
		if !ok {
			continue
		}
		x, neq, ok := nilCheck(ifi.Cond)
		if !ok || !sameValue(x, e) {
			continue
		}
		if (neq && c.Succs[0] == d) || (!neq && c.Succs[1] == d) {
			return true
		}
	}
	return false
}

func knownNilIn(e ssa.Value, blk *ssa.BasicBlock) bool {
	for d := blk; d != nil; d = d.Idom() {
		c := d.Idom()
		if c == nil {
			break
		}
		if len(d.Preds) != 1 || d.Preds[0] != c {
			continue
		}
		ifi, ok := c.Instrs[len(c.Instrs)-1].(*ssa.If)
		if !ok {
			continue
		}
		x, neq, ok := nilCheck(ifi.Cond)
		if !ok || !sameValue(x, e) {
			continue
		}
		if (neq && c.Succs[1] == d) || (!neq && c.Succs[0] == d) {
			return true
		}
	}
	return false
}

// errValueKind classifies an error-typed value at a given block.
func errValueKind(v ssa.Value, at *ssa.BasicBlock, depth int) ExitKind {
	switch x := v.(type) {
	case *ssa.Const:
		if x.IsNil() {
			return ExitSuccess
		}
		return ExitUnknown
	case *ssa.MakeInterface:
		return ExitError
	case *ssa.Call:
		if sc := x.Call.StaticCallee(); sc != nil && errCtorNames[fullName(sc)] {
			return ExitError
		}
		// function variables such as sdkerrors.Wrap = errorsmod.Wrap
		if u, ok := x.Call.Value.(*ssa.UnOp); ok && u.Op == token.MUL {
			if g, ok := u.X.(*ssa.Global); ok && g.Pkg != nil && errCtorNames[g.Pkg.Pkg.Path()+"."+g.Name()] {
				return ExitError
			}
		}
	case *ssa.ChangeInterface:
		return errValueKind(x.X, at, depth)
	case *ssa.Phi:
		if depth > 3 {
			return ExitUnknown
		}
		k := ExitKind(-1)
		for i, e := range x.Edges {
			ek := errValueKind(e, x.Block().Preds[i], depth+1)
			if k == -1 {
				k = ek
			} else if k != ek {
				return ExitUnknown
			}
		}
		if k != -1 {
			return k
		}
	}
	if at != nil {
		if knownNonNilIn(v, at) {
			return ExitError
		}
		if knownNilIn(v, at) {
			return ExitSuccess
		}
	}
	return ExitUnknown
}

// exitKind classifies a Return.
func exitKind(ret *ssa.Return) ExitKind {
	fn := ret.Parent()
	i := errResultIndex(fn)
	if i < 0 {
		return ExitSuccess
	}
	if i >= len(ret.Results) {
		return ExitUnknown
	}
	return errValueKind(ret.Results[i], ret.Block(), 0)
}

// returns lists the Return instructions of fn.
func returns(fn *ssa.Function) []*ssa.Return {
	var out []*ssa.Return
	for _, b := range fn.Blocks {
		if len(b.Instrs) == 0 {
			continue
		}
		if r, ok := b.Instrs[len(b.Instrs)-1].(*ssa.Return); ok {
			out = append(out, r)
		}
	}
	return out
}

// reach computes the blocks reachable from the entry of fn (or from `from` when non-nil)
// when the edges in cut are removed and blocks in blocked are not entered. parent
// records the BFS tree for witnesses.
func reach(fn *ssa.Function, from *ssa.BasicBlock, cut map[Edge]bool, blocked map[*ssa.BasicBlock]bool) (seen map[*ssa.BasicBlock]bool, parent map[*ssa.BasicBlock]*ssa.BasicBlock) {
	seen = map[*ssa.BasicBlock]bool{}
	parent = map[*ssa.BasicBlock]*ssa.BasicBlock{}
	if len(fn.Blocks) == 0 {
		return
	}
	start := from
	if start == nil {
		start = fn.Blocks[0]
	}
	if blocked[start] {
		return
	}
	seen[start] = true
	q := []*ssa.BasicBlock{start}
	for len(q) > 0 {
		b := q[0]
		q = q[1:]
		for i, s := range b.Succs {
			if cut[Edge{b, i}] || blocked[s] || seen[s] {
				continue
			}
			seen[s] = true
			parent[s] = b
			q = append(q, s)
		}
	}
	return
}

// witness renders the BFS path to block b as file:line entries.
func (p *Prog) witness(parent map[*ssa.BasicBlock]*ssa.BasicBlock, b *ssa.BasicBlock) []string {
	var chain []*ssa.BasicBlock
	for x := b; x != nil; x = parent[x] {
		chain = append(chain, x)
		if len(chain) > 400 {
			break
		}
	}
	var out []string
	last := ""
	for i := len(chain) - 1; i >= 0; i-- {
		blk := chain[i]
		pos := "?"
		for _, in := range blk.Instrs {
			if in.Pos().IsValid() {
				pos = p.pos(in.Pos())
				break
			}
		}
		s := fmt.Sprintf("%s (block %d)", pos, blk.Index)
		if pos != last {
			out = append(out, s)
		}
		last = pos
	}
	if len(out) > 14 {
		out = append(append([]string{}, out[:6]...), append([]string{"..."}, out[len(out)-7:]...)...)
	}
	return out
}

// GuardSpec describes a guard: Local classifies the condition of an If in a function and
// says which of its edges can only be taken when the guard is satisfied ("pass edges").
type GuardSpec struct {
	Name string
	// Local returns whether the true / false edge of an If on cond is a pass edge.
	Local func(fn *ssa.Function, cond ssa.Value) (passTrue, passFalse bool)
	// CallPass (optional) says that the mere successful return of a call establishes the
	// guard (callee is itself the guard, e.g. VerifyCollaterlizationRatio): its err==nil
	// edge is then a pass edge even without looking inside.
	CallPass func(callee *ssa.Function, call ssa.CallInstruction) bool
	// Assume (optional): edges that are deleted before the query because the property
	// scopes them out (e.g. "outside emergency shutdown").
	Assume func(fn *ssa.Function, cond ssa.Value) (cutTrue, cutFalse bool)

	summaries map[*ssa.Function]int // 0 unknown, 1 in progress, 2 guarded, 3 not guarded
}

// callResultError: if v is the error result of a call (directly, or Extract of the
// tuple), return that call.
func callOfErrorValue(v ssa.Value) *ssa.Call {
	switch x := v.(type) {
	case *ssa.Call:
		return x
	case *ssa.Extract:
		if c, ok := x.Tuple.(*ssa.Call); ok {
			return c
		}
	}
	return nil
}

// errorCallsOf resolves an error value to the calls it may be the result of, following
// phis and stores into a local (the `err` variable spilled to an Alloc).
func errorCallsOf(v ssa.Value, depth int) []*ssa.Call {
	if depth > 4 {
		return nil
	}
	if c := callOfErrorValue(v); c != nil {
		return []*ssa.Call{c}
	}
	switch x := v.(type) {
	case *ssa.Phi:
		var out []*ssa.Call
		for _, e := range x.Edges {
			cs := errorCallsOf(e, depth+1)
			if cs == nil {
				return nil
			}
			out = append(out, cs...)
		}
		return out
	case *ssa.ChangeInterface:
		return errorCallsOf(x.X, depth+1)
	}
	return nil
}

// calleeEstablishes reports whether a successful return of every possible callee of call
// establishes the guard.
func (p *Prog) calleeEstablishes(g *GuardSpec, call ssa.CallInstruction, depth int) bool {
	cs := p.Callees(call)
	if len(cs) == 0 {
		return false
	}
	for _, c := range cs {
		if g.CallPass != nil && g.CallPass(c, call) {
			continue
		}
		if !isComdexFn(c) || len(c.Blocks) == 0 {
			return false
		}
		if !p.GuardedFn(g, c, depth+1) {
			return false
		}
	}
	return true
}

// PassEdges returns the edges of fn that can only be taken when guard g is satisfied,
// and the edges cut by assumption.
func (p *Prog) PassEdges(g *GuardSpec, fn *ssa.Function, depth int) (pass map[Edge]bool, assumed map[Edge]bool) {
	pass = map[Edge]bool{}
	assumed = map[Edge]bool{}
	// classify one condition value: which outcome (true / false) is cut by assumption, which
	// can only be taken with the guard satisfied
	classify := func(cond ssa.Value) (cutT, cutF, passT, passF bool) {
		if g.Assume != nil {
			cutT, cutF = g.Assume(fn, cond)
		}
		if g.Local != nil {
			passT, passF = g.Local(fn, cond)
			if passT || passF {
				return
			}
		}
		// interprocedural: if err != nil on the error result of a guarding callee
		if e, neq, ok := nilCheck(cond); ok && isErrorType(e.Type()) {
			calls := errorCallsOf(e, 0)
			if len(calls) == 0 {
				return
			}
			for _, c := range calls {
				if !p.calleeEstablishes(g, c, depth) {
					return
				}
			}
			if neq {
				passF = true
			} else {
				passT = true
			}
		}
		return
	}
	type phiIf struct {
		b  *ssa.BasicBlock
		ph *ssa.Phi
	}
	var phiIfs []phiIf
	for _, b := range fn.Blocks {
		if len(b.Instrs) == 0 {
			continue
		}
		ifi, ok := b.Instrs[len(b.Instrs)-1].(*ssa.If)
		if !ok {
			continue
		}
		// a && b / a || b used as a value (switch case, assigned boolean) is a phi of the
		// short-circuit constant and the last operand: decided per incoming edge below
		cutT, cutF, passT, passF := classify(ifi.Cond)
		if ph, isPhi := ifi.Cond.(*ssa.Phi); isPhi && ph.Block() == b && len(ph.Edges) == len(b.Preds) && !(cutT || cutF || passT || passF) {
			// (a guard that understands the merged value as a whole, e.g. "status := false; if found
			// { status = rec.Status }", has already answered above)
			phiIfs = append(phiIfs, phiIf{b, ph})
			continue
		}
		if cutT {
			assumed[Edge{b, 0}] = true
		}
		if cutF {
			assumed[Edge{b, 1}] = true
		}
		if passT {
			pass[Edge{b, 0}] = true
		}
		if passF {
			pass[Edge{b, 1}] = true
		}
	}
	for _, pi := range phiIfs {
		b := pi.b
		anyT, anyF := false, false
		allPassT, allPassF := true, true
		for i, v := range pi.ph.Edges {
			pred := b.Preds[i]
			// incoming edge cut by assumption: ignore
			live := false
			for si, s := range pred.Succs {
				if s == b && !assumed[Edge{pred, si}] {
					live = true
				}
			}
			if !live {
				continue
			}
			canT, canF := true, true
			var cutT, cutF, passT, passF bool
			if cb, isConst := constBool(v); isConst {
				canT, canF = cb, !cb
			} else {
				cutT, cutF, passT, passF = classify(v)
			}
			if canT && !cutT {
				anyT = true
				if !passT {
					allPassT = false
				}
			}
			if canF && !cutF {
				anyF = true
				if !passF {
					allPassF = false
				}
			}
		}
		if !anyT {
			assumed[Edge{b, 0}] = true
		} else if allPassT {
			pass[Edge{b, 0}] = true
		}
		if !anyF {
			assumed[Edge{b, 1}] = true
		} else if allPassF {
			pass[Edge{b, 1}] = true
		}
	}
	return
}

// successTargets: blocks whose Return is a success (or unknown) exit, excluding returns
// that forward the error of a call that establishes the guard.
func (p *Prog) successTargets(g *GuardSpec, fn *ssa.Function, depth int) []*ssa.BasicBlock {
	var out []*ssa.BasicBlock
	ei := errResultIndex(fn)
	for _, r := range returns(fn) {
		k := exitKind(r)
		if k == ExitError {
			continue
		}
		if k == ExitUnknown && ei >= 0 && ei < len(r.Results) && g != nil {
			if calls := errorCallsOf(r.Results[ei], 0); len(calls) > 0 {
				all := true
				for _, c := range calls {
					if !p.calleeEstablishes(g, c, depth) {
						all = false
						break
					}
				}
				if all {
					continue
				}
			}
		}
		out = append(out, r.Block())
	}
	return out
}

// GuardedFn: every success exit of fn is unreachable once the pass edges of g are deleted.
func (p *Prog) GuardedFn(g *GuardSpec, fn *ssa.Function, depth int) bool {
	if g.summaries == nil {
		g.summaries = map[*ssa.Function]int{}
	}
	switch g.summaries[fn] {
	case 1:
		return false
	case 2:
		return true
	case 3:
		return false
	}
	if depth > 6 || len(fn.Blocks) == 0 {
		return false
	}
	g.summaries[fn] = 1
	ok, _, _ := p.guardedTargets(g, fn, nil, depth)
	if ok {
		g.summaries[fn] = 2
	} else {
		g.summaries[fn] = 3
	}
	return ok
}

// guardedTargets decides Q1 for fn: with the pass edges deleted, is any target block
// (nil = the success exits) reachable from the entry? Returns ok plus the offending
// block and witness.
func (p *Prog) guardedTargets(g *GuardSpec, fn *ssa.Function, targets []*ssa.BasicBlock, depth int) (bool, *ssa.BasicBlock, []string) {
	pass, assumed := p.PassEdges(g, fn, depth)
	cut := map[Edge]bool{}
	for e := range pass {
		cut[e] = true
	}
	for e := range assumed {
		cut[e] = true
	}
	if targets == nil {
		targets = p.successTargets(g, fn, depth)
	}
	seen, parent := reach(fn, nil, cut, nil)
	for _, t := range targets {
		if seen[t] {
			return false, t, p.witness(parent, t)
		}
	}
	return true, nil, nil
}

// Guarded is the exported form of Q1 for a root function.
func (p *Prog) Guarded(g *GuardSpec, fn *ssa.Function, targets []*ssa.BasicBlock) (bool, *ssa.BasicBlock, []string) {
	return p.guardedTargets(g, fn, targets, 0)
}

// GuardedSite: site instruction `in` inside fn reachable only through a pass edge. When
// the site sits in a callee of the root, the caller is expected to walk the chain.
func (p *Prog) GuardedSite(g *GuardSpec, in ssa.Instruction) (bool, []string) {
	ok, _, w := p.guardedTargets(g, in.Parent(), []*ssa.BasicBlock{in.Block()}, 0)
	return ok, w
}

// blockOf returns the blocks holding the given instructions.
func blocksOf(ins []ssa.Instruction) []*ssa.BasicBlock {
	seen := map[*ssa.BasicBlock]bool{}
	var out []*ssa.BasicBlock
	for _, in := range ins {
		if !seen[in.Block()] {
			seen[in.Block()] = true
			out = append(out, in.Block())
		}
	}
	return out
}

// calls lists the call instructions of fn (Call, Defer, Go).
func calls(fn *ssa.Function) []ssa.CallInstruction {
	var out []ssa.CallInstruction
	for _, b := range fn.Blocks {
		for _, in := range b.Instrs {
			if c, ok := in.(ssa.CallInstruction); ok {
				out = append(out, c)
			}
		}
	}
	return out
}

// Reachable returns the comdex functions transitively reachable from roots through
// resolved calls (closures created inside a function are considered reachable from it,
// as are functions whose value is taken).
func (p *Prog) Reachable(roots []*ssa.Function, stop func(*ssa.Function) bool) map[*ssa.Function]bool {
	seen := map[*ssa.Function]bool{}
	var visit func(f *ssa.Function)
	visit = func(f *ssa.Function) {
		if f == nil || seen[f] || !isComdexFn(f) || len(f.Blocks) == 0 {
			return
		}
		if stop != nil && stop(f) {
			return
		}
		seen[f] = true
		for _, b := range f.Blocks {
			for _, in := range b.Instrs {
				if c, ok := in.(ssa.CallInstruction); ok {
					for _, t := range p.Callees(c) {
						visit(t)
					}
				}
				// function values referenced (closures, method values)
				for _, op := range in.Operands(nil) {
					if op == nil || *op == nil {
						continue
					}
					if fv := funcValue(*op); fv != nil {
						visit(p.unwrap(fv))
					}
				}
			}
		}
	}
	for _, r := range roots {
		visit(r)
	}
	return seen
}

// MayReach: memoised "fn may transitively call a function satisfying pred".
type MaySummary struct {
	p     *Prog
	pred  func(call ssa.CallInstruction, callee *ssa.Function) bool
	memo  map[*ssa.Function]int
	sites map[*ssa.Function][]ssa.CallInstruction
}

func (p *Prog) NewMay(pred func(call ssa.CallInstruction, callee *ssa.Function) bool) *MaySummary {
	return &MaySummary{p: p, pred: pred, memo: map[*ssa.Function]int{}, sites: map[*ssa.Function][]ssa.CallInstruction{}}
}

// Fn reports whether fn may perform the effect (directly or through comdex callees).
func (m *MaySummary) Fn(fn *ssa.Function) bool {
	switch m.memo[fn] {
	case 1:
		return false // in progress (cycle)
	case 2:
		return true
	case 3:
		return false
	}
	if fn == nil || len(fn.Blocks) == 0 {
		return false
	}
	m.memo[fn] = 1
	res := false
	for _, c := range calls(fn) {
		if m.Call(c) {
			res = true
			m.sites[fn] = append(m.sites[fn], c)
		}
	}
	// closures defined in fn and passed elsewhere are covered through Callees of the
	// receiving call (paramFuncs); anonymous functions invoked via unknown paths are not.
	if res {
		m.memo[fn] = 2
	} else {
		m.memo[fn] = 3
	}
	return res
}

// Call reports whether this call site may perform the effect.
func (m *MaySummary) Call(c ssa.CallInstruction) bool {
	cs := m.p.Callees(c)
	if len(cs) == 0 {
		return m.pred(c, nil)
	}
	for _, t := range cs {
		if m.pred(c, t) {
			return true
		}
		if isComdexFn(t) && m.Fn(t) {
			return true
		}
	}
	// closures passed as arguments are assumed to be invoked by the callee
	for _, a := range c.Common().Args {
		if fv := funcValue(a); fv != nil && isComdexFn(fv) && m.Fn(fv) {
			return true
		}
	}
	return false
}

// Sites returns the call sites of fn that may perform the effect.
func (m *MaySummary) Sites(fn *ssa.Function) []ssa.CallInstruction {
	m.Fn(fn)
	return m.sites[fn]
}

// describeChain gives the first chain of calls from fn to a primitive site, for reports.
func (m *MaySummary) Chain(fn *ssa.Function) []string {
	var out []string
	seen := map[*ssa.Function]bool{}
	for fn != nil && !seen[fn] && len(out) < 8 {
		seen[fn] = true
		ss := m.Sites(fn)
		if len(ss) == 0 {
			break
		}
		c := ss[0]
		out = append(out, m.p.instrPos(c)+" "+callName(c))
		var next *ssa.Function
		for _, t := range m.p.Callees(c) {
			if m.pred(c, t) {
				return out
			}
			if isComdexFn(t) && m.Fn(t) {
				next = t
				break
			}
		}
		if next == nil {
			for _, a := range c.Common().Args {
				if fv := funcValue(a); fv != nil && isComdexFn(fv) && m.Fn(fv) {
					next = fv
					break
				}
			}
		}
		fn = next
	}
	return out
}

func callName(c ssa.CallInstruction) string {
	cc := c.Common()
	if sc := cc.StaticCallee(); sc != nil {
		return short(fullName(sc))
	}
	if cc.IsInvoke() {
		return short(strings.TrimPrefix(cc.Value.Type().String(), "*")) + "." + cc.Method.Name()
	}
	return "dynamic call"
}

// isGeneratedOrAux: functions in generated files, CLI, simulation and test helpers are
// not considered callers when walking up from a site.
func (p *Prog) isAuxFn(f *ssa.Function) bool {
	for f.Parent() != nil {
		f = f.Parent()
	}
	if !f.Pos().IsValid() {
		return f.Synthetic != ""
	}
	file := p.Fset.Position(f.Pos()).Filename
	if strings.HasSuffix(file, ".pb.go") || strings.HasSuffix(file, ".pb.gw.go") {
		return true
	}
	for _, d := range []string{"/client/", "/simulation/", "/testutil/", "/app/upgrades/", "/migrations/"} {
		if strings.Contains(file, d) {
			return true
		}
	}
	return false
}

// CallSitesOf returns the non-auxiliary call sites that may invoke fn, including calls that
// receive fn as a function-valued argument (ApplyFuncIfNoError, Iterate* callbacks).
func (p *Prog) CallSitesOf(fn *ssa.Function) []ssa.CallInstruction {
	var out []ssa.CallInstruction
	seen := map[ssa.CallInstruction]bool{}
	add := func(cs []ssa.CallInstruction) {
		for _, c := range cs {
			if seen[c] || p.isAuxFn(c.Parent()) {
				continue
			}
			if pos := c.Parent().Pos(); pos.IsValid() && isTestFile(p.Fset.Position(pos).Filename) {
				continue
			}
			seen[c] = true
			out = append(out, c)
		}
	}
	add(p.callers[fn])
	add(p.funcArgSite[fn])
	return out
}

// GuardedUp: the site is reachable only through a pass edge of g, either inside its own
// function or, failing that, at every call site of its function, transitively up to the
// roots. Returns the chain of an unguarded way in when it fails.
func (p *Prog) GuardedUp(g *GuardSpec, site ssa.Instruction) (bool, []string) {
	return p.guardedUp(g, site, 0, map[*ssa.Function]bool{})
}

func (p *Prog) guardedUp(g *GuardSpec, site ssa.Instruction, depth int, visiting map[*ssa.Function]bool) (bool, []string) {
	fn := site.Parent()
	ok, _, w := p.guardedTargets(g, fn, []*ssa.BasicBlock{site.Block()}, 0)
	if ok {
		return true, nil
	}
	head := fmt.Sprintf("%s in %s: reachable without %s", p.instrPos(site), fname(fn), g.Name)
	if depth > 8 {
		return false, append([]string{head + " (depth limit)"}, w...)
	}
	if visiting[fn] {
		return true, nil
	}
	visiting[fn] = true
	defer delete(visiting, fn)
	sites := p.CallSitesOf(fn)
	if len(sites) == 0 {
		return false, append([]string{head + " (root: no callers)"}, w...)
	}
	for _, cs := range sites {
		if ok, chain := p.guardedUp(g, cs, depth+1, visiting); !ok {
			return false, append([]string{head}, chain...)
		}
	}
	return true, nil
}

// UnguardedQuery decides, interprocedurally: is there a path from the entry of a root
// through an effect site to a success exit on which no pass edge of the guard is taken?
type UnguardedQuery struct {
	p    *Prog
	g    *GuardSpec
	may  *MaySummary
	memo map[*ssa.Function]*ugResult
}

type ugResult struct {
	state int // 1 in progress, 2 done
	bad   bool
	chain []string
}

func (p *Prog) NewUnguarded(g *GuardSpec, may *MaySummary) *UnguardedQuery {
	return &UnguardedQuery{p: p, g: g, may: may, memo: map[*ssa.Function]*ugResult{}}
}

// Fn reports whether fn can perform the effect and return successfully without the guard.
func (q *UnguardedQuery) Fn(fn *ssa.Function) (bool, []string) {
	if r, ok := q.memo[fn]; ok {
		if r.state == 1 {
			return false, nil
		}
		return r.bad, r.chain
	}
	res := &ugResult{state: 1}
	q.memo[fn] = res
	defer func() { res.state = 2 }()
	if len(fn.Blocks) == 0 || !q.may.Fn(fn) {
		return false, nil
	}
	p := q.p
	pass, assumed := p.PassEdges(q.g, fn, 0)
	cut := map[Edge]bool{}
	for e := range pass {
		cut[e] = true
	}
	for e := range assumed {
		cut[e] = true
	}
	r1, _ := reach(fn, nil, cut, nil)
	targets := p.successTargets(q.g, fn, 0)
	for _, c := range q.may.Sites(fn) {
		b := c.Block()
		if !r1[b] {
			continue
		}
		var sub []string
		badSite := false
		cs := p.Callees(c)
		if len(cs) == 0 && q.may.pred(c, nil) {
			badSite = true
		}
		for _, t := range cs {
			if q.may.pred(c, t) {
				badSite = true
				break
			}
			if isComdexFn(t) {
				if bad, ch := q.Fn(t); bad {
					badSite, sub = true, ch
					break
				}
			}
		}
		if !badSite {
			for _, a := range c.Common().Args {
				if fv := funcValue(a); fv != nil && isComdexFn(fv) {
					if bad, ch := q.Fn(fv); bad {
						badSite, sub = true, ch
						break
					}
				}
			}
		}
		if !badSite {
			continue
		}
		r2, _ := reach(fn, b, cut, nil)
		for _, t := range targets {
			if r2[t] {
				res.bad = true
				res.chain = append([]string{fmt.Sprintf("%s %s in %s", p.instrPos(c), callName(c), fname(fn))}, sub...)
				return true, res.chain
			}
		}
	}
	return false, nil
}
