package main

import (
	"fmt"
	"go/types"
	"sort"
	"strings"

	"golang.org/x/tools/go/ssa"
)

// ---- shared guard atoms -------------------------------------------------------------

// breakerGuard: pass edge = the edge on which KillSwitchParams.BreakerEnable is false.
func breakerGuard(p *Prog) *GuardSpec {
	return &GuardSpec{
		Name: "circuit-breaker test (!KillSwitchParams.BreakerEnable)",
		Local: func(fn *ssa.Function, cond ssa.Value) (bool, bool) {
			a := p.Atom(cond)
			if a.IsCmp {
				return false, false
			}
			if boolIsField(a.Val, "KillSwitchParams", "BreakerEnable", false) {
				// cond == BreakerEnable (Neg=false): pass = false edge; negated: true edge
				if a.Neg {
					return true, false
				}
				return false, true
			}
			return false, false
		},
	}
}

// esmGuard: pass edge = the edge on which ESMStatus.Status is false.
func esmGuard(p *Prog) *GuardSpec {
	return &GuardSpec{
		Name: "emergency-shutdown test (!ESMStatus.Status)",
		Local: func(fn *ssa.Function, cond ssa.Value) (bool, bool) {
			a := p.Atom(cond)
			if a.IsCmp {
				return false, false
			}
			if boolIsField(a.Val, "ESMStatus", "Status", false) {
				if a.Neg {
					return true, false
				}
				return false, true
			}
			return false, false
		},
	}
}

// anyBank: may-summary "performs any bank effect".
func anyBank(p *Prog) *MaySummary {
	return p.bankMay(func(e *BankEffect) bool { return true })
}

func modConst(p *Prog, pkg string) string {
	pk := p.ByPath[modPath+"/"+pkg]
	if pk == nil {
		analysisError("anchor unresolved: package %s", pkg)
	}
	c, ok := pk.Types.Scope().Lookup("ModuleName").(*types.Const)
	if !ok {
		analysisError("anchor unresolved: %s.ModuleName", pkg)
	}
	return strings.Trim(c.Val().ExactString(), "\"")
}

// scopeFns returns the non-auxiliary comdex functions reachable from message handlers,
// block hooks (wired or not) and wasm handlers.
func (p *Prog) operationalFns() map[*ssa.Function]bool {
	var roots []*ssa.Function
	for _, e := range p.MsgHandlers() {
		roots = append(roots, e.Fn)
	}
	for _, e := range p.Hooks() {
		roots = append(roots, e.Fn)
	}
	for _, e := range p.WasmHandlers() {
		roots = append(roots, e.Fn)
	}
	return p.Reachable(roots, func(f *ssa.Function) bool { return p.isAuxFn(f) })
}

func init() { register("C14", rulesC14) }

func rulesC14(p *Prog, r *Report) {
	r.Explanation = "Decides the structural necessary conditions of 'emergency controls fail closed': (R14.1) every vault/locker/lend message handler that moves coins passes the circuit-breaker test on every success path; (R14.2) every seizure / auction-start site in the sweeps and liquidate messages is reachable only through the breaker test; (R14.3) every CDP debt mint is reachable only through the emergency-shutdown test and MsgWithdraw passes the cool-off test; (R14.4) oracle price reads happen only under found && IsPriceActive and price/ratio errors are not discarded. It does not decide 'changes nothing on failure' (SDK transaction atomicity is trusted) nor any numeric behaviour."
	r.Assumptions = []string{"Go type checker and go/ssa are correct", "SDK runTx reverts a failed message (trusted)", "interface calls resolve to comdex implementations only (CHA restricted to the repository)"}

	bg := breakerGuard(p)
	bank := anyBank(p)

	// R14.1 ------------------------------------------------------------------------
	r.Rule("R14.1", "vault/locker/lend handlers that move coins pass the breaker test on every success path", 20)
	takeIn := p.bankMay(func(e *BankEffect) bool { return e.Op == "AccToMod" || e.Op == "Mint" })
	ug := p.NewUnguarded(bg, bank)
	exceptions := map[string]string{
		"x/lend/keeper.msgServer.FundModuleAccounts":  "funds the pool module account, not a position (DESIGN R14.1)",
		"x/lend/keeper.msgServer.FundReserveAccounts": "funds the reserve, not a position (DESIGN R14.1)",
	}
	for _, e := range p.MsgHandlers() {
		var obligated bool
		switch e.Module {
		case "vault":
			obligated = bank.Fn(e.Fn)
		case "locker":
			obligated = takeIn.Fn(e.Fn)
		case "lend":
			obligated = bank.Fn(e.Fn)
		}
		if !obligated {
			continue
		}
		r.FuncsSeen[e.Name] = true
		if why, ok := exceptions[e.Name]; ok {
			r.Note("R14.1 exception %s: %s", e.Name, why)
			continue
		}
		r.Instance("R14.1")
		bad, chain := ug.Fn(e.Fn)
		if !bad {
			r.OK("R14.1", e.Name, "no path entry -> coin movement -> success exit avoids !BreakerEnable", p.pos(e.Fn.Pos()))
		} else {
			r.Fail("R14.1", e.Name, "coins can move and the handler succeed while the circuit breaker is enabled: a path from entry through a bank effect to a success exit passes no breaker test", p.pos(e.Fn.Pos()), chain)
		}
	}

	// R14.2 ------------------------------------------------------------------------
	r.Rule("R14.2", "seizure and auction-start sites are reachable only through the breaker test", 8)
	seize := []*ssa.Function{
		p.MustFunc("x/liquidation/keeper.Keeper.CreateLockedVault"),
		p.MustFunc("x/liquidation/keeper.Keeper.CreateLockedBorrow"),
		p.MustFunc("x/liquidationsV2/keeper.Keeper.CreateLockedVault"),
		p.MustFunc("x/auction/keeper.Keeper.StartSurplusAuction"),
		p.MustFunc("x/auction/keeper.Keeper.StartDebtAuction"),
	}
	exemptCallers := map[string]string{
		"x/liquidationsV2/keeper.Keeper.MsgLiquidateExternal": "external keepers liquidate their own positions, not an app's vaults (no app breaker applies)",
	}
	for _, sf := range seize {
		for _, cs := range p.CallSitesOf(sf) {
			caller := fname(cs.Parent())
			r.FuncsSeen[caller] = true
			construct := caller + " -> " + sf.Name()
			if why, ok := exemptCallers[caller]; ok {
				r.Note("R14.2 exception %s: %s", construct, why)
				continue
			}
			r.Instance("R14.2")
			ok, chain := p.GuardedUp(bg, cs)
			if ok {
				r.OK("R14.2", construct, "site reachable only through !BreakerEnable", p.instrPos(cs))
			} else {
				r.Fail("R14.2", construct, "seizure/auction start reachable while the circuit breaker may be enabled", p.instrPos(cs), chain)
			}
		}
	}

	// R14.9 sweep breaker identity ------------------------------------------------------
	// A sweep consults the breaker for the app it is sweeping and then walks positions: the vault
	// it seizes must be tied to that app (the breaker's id comes from the vault record, or the
	// seizure is reachable only through vault.AppId == the id the breaker was consulted for).
	r.Rule("R14.9", "vault seizure in a sweep: the seized vault belongs to the app whose breaker was consulted", 2)
	{
		normV := func(v ssa.Value) string {
			var parts []string
			for _, o := range p.UpOrigins(p.Origins(v), 0) {
				parts = append(parts, o.String())
			}
			parts = uniq(parts)
			return strings.Join(parts, "|")
		}
		for _, sf := range []*ssa.Function{seize[0], seize[2]} {
			for _, cs := range p.CallSitesOf(sf) {
				host := cs.Parent()
				caller := fname(host)
				if _, ok := exemptCallers[caller]; ok {
					continue
				}
				if sf == seize[2] && !strings.HasSuffix(caller, ".LiquidateIndividualVault") {
					continue // V2 CreateLockedVault also starts borrow / surplus / debt auctions: only the vault seizure has a vault record
				}
				// breaker lookups on the way: in the host, its lexical parents and its direct callers
				var lookups []ssa.CallInstruction
				var scope []*ssa.Function
				for f := host; f != nil; f = f.Parent() {
					scope = append(scope, f)
				}
				for _, f := range append([]*ssa.Function{}, scope...) {
					for _, up := range p.CallSitesOf(f) {
						if up.Parent() != nil {
							scope = append(scope, up.Parent())
						}
					}
				}
				for _, f := range scope {
					for _, c := range calls(f) {
						if p.callIs(c, "GetKillSwitchData") {
							lookups = append(lookups, c)
						}
					}
				}
				if len(lookups) == 0 {
					continue // R14.2 reports a site without any breaker test
				}
				r.Instance("R14.9")
				construct := caller + " -> " + sf.Name() + " breaker app"
				fromRecord := false
				want := map[string]bool{}
				for _, lc := range lookups {
					args := callArgs(lc)
					if len(args) < 2 {
						continue
					}
					if p.fromRecordFieldsLoose(args[1], map[string]bool{"Vault": true}, map[string]bool{"AppId": true}) {
						fromRecord = true
					}
					want[normV(args[1])] = true
				}
				if fromRecord {
					r.OK("R14.9", construct, "the breaker is consulted under the vault's own stored app id", p.instrPos(cs))
					continue
				}
				g := &GuardSpec{Name: "vault.AppId == swept app", Local: func(f *ssa.Function, cond ssa.Value) (bool, bool) {
					a := p.Atom(cond)
					if !a.IsCmp || (a.Op != "==" && a.Op != "!=") || a.X == nil || a.Y == nil {
						return false, false
					}
					isRec := func(v ssa.Value) bool {
						t, fld, _, ok := fieldRead(v)
						return ok && t == "Vault" && fld == "AppId"
					}
					var other ssa.Value
					switch {
					case isRec(a.X):
						other = a.Y
					case isRec(a.Y):
						other = a.X
					default:
						return false, false
					}
					if !want[normV(other)] {
						return false, false
					}
					eq := a.Op == "=="
					if a.Neg {
						eq = !eq
					}
					if eq {
						return true, false
					}
					return false, true
				}}
				if ok, chain := p.GuardedUp(g, cs); ok {
					r.OK("R14.9", construct, "seizure only behind vault.AppId == the app whose breaker was consulted", p.instrPos(cs))
				} else {
					r.Fail("R14.9", construct, "the sweep consults the breaker of the app it is sweeping, but the vault it seizes is not tied to that app: another app's sweep liquidates vaults of an app whose breaker is enabled", p.instrPos(cs), chain)
				}
			}
		}
	}

	// R14.3 ------------------------------------------------------------------------
	r.Rule("R14.3", "every CDP debt mint is reachable only through the shutdown test; MsgWithdraw passes the cool-off test", 5)
	eg := esmGuard(p)
	vaultMod := modConst(p, "x/vault/types")
	for _, fn := range p.Funcs {
		if p.isAuxFn(fn) {
			continue
		}
		for _, c := range calls(fn) {
			be := bankEffect(c)
			if be == nil || be.Op != "Mint" || moduleName(be.From) != vaultMod {
				continue
			}
			r.Instance("R14.3")
			r.FuncsSeen[fname(fn)] = true
			construct := fname(fn) + " MintCoins(" + vaultMod + ")"
			ok, chain := p.GuardedUp(eg, c)
			if ok {
				r.OK("R14.3", construct, "mint reachable only through !ESMStatus.Status", p.instrPos(c))
			} else {
				r.Fail("R14.3", construct, "debt can be minted after emergency shutdown: mint site reachable without the ESM status test", p.instrPos(c), chain)
			}
		}
	}
	// MsgWithdraw: success exits unreachable once the edges (status false) and (not after EndTime) are deleted
	{
		w := p.MustFunc("x/vault/keeper.msgServer.MsgWithdraw")
		cool := &GuardSpec{
			Name: "cool-off test !(BlockTime.After(ESMStatus.EndTime) && status)",
			Local: func(fn *ssa.Function, cond ssa.Value) (bool, bool) {
				a := p.Atom(cond)
				if !a.IsCmp && boolIsField(a.Val, "ESMStatus", "Status", false) {
					if a.Neg {
						return true, false
					}
					return false, true
				}
				if a.IsCmp && a.Op == "After" && a.Call != nil {
					// BlockTime.After(esmStatus.EndTime): pass edge = not after
					args := a.Call.Call.Args
					if len(args) == 2 {
						if t, f, _, ok := fieldRead(args[1]); ok && t == "ESMStatus" && f == "EndTime" {
							if a.Neg {
								return true, false
							}
							return false, true
						}
					}
				}
				return false, false
			},
		}
		r.Instance("R14.3")
		ok, blk, wit := p.Guarded(cool, w, nil)
		if ok {
			r.OK("R14.3", fname(w)+" cool-off", "every success exit passes the cool-off test", p.pos(w.Pos()))
		} else {
			pos := p.pos(w.Pos())
			if blk != nil {
				pos = p.instrPos(blk.Instrs[len(blk.Instrs)-1])
			}
			r.Fail("R14.3", fname(w)+" cool-off", "collateral can be withdrawn after the cool-off period ended: success exit reachable without the test", pos, wit)
		}
	}

	// R14.5 price-failure propagation ----------------------------------------------
	// A function that (transitively) consults the oracle and reports an error must not
	// have that error swallowed by a caller in message-handling code: the operation would
	// go on although the price it needs is missing.
	r.Rule("R14.5", "errors of oracle-dependent steps are not swallowed in message-handling code", 40)
	{
		priceMay := p.NewMay(func(c ssa.CallInstruction, callee *ssa.Function) bool {
			return p.callIs(c, "GetTwa", "CalcAssetPrice", "GetLatestPrice") && (c.Common().IsInvoke() || (callee != nil && moduleOf(callee) == "market"))
		})
		var roots []*ssa.Function
		for _, e := range p.MsgHandlers() {
			roots = append(roots, e.Fn)
		}
		af := p.ApplyFunc()
		unitClosure := map[*ssa.Function]bool{}
		for _, u := range p.WorkUnits() {
			if u.Closure != nil {
				unitClosure[u.Closure] = true
			}
		}
		msgReach := p.Reachable(roots, func(f *ssa.Function) bool { return p.isAuxFn(f) || unitClosure[f] })
		inScope := map[string]bool{"vault": true, "locker": true, "lend": true, "liquidation": true, "liquidationsV2": true, "auction": true, "auctionsV2": true, "esm": true}
		var fs []*ssa.Function
		for f := range msgReach {
			if inScope[moduleOf(f)] {
				fs = append(fs, f)
			}
		}
		sort.Slice(fs, func(i, j int) bool { return fname(fs[i]) < fname(fs[j]) })
		for _, f := range fs {
			n := map[string]int{}
			for _, c := range calls(f) {
				call, ok := c.(*ssa.Call)
				if !ok || p.callIsFn(c, af) {
					continue
				}
				// callee must be a comdex function with an error result that may consult the oracle
				dep := false
				for _, t := range p.Callees(c) {
					if isComdexFn(t) && errResultIndex(t) >= 0 && priceMay.Fn(t) && !neverFails(t) {
						dep = true
					}
				}
				if !dep || p.callIs(c, "CalcAssetPrice", "GetLatestPrice", "CalculateCollateralizationRatio", "GetAmountOfOtherToken", "GetPriceForAsset", "VerifyCollaterlizationRatio", "VerifyCollateralizationRatio") {
					continue // direct price helpers are R14.4's instances
				}
				r.Instance("R14.5")
				r.FuncsSeen[fname(f)] = true
				base := fmt.Sprintf("%s swallows error of %s", fname(f), callName(c))
				n[base]++
				construct := base
				if n[base] > 1 {
					construct = fmt.Sprintf("%s #%d", base, n[base])
				}
				if sw, pos := errorSwallowed(p, f, call); sw {
					r.Fail("R14.5", construct, "the step consults the oracle price and can fail, but its failure is ignored or only logged here: with a missing or inactive price the operation continues instead of failing", pos, priceMay.Chain(f))
				} else {
					r.OK("R14.5", construct, "failure of an oracle-dependent step propagates", p.instrPos(c))
				}
			}
		}
	}

	// R14.6 breaker identity ---------------------------------------------------------
	// The app whose breaker/shutdown state is consulted must be the app of the position
	// that is operated on: either the id comes from the stored record, or the function
	// cannot succeed without an equality test between the record's app field and that id.
	r.Rule("R14.6", "the app id used for the breaker lookup is tied to the operated position's stored app id", 10)
	{
		appField := map[string]string{"Vault": "AppId", "StableMintVault": "AppId", "LendAsset": "AppID", "Locker": "AppId"}
		ops := p.operationalFns()
		var fs []*ssa.Function
		for f := range ops {
			fs = append(fs, f)
		}
		sort.Slice(fs, func(i, j int) bool { return fname(fs[i]) < fname(fs[j]) })
		norm := func(v ssa.Value) string {
			var parts []string
			var add func(os []Origin, d int)
			add = func(os []Origin, d int) {
				for _, o := range p.UpOrigins(os, 0) {
					// GetApp(id).Id is id
					if d < 3 && o.Kind == "call" && p.callIs(o.Call, "GetApp") && len(o.Path) == 1 && o.Path[0] == "Id" {
						if args := callArgs(o.Call); len(args) >= 2 {
							add(p.Origins(args[1]), d+1)
							continue
						}
					}
					parts = append(parts, o.String())
				}
			}
			add(p.Origins(v), 0)
			parts = uniq(parts)
			return strings.Join(parts, "|")
		}
		r146mods := map[string]bool{"vault": true, "locker": true, "lend": true, "liquidation": true, "liquidationsV2": true}
		for _, f := range fs {
			if !r146mods[moduleOf(f)] {
				continue
			}
			// position records loaded in f
			loaded := map[string]bool{}
			for _, c := range calls(f) {
				call, ok := c.(*ssa.Call)
				if !ok {
					continue
				}
				t := call.Type()
				if tup, ok := t.(*types.Tuple); ok && tup.Len() > 0 {
					t = tup.At(0).Type()
				}
				if n := namedTypeName(t); appField[n] != "" && strings.HasPrefix(callName(c), "x/") || appField[namedTypeName(t)] != "" && c.Common().IsInvoke() {
					loaded[namedTypeName(t)] = true
				}
			}
			if len(loaded) == 0 {
				continue
			}
			for _, c := range calls(f) {
				if !p.callIs(c, "GetKillSwitchData") {
					continue
				}
				args := callArgs(c)
				if len(args) < 2 {
					continue
				}
				x := args[1]
				r.Instance("R14.6")
				r.FuncsSeen[fname(f)] = true
				construct := fname(f) + " breaker app id"
				// (a) from the record itself
				fromRecord := true
				os := p.Origins(x)
				for _, o := range os {
					if len(o.Path) == 0 {
						fromRecord = false
						break
					}
					last := o.Path[len(o.Path)-1]
					if last != "AppId" && last != "AppID" {
						fromRecord = false
						break
					}
					if o.Kind == "param" {
						if pr, ok := o.Val.(*ssa.Parameter); ok && msgParam(f) == pr {
							fromRecord = false
							break
						}
					}
				}
				if fromRecord && len(os) > 0 {
					r.OK("R14.6", construct, "breaker looked up under the stored app id of the record", p.instrPos(c))
					continue
				}
				xs := norm(x)
				g := &GuardSpec{
					Name: "record app id == breaker app id",
					Local: func(fn *ssa.Function, cond ssa.Value) (bool, bool) {
						a := p.Atom(cond)
						if !a.IsCmp || (a.Op != "==" && a.Op != "!=") || a.X == nil || a.Y == nil {
							return false, false
						}
						isRec := func(v ssa.Value) bool {
							t, fld, _, ok := fieldRead(v)
							return ok && appField[t] == fld && (loaded[t] || fn != f)
						}
						var other ssa.Value
						switch {
						case isRec(a.X):
							other = a.Y
						case isRec(a.Y):
							other = a.X
						default:
							return false, false
						}
						if !(sameValue(other, x) || norm(other) == xs) {
							return false, false
						}
						eq := a.Op == "=="
						if a.Neg {
							eq = !eq
						}
						if eq {
							return true, false
						}
						return false, true
					},
				}
				ok, blk, w := p.guardedTargets(g, f, nil, 0)
				if ok {
					r.OK("R14.6", construct, "function cannot succeed without record app id == breaker app id", p.instrPos(c))
				} else {
					pos := p.instrPos(c)
					_ = blk
					r.Fail("R14.6", construct, "the circuit breaker is consulted for an app id taken from the message, and the function can succeed without that id having been compared with the stored app id of the position it operates on: naming another app bypasses the breaker", pos, w)
				}
			}
		}
	}

	// R14.4 price discipline ---------------------------------------------------------
	priceDiscipline(p, r, "R14.4", map[string]bool{"vault": true, "locker": true, "lend": true, "liquidation": true, "liquidationsV2": true, "auction": true, "auctionsV2": true, "esm": true, "market": true}, 40)
}

// priceDiscipline implements the shared rule P: (a) reads of Twa/PriceValue of a GetTwa
// result only under found && IsPriceActive; (b) the error of a price/ratio helper is not
// discarded.
func priceDiscipline(p *Prog, r *Report, rule string, modules map[string]bool, floor int) {
	priceDisciplineX(p, r, rule, modules, floor, false)
}

// priceDisciplineX with readsOnly: part (a) alone (C17: every consumer of the stored price).
func priceDisciplineX(p *Prog, r *Report, rule string, modules map[string]bool, floor int, readsOnly bool) {
	if readsOnly {
		r.Rule(rule, "consumers: Twa / PriceValue of a GetTwa result are read only under found && IsPriceActive of that very record", floor)
	} else {
		r.Rule(rule, "price discipline: Twa read only under found && IsPriceActive; price/ratio errors not discarded", floor)
	}
	ops := p.operationalFns()
	priceFns := map[string]bool{"CalcAssetPrice": true, "GetLatestPrice": true, "CalculateCollateralizationRatio": true, "GetAmountOfOtherToken": true, "GetPriceForAsset": true, "VerifyCollaterlizationRatio": true, "VerifyCollateralizationRatio": true}
	var fns []*ssa.Function
	for _, fn := range p.Funcs {
		if ops[fn] && modules[moduleOf(fn)] && !p.isAuxFn(fn) {
			fns = append(fns, fn)
		}
	}
	for _, fn := range fns {
		producer := false
		for _, c := range calls(fn) {
			if p.callIs(c, "SetTwa") {
				producer = true // the price pipeline itself maintains the window it reads (C17's rules)
			}
		}
		for _, b := range fn.Blocks {
			for _, in := range b.Instrs {
				if producer {
					if _, isCall := in.(*ssa.Call); !isCall {
						continue
					}
				}
				// (a) Twa reads
				if v, ok := in.(ssa.Value); ok {
					if t, f, base, isRead := fieldRead(v); isRead && t == "TimeWeightedAverage" && (f == "Twa" || f == "PriceValue") {
						// find the GetTwa call(s) the struct comes from
						var calls_ []*ssa.Call
						for _, o := range p.Origins(base) {
							if o.Kind == "call" && len(o.Path) == 0 && (p.callIs(o.Call, "GetTwa") || (o.Index == 0 && p.isGuardedTwaGetterCall(o.Call))) {
								calls_ = append(calls_, o.Call)
							}
						}
						if len(calls_) == 0 {
							continue
						}
						r.Instance(rule)
						r.FuncsSeen[fname(fn)] = true
						construct := fname(fn) + " read " + f + " of GetTwa result"
						g := twaGuards(p, calls_)
						bad := ""
						var wit []string
						for _, gs := range g {
							ok, _, w := p.guardedTargets(gs, fn, []*ssa.BasicBlock{b}, 0)
							if !ok {
								bad = gs.Name
								wit = w
								break
							}
						}
						if bad == "" {
							r.OK(rule, construct, "read only under found && IsPriceActive", p.instrPos(in))
						} else {
							r.Fail(rule, construct, "oracle price is used without "+bad, p.instrPos(in), wit)
						}
					}
				}
				// (b) discarded errors
				c, ok := in.(*ssa.Call)
				if !ok || readsOnly {
					continue
				}
				name := ""
				if c.Call.IsInvoke() {
					name = c.Call.Method.Name()
				} else if sc := c.Call.StaticCallee(); sc != nil && isComdexFn(sc) {
					name = sc.Name()
				}
				if !priceFns[name] {
					continue
				}
				sig := c.Call.Signature()
				ei := -1
				if n := sig.Results().Len(); n > 0 && isErrorType(sig.Results().At(n-1).Type()) {
					ei = n - 1
				}
				if ei < 0 {
					continue
				}
				r.Instance(rule)
				r.FuncsSeen[fname(fn)] = true
				construct := fmt.Sprintf("%s error of %s", fname(fn), name)
				used := false
				if sig.Results().Len() == 1 {
					used = len(*c.Referrers()) > 0
				} else {
					for _, ref := range *c.Referrers() {
						if ex, ok := ref.(*ssa.Extract); ok && ex.Index == ei && len(*ex.Referrers()) > 0 {
							used = true
						}
					}
				}
				swallowedPos := ""
				if used && errResultIndex(fn) >= 0 {
					if sw, pos := errorSwallowed(p, fn, c); sw {
						swallowedPos = pos
					}
				}
				if used && swallowedPos != "" {
					r.Fail(rule, construct+" (failure branch succeeds)", "the failure branch of a price/ratio helper reaches a success exit: an inactive or missing price does not make the operation fail", swallowedPos, nil)
				} else if used {
					r.OK(rule, construct, "error result is consumed and its failure branch cannot succeed", p.instrPos(c))
				} else {
					// several discards in one function are one construct each by ordinal
					n := 1
					for {
						k := construct
						if n > 1 {
							k = fmt.Sprintf("%s #%d", construct, n)
						}
						dup := false
						for _, f := range r.Findings {
							if f.Rule == rule && f.Construct == k {
								dup = true
							}
						}
						if !dup {
							construct = k
							break
						}
						n++
					}
					r.Fail(rule, construct, "the error of a price/ratio helper is discarded: an inactive price does not make the operation fail", p.instrPos(c), nil)
				}
			}
		}
	}
}

// twaGuards builds the two guards for a Twa read: found (result #1 of the same GetTwa
// call) and IsPriceActive.
func twaGuards(p *Prog, calls_ []*ssa.Call) []*GuardSpec {
	isCall := func(c *ssa.Call) bool {
		for _, x := range calls_ {
			if x == c {
				return true
			}
		}
		return false
	}
	found := &GuardSpec{
		Name: "the found result of GetTwa being tested",
		Local: func(fn *ssa.Function, cond ssa.Value) (bool, bool) {
			a := p.Atom(cond)
			if a.IsCmp {
				return false, false
			}
			for _, o := range a.Origins {
				if !(o.Kind == "call" && o.Index == 1 && len(o.Path) == 0 && isCall(o.Call)) {
					return false, false
				}
			}
			if len(a.Origins) == 0 {
				return false, false
			}
			if a.Neg {
				return false, true
			}
			return true, false
		},
	}
	active := &GuardSpec{
		Name: "IsPriceActive being tested",
		Local: func(fn *ssa.Function, cond ssa.Value) (bool, bool) {
			a := p.Atom(cond)
			if a.IsCmp {
				return false, false
			}
			// of the very record whose price is read (not of another asset's record)
			sameRecord := func(base ssa.Value) bool {
				os := p.Origins(base)
				for _, o := range os {
					if !(o.Kind == "call" && isCall(o.Call)) {
						return false
					}
				}
				return len(os) > 0
			}
			if boolIsFieldOf(a.Val, "TimeWeightedAverage", "IsPriceActive", true, sameRecord) {
				if a.Neg {
					return false, true
				}
				return true, false
			}
			return false, false
		},
	}
	allGuardedGetters := len(calls_) > 0
	for _, c := range calls_ {
		if !p.isGuardedTwaGetterCall(c) {
			allGuardedGetters = false
		}
	}
	if allGuardedGetters {
		// the helper hands the record out only when found && IsPriceActive: testing its ok result is both
		return []*GuardSpec{found}
	}
	return []*GuardSpec{found, active}
}

// isGuardedTwaGetterCall: a call of a comdex helper `(TimeWeightedAverage, bool)` whose every
// `true` return is reachable only behind found && IsPriceActive of the GetTwa call inside it.
func (p *Prog) isGuardedTwaGetterCall(c ssa.CallInstruction) bool {
	h := c.Common().StaticCallee()
	if h == nil || !isComdexFn(h) || len(h.Blocks) == 0 || h.Name() == "GetTwa" {
		return false
	}
	res := h.Signature.Results()
	if res.Len() != 2 || namedTypeName(derefAll(res.At(0).Type())) != "TimeWeightedAverage" || res.At(1).Type().String() != "bool" {
		return false
	}
	var gets []*ssa.Call
	for _, hc := range calls(h) {
		if cc, ok := hc.(*ssa.Call); ok && p.callIs(hc, "GetTwa") {
			gets = append(gets, cc)
		}
	}
	if len(gets) == 0 {
		return false
	}
	var trueRets []*ssa.BasicBlock
	for _, rt := range returns(h) {
		if len(rt.Results) != 2 {
			return false
		}
		if b, isC := constBool(rt.Results[1]); isC && !b {
			continue
		}
		trueRets = append(trueRets, rt.Block())
	}
	if len(trueRets) == 0 {
		return false
	}
	for _, g := range twaGuards(p, gets) {
		if ok, _, _ := p.guardedTargets(g, h, trueRets, 0); !ok {
			return false
		}
	}
	return true
}
