package main

import (
	"encoding/json"
	"fmt"
	"os"
	"os/exec"
	"path/filepath"
	"strings"
)

// Control is a positive (or negative) control: an in-memory mutant of a /repo file,
// supplied to the loader through packages.Config.Overlay. Nothing is written under /repo.
// The mutant is located by a source snippet inside the named file; if the snippet is no
// longer there the control is "not applicable" (never a property failure).
type Control struct {
	Prop     string
	Name     string
	File     string // repo-relative
	Find     string
	Replace  string
	Rule     string // rule expected to fire
	Contains string // substring of the construct expected in the finding
	Negative bool   // the mutant preserves the property: the rule must stay silent
	Nth      int    // replace the Nth occurrence of Find (1-based); 0 = Find must occur exactly once
	Append   string // appended to the file (a helper function the replacement calls)
}

// applyControl returns the mutated file content, or "" when the control does not apply.
func applyControl(c *Control, src string) string {
	n := strings.Count(src, c.Find)
	if c.Nth == 0 {
		if n != 1 {
			return ""
		}
		return strings.Replace(src, c.Find, c.Replace, 1) + c.Append
	}
	if n < c.Nth {
		return ""
	}
	idx := -1
	from := 0
	for i := 0; i < c.Nth; i++ {
		j := strings.Index(src[from:], c.Find)
		if j < 0 {
			return ""
		}
		idx = from + j
		from = idx + len(c.Find)
	}
	return src[:idx] + c.Replace + src[idx+len(c.Find):] + c.Append
}

var controls []Control

func addControl(c Control) { controls = append(controls, c) }

// runControlChild: load with the overlay, evaluate the property's rules, print findings.
func runControlChild(repo, prop, name string) {
	var ctl *Control
	for i := range controls {
		if controls[i].Prop == prop && controls[i].Name == name {
			ctl = &controls[i]
		}
	}
	if ctl == nil {
		fmt.Println(`{"status":"unknown-control"}`)
		return
	}
	path := filepath.Join(repo, ctl.File)
	b, err := os.ReadFile(path)
	mut := ""
	if err == nil {
		mut = applyControl(ctl, string(b))
	}
	if mut == "" {
		fmt.Println(`{"status":"not-applicable"}`)
		return
	}
	p, err := Load(repo, map[string][]byte{path: []byte(mut)})
	if err != nil {
		out, _ := json.Marshal(map[string]interface{}{"status": "load-error", "error": err.Error()})
		fmt.Println(string(out))
		return
	}
	r := NewReport(prop, "thorough", 0)
	func() {
		defer func() {
			if e := recover(); e != nil {
				r.Fail("PANIC", "rule evaluation", fmt.Sprint(e), "", nil)
			}
		}()
		ruleFuncs[prop](p, r)
	}()
	out, _ := json.Marshal(map[string]interface{}{"status": "ok", "findings": r.Findings})
	fmt.Println(string(out))
}

// runControls runs every control of the property in its own subprocess, sequentially.
func runControls(repo, prop string, r *Report) {
	self, err := os.Executable()
	if err != nil {
		r.Note("controls skipped: %v", err)
		return
	}
	base := map[string]bool{}
	for _, f := range r.Findings {
		base[f.Rule+"|"+f.Construct] = true
	}
	for _, c := range controls {
		if c.Prop != prop {
			continue
		}
		cmd := exec.Command(self, "-repo", repo, "-verif", verifDir, "-prop", prop, "-control", c.Name)
		cmd.Env = os.Environ()
		outb, err := cmd.Output()
		res := ControlResult{Name: c.Name, Expected: c.Rule + " ~ " + c.Contains}
		if c.Negative {
			res.Expected = "silent (behaviour-preserving or stricter variant)"
		}
		var doc struct {
			Status   string    `json:"status"`
			Error    string    `json:"error"`
			Findings []Finding `json:"findings"`
		}
		// the child prints exactly one JSON line last
		lines := strings.Split(strings.TrimSpace(string(outb)), "\n")
		if err != nil || len(lines) == 0 || json.Unmarshal([]byte(lines[len(lines)-1]), &doc) != nil {
			res.Status = "MISSED"
			res.Detail = fmt.Sprintf("control process failed: %v", err)
			r.Controls = append(r.Controls, res)
			continue
		}
		switch doc.Status {
		case "not-applicable":
			res.Status = "not-applicable"
			res.Detail = "the anchoring snippet is no longer present in " + c.File
		case "load-error":
			res.Status = "not-applicable"
			res.Detail = "mutant does not type-check: " + doc.Error
		case "ok":
			var fresh []Finding
			for _, f := range doc.Findings {
				if !base[f.Rule+"|"+f.Construct] {
					fresh = append(fresh, f)
				}
			}
			hit := false
			for _, f := range fresh {
				if f.Rule == c.Rule && strings.Contains(f.Construct, c.Contains) {
					hit = true
					res.Detail = f.Pos + ": " + f.Construct
				}
			}
			if c.Negative {
				if len(fresh) == 0 {
					res.Status = "silent-ok"
				} else {
					res.Status = "MISSED"
					res.Detail = "negative control raised: " + fresh[0].Rule + " " + fresh[0].Construct
				}
			} else if hit {
				res.Status = "detected"
			} else {
				res.Status = "MISSED"
				if len(fresh) > 0 {
					res.Detail = "other findings only: " + fresh[0].Rule + " " + fresh[0].Construct
				} else {
					res.Detail = "no new finding"
				}
			}
		default:
			res.Status = "MISSED"
			res.Detail = "unexpected status " + doc.Status
		}
		r.Controls = append(r.Controls, res)
	}
}
