package main

// controls: in-memory overlay mutants of /repo files (positive controls). See controls_impl.go.

func runControls(repo, prop string, r *Report) {}

func runControlChild(repo, prop, name string) {}
