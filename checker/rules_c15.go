package main

import (
	"fmt"
	"go/token"
	"go/types"
	"sort"
	"strings"

	"golang.org/x/tools/go/ssa"
)

func init() { register("C15", rulesC15) }

// Loop is a natural loop of a function's CFG.
type Loop struct {
	Head *ssa.BasicBlock
	Body map[*ssa.BasicBlock]bool // includes Head
}

func loopsOf(fn *ssa.Function) []*Loop {
	byHead := map[*ssa.BasicBlock]*Loop{}
	var order []*ssa.BasicBlock
	for _, b := range fn.Blocks {
		for _, s := range b.Succs {
			if s.Dominates(b) { // back edge b -> s
				l := byHead[s]
				if l == nil {
					l = &Loop{Head: s, Body: map[*ssa.BasicBlock]bool{s: true}}
					byHead[s] = l
					order = append(order, s)
				}
				// nodes reaching b without passing s
				stack := []*ssa.BasicBlock{b}
				for len(stack) > 0 {
					x := stack[len(stack)-1]
					stack = stack[:len(stack)-1]
					if l.Body[x] {
						continue
					}
					l.Body[x] = true
					stack = append(stack, x.Preds...)
				}
			}
		}
	}
	var out []*Loop
	for _, h := range order {
		out = append(out, byHead[h])
	}
	return out
}

func isContextType(t types.Type) bool {
	s := t.String()
	s = strings.TrimPrefix(s, "*")
	return s == "github.com/cosmos/cosmos-sdk/types.Context"
}

// kvWriteMay: may-summary "writes or deletes a KVStore entry or moves coins".
func stateWriteMay(p *Prog) *MaySummary {
	return p.NewMay(func(c ssa.CallInstruction, callee *ssa.Function) bool {
		if bankEffect(c) != nil {
			return true
		}
		if op, _, ok := kvOp(c); ok && (op == "Set" || op == "Delete") {
			return true
		}
		return false
	})
}

func rulesC15(p *Prog, r *Report) {
	r.Explanation = "Decides the wrapper discipline behind 'block hooks never halt and never half-apply': (R15.1) ApplyFuncIfNoError recovers panics into its error result, runs f on the cache context and writes the cache back only when f returned nil; (R15.2) every closure passed to it uses only its own context parameter (a captured outer context would bypass the cache and leak partial writes); (R15.3) in every block hook no coin movement is reachable outside a wrapper closure and no loop over items that writes state outside a wrapper can be left by return/break from its body (one failing item must not stop the others); (R15.4) the per-item sweeps do not slice a list by a bound that is not derived from that list's length, and unwrapped hook code contains no explicit panic or unchecked integer division. R15.4 is an inventory with a stated trusted base, not a proof of panic freedom; panics inside the SDK on reachable states are not covered."
	r.Assumptions = []string{"CacheContext isolates writes until writeCache is called (SDK, trusted)", "panics inside cosmos-sdk / math libraries are outside the inventory", "calls through interfaces resolve to comdex implementations only"}
	af := p.ApplyFunc()

	// R15.1 ------------------------------------------------------------------------
	r.Rule("R15.1", "ApplyFuncIfNoError: recover -> error result; f(cacheCtx); writeCache only when err == nil", 3)
	{
		name := fname(af)
		r.FuncsSeen[name] = true
		// (a) deferred closure with recover that assigns the named result
		r.Instance("R15.1")
		okRecover := false
		for _, c := range calls(af) {
			d, ok := c.(*ssa.Defer)
			if !ok {
				continue
			}
			cl := funcValue(d.Call.Value)
			if cl == nil {
				continue
			}
			hasRecover, assigns := false, false
			for _, b := range cl.Blocks {
				for _, in := range b.Instrs {
					if call, ok := in.(*ssa.Call); ok {
						if bi, ok := call.Call.Value.(*ssa.Builtin); ok && bi.Name() == "recover" {
							hasRecover = true
						}
					}
					if st, ok := in.(*ssa.Store); ok {
						if fv, ok := st.Addr.(*ssa.FreeVar); ok && isErrorType(fv.Type().(*types.Pointer).Elem()) {
							if errValueKind(st.Val, nil, 0) == ExitError {
								assigns = true
							}
						}
					}
				}
			}
			if hasRecover && assigns {
				okRecover = true
			}
		}
		if okRecover {
			r.OK("R15.1", name+" recover", "deferred recover stores a non-nil error into the named result", p.pos(af.Pos()))
		} else {
			r.Fail("R15.1", name+" recover", "no deferred recover() that turns a panic into the error result: a panicking unit would halt the chain", p.pos(af.Pos()), nil)
		}
		// (b) f called with the cache context; (c) writeCache guarded by err == nil of that call
		var fCall *ssa.Call
		var cacheCall *ssa.Call
		for _, c := range calls(af) {
			call, ok := c.(*ssa.Call)
			if !ok {
				continue
			}
			if pr, ok := call.Call.Value.(*ssa.Parameter); ok && pr == af.Params[1] {
				fCall = call
			}
			if sc := call.Call.StaticCallee(); sc != nil && sc.Name() == "CacheContext" {
				cacheCall = call
			}
		}
		r.Instance("R15.1")
		if fCall != nil && cacheCall != nil && len(fCall.Call.Args) == 1 {
			good := false
			for _, o := range p.Origins(fCall.Call.Args[0]) {
				if o.Kind == "call" && o.Call == cacheCall && o.Index == 0 {
					good = true
				} else {
					good = false
					break
				}
			}
			if good {
				r.OK("R15.1", name+" cache", "f is invoked with the cache context", p.instrPos(fCall))
			} else {
				r.Fail("R15.1", name+" cache", "f is not invoked with the cache context returned by CacheContext(): its writes are not isolated", p.instrPos(fCall), nil)
			}
		} else {
			r.Fail("R15.1", name+" cache", "cannot find f(cacheCtx) / CacheContext() in ApplyFuncIfNoError", p.pos(af.Pos()), nil)
		}
		r.Instance("R15.1")
		var writeSites []ssa.Instruction
		for _, c := range calls(af) {
			call, ok := c.(*ssa.Call)
			if !ok || call.Call.StaticCallee() != nil || call.Call.IsInvoke() {
				continue
			}
			for _, o := range p.Origins(call.Call.Value) {
				if o.Kind == "call" && o.Call == cacheCall && o.Index == 1 {
					writeSites = append(writeSites, call)
				}
			}
		}
		errNil := &GuardSpec{
			Name: "err == nil of f(cacheCtx)",
			Local: func(fn *ssa.Function, cond ssa.Value) (bool, bool) {
				e, neq, ok := nilCheck(cond)
				if !ok {
					return false, false
				}
				for _, o := range p.Origins(e) {
					if !(o.Kind == "call" && o.Call == fCall) {
						return false, false
					}
				}
				if neq {
					return false, true
				}
				return true, false
			},
		}
		if len(writeSites) == 0 {
			r.Fail("R15.1", name+" write-back", "writeCache() is never called: no unit's writes would ever be committed", p.pos(af.Pos()), nil)
		}
		for _, ws := range writeSites {
			ok, w := p.GuardedSite(errNil, ws)
			if ok {
				r.OK("R15.1", name+" write-back", "writeCache() reachable only through err == nil", p.instrPos(ws))
			} else {
				r.Fail("R15.1", name+" write-back", "writeCache() is reachable although f returned an error: a failed unit's partial writes are committed", p.instrPos(ws), w)
			}
		}
	}

	// R15.2 ------------------------------------------------------------------------
	r.Rule("R15.2", "every wrapper closure uses only its own sdk.Context parameter", 15)
	units := p.WorkUnits()
	unitClosure := map[*ssa.Function]bool{}
	for _, u := range units {
		construct := fmt.Sprintf("%s unit", fname(u.In))
		if u.Closure != nil {
			construct = fname(u.Closure)
		}
		r.Instance("R15.2")
		if u.Closure == nil {
			r.Fail("R15.2", construct+" @"+p.instrPos(u.Call), "the function passed to ApplyFuncIfNoError is not a resolvable closure/function", p.instrPos(u.Call), nil)
			continue
		}
		unitClosure[u.Closure] = true
		r.FuncsSeen[fname(u.Closure)] = true
		bad := ""
		badPos := ""
		// the closure and every function literal nested in it
		var nested []*ssa.Function
		var collect func(f *ssa.Function)
		collect = func(f *ssa.Function) {
			nested = append(nested, f)
			for _, a := range f.AnonFuncs {
				collect(a)
			}
		}
		collect(u.Closure)
		inUnit := map[*ssa.Function]bool{}
		for _, f := range nested {
			inUnit[f] = true
		}
		for _, f := range nested {
			for _, fv := range f.FreeVars {
				if !isContextType(fv.Type()) {
					if pt, ok := fv.Type().(*types.Pointer); !ok || !isContextType(pt.Elem()) {
						continue
					}
				}
				// resolve binding chain: must end at a value defined inside the unit
				var v ssa.Value = fv
				for i := 0; i < 6; i++ {
					x, ok := v.(*ssa.FreeVar)
					if !ok {
						break
					}
					b := freeVarBinding(x)
					if b == nil {
						break
					}
					v = b
				}
				definedIn := (*ssa.Function)(nil)
				switch x := v.(type) {
				case *ssa.FreeVar:
					definedIn = nil
				case *ssa.Parameter:
					definedIn = x.Parent()
				case ssa.Instruction:
					definedIn = x.Parent()
				}
				if definedIn == nil || !inUnit[definedIn] {
					bad = fv.Name()
					// first use position
					if refs := fv.Referrers(); refs != nil && len(*refs) > 0 {
						badPos = p.instrPos((*refs)[0])
					}
				}
			}
		}
		if bad == "" {
			r.OK("R15.2", construct, "no sdk.Context captured from outside the unit", p.instrPos(u.Call))
		} else {
			if badPos == "" {
				badPos = p.instrPos(u.Call)
			}
			r.Fail("R15.2", construct, "the unit uses the outer sdk.Context '"+bad+"' captured from the enclosing function instead of its own cache-context parameter: writes through it bypass the cache and survive a failure of the unit", badPos, nil)
		}
	}

	// R15.3 ------------------------------------------------------------------------
	r.Rule("R15.3", "hooks: no coin movement outside a wrapper; no item loop with unwrapped writes left by return/break", 10)
	hooks := p.Hooks()
	sw := stateWriteMay(p)
	bank := anyBank(p)
	for _, h := range hooks {
		// functions reachable from the hook without entering a wrapper closure
		unwrapped := map[*ssa.Function]bool{}
		var order []*ssa.Function
		var visit func(f *ssa.Function)
		visit = func(f *ssa.Function) {
			if f == nil || unwrapped[f] || !isComdexFn(f) || len(f.Blocks) == 0 || unitClosure[f] || f == af {
				return
			}
			unwrapped[f] = true
			order = append(order, f)
			for _, c := range calls(f) {
				if p.callIsFn(c, af) {
					continue // the closure argument runs wrapped
				}
				if _, isDefer := c.(*ssa.Defer); isDefer {
					continue
				}
				for _, t := range p.Callees(c) {
					visit(t)
				}
				for _, a := range c.Common().Args {
					if fv := funcValue(a); fv != nil {
						visit(fv)
					}
				}
			}
		}
		visit(h.Fn)
		sort.Slice(order, func(i, j int) bool { return fname(order[i]) < fname(order[j]) })
		for _, f := range order {
			r.FuncsSeen[fname(f)] = true
			// (i) primitive bank effects in unwrapped code
			for _, c := range calls(f) {
				if be := bankEffect(c); be != nil {
					r.Instance("R15.3")
					construct := fmt.Sprintf("%s: %s in %s", h.Name, be.Op, fname(f))
					r.Fail("R15.3", construct, "coins are moved in a block hook outside any ApplyFuncIfNoError unit: a later failure or panic leaves the transfer applied (half-applied step) or halts the chain", p.instrPos(c), nil)
				}
			}
			// (ii) loops with unwrapped state writes
			for _, l := range loopsOf(f) {
				writes := false
				var wpos string
				for b := range l.Body {
					for _, in := range b.Instrs {
						c, ok := in.(ssa.CallInstruction)
						if !ok {
							continue
						}
						if p.callIsFn(c, af) {
							// wrapped unit inside the loop counts as item work
							writes = true
							if wpos == "" {
								wpos = p.instrPos(c)
							}
							continue
						}
						if sw.Call(c) {
							writes = true
							if wpos == "" {
								wpos = p.instrPos(c)
							}
						}
					}
				}
				if !writes {
					continue
				}
				r.Instance("R15.3")
				construct := fmt.Sprintf("%s loop@%s", fname(f), loopOrdinal(f, l))
				var exits []string
				for b := range l.Body {
					if b == l.Head {
						continue
					}
					for _, s := range b.Succs {
						if !l.Body[s] {
							// an exit from the body: return or break
							pos := "?"
							if len(s.Instrs) > 0 {
								pos = p.instrPos(s.Instrs[len(s.Instrs)-1])
							}
							exits = append(exits, pos)
						}
					}
				}
				sort.Strings(exits)
				if len(exits) == 0 {
					r.OK("R15.3", construct, "item loop can only be left through its header (no return/break on an item's failure)", p.pos(l.Head.Instrs[0].Pos()))
				} else {
					r.Fail("R15.3", construct, "a loop over items that writes state ("+wpos+") can be left from its body by return/break ("+strings.Join(exits, ", ")+"): one failing item stops the remaining items of the sweep", exits[0], nil)
				}
			}
		}
		// hook-level statement for the evidence
		if !bank.Fn(h.Fn) {
			r.Note("hook %s moves no coins at all", h.Name)
		}
	}

	// R15.5 ------------------------------------------------------------------------
	// A unit that swallows the failure of a step which can fail after it has written
	// state commits that step's partial writes: inside wrapper closures (and unwrapped
	// hook code) the error of such a step must lead to a non-nil return.
	r.Rule("R15.5", "no swallowed failure of a step that can fail after writing state (inside units and unwrapped hook code)", 10)
	faw := newFailsAfterWrite(p, sw, af)
	{
		scope := map[*ssa.Function]string{}
		for _, u := range units {
			if u.Closure != nil {
				scope[u.Closure] = "unit " + fname(u.Closure)
			}
		}
		for _, h := range hooks {
			scope[h.Fn] = "hook " + h.Name
		}
		var fs []*ssa.Function
		for f := range scope {
			fs = append(fs, f)
		}
		sort.Slice(fs, func(i, j int) bool { return fname(fs[i]) < fname(fs[j]) })
		for _, f := range fs {
			for _, c := range calls(f) {
				call, ok := c.(*ssa.Call)
				if !ok || p.callIsFn(c, af) {
					continue
				}
				bad := false
				var why []string
				for _, t := range p.Callees(c) {
					if isComdexFn(t) {
						if b, ch := faw.Fn(t); b {
							bad, why = true, ch
						}
					}
				}
				if !bad {
					continue
				}
				r.Instance("R15.5")
				construct := fmt.Sprintf("%s: error of %s", fname(f), callName(c))
				if swallowed, pos := errorSwallowed(p, f, call); swallowed {
					r.Fail("R15.5", construct, "the step can fail after it has written state, and its failure does not make the unit fail (error ignored or only logged): the unit then commits the step's partial writes", pos, why)
				} else {
					r.OK("R15.5", construct, "failure of a step that may fail after writing propagates as the unit's failure", p.instrPos(c))
				}
			}
		}
	}

	// R15.6 ------------------------------------------------------------------------
	// Deeper in a unit: a function that has already written state and then swallows the
	// failure of a later step returns success, so the unit commits the writes made so far
	// although the step it was part of did not complete.
	r.Rule("R15.6", "inside units: a function that has already moved coins does not report success after a later step failed", 10)
	{
		var roots []*ssa.Function
		for _, u := range units {
			if u.Closure != nil {
				roots = append(roots, u.Closure)
			}
		}
		for _, h := range hooks {
			roots = append(roots, h.Fn)
		}
		isRoot := map[*ssa.Function]bool{}
		for _, f := range roots {
			isRoot[f] = true
		}
		inUnits := p.Reachable(roots, func(f *ssa.Function) bool { return f == af || p.isAuxFn(f) })
		var fs []*ssa.Function
		for f := range inUnits {
			if errResultIndex(f) >= 0 {
				fs = append(fs, f)
			}
		}
		sort.Slice(fs, func(i, j int) bool { return fname(fs[i]) < fname(fs[j]) })
		for _, f := range fs {
			back := backEdges(f)
			if isRoot[f] {
				continue // the unit's own top level: skipping a sub-step that failed cleanly is its design (R15.5 covers sub-steps failing after their own writes)
			}
			var writes []ssa.CallInstruction
			for _, c := range calls(f) {
				if _, isDefer := c.(*ssa.Defer); isDefer {
					continue
				}
				if bank.Call(c) {
					writes = append(writes, c) // coins already moved by this function
				}
			}
			if len(writes) == 0 {
				continue
			}
			n := map[string]int{}
			for _, c := range calls(f) {
				call, ok := c.(*ssa.Call)
				if !ok || p.callIsFn(c, af) {
					continue
				}
				sig := call.Call.Signature()
				if k := sig.Results().Len(); k == 0 || !isErrorType(sig.Results().At(k-1).Type()) {
					continue
				}
				canFail := false
				ts := p.Callees(c)
				for _, t := range ts {
					if isComdexFn(t) && !neverFails(t) {
						canFail = true // a comdex step: reads the store, prices, balances
					}
				}
				if bankEffect(c) != nil {
					canFail = true
				}
				if !canFail {
					continue
				}
				// an own write strictly before the step on an acyclic path
				var prior ssa.CallInstruction
				for _, w := range writes {
					if w == c {
						continue
					}
					if w.Block() == c.Block() {
						for _, in := range c.Block().Instrs {
							if in == ssa.Instruction(w) {
								prior = w
								break
							}
							if in == ssa.Instruction(c) {
								break
							}
						}
					} else if seen, _ := reach(f, w.Block(), back, nil); seen[c.Block()] {
						prior = w
					}
					if prior != nil {
						break
					}
				}
				if prior == nil {
					continue
				}
				r.Instance("R15.6")
				r.FuncsSeen[fname(f)] = true
				base := fmt.Sprintf("%s: %s after own write", fname(f), callName(c))
				n[base]++
				construct := base
				if n[base] > 1 {
					construct = fmt.Sprintf("%s #%d", base, n[base])
				}
				if swallowed, pos := failureReturnsSuccess(p, f, call); swallowed {
					r.Fail("R15.6", construct, fmt.Sprintf("the function has already moved coins (%s at %s) when this step can fail, and the failure branch returns success (nil error): the enclosing unit commits the transfer of a step that did not complete", callName(prior), p.instrPos(prior)), pos, nil)
				} else {
					r.OK("R15.6", construct, "a failure after the function's own writes is reported to the unit", p.instrPos(c))
				}
			}
		}
	}

	// R15.7 ------------------------------------------------------------------------
	// At any depth inside a unit: the error of a step that can fail after it has written state
	// is looked at. An error that is assigned and never tested nor returned (a test of another,
	// already-nil variable is the usual slip) lets the function carry on over a half-applied step.
	r.Rule("R15.7", "inside units, at any depth: the error of a step that can fail after writing is tested or returned, never dropped", 20)
	{
		var roots []*ssa.Function
		for _, u := range units {
			if u.Closure != nil {
				roots = append(roots, u.Closure)
			}
		}
		for _, h := range hooks {
			roots = append(roots, h.Fn)
		}
		isRoot := map[*ssa.Function]bool{}
		for _, f := range roots {
			isRoot[f] = true
		}
		inUnits := p.Reachable(roots, func(f *ssa.Function) bool { return f == af || p.isAuxFn(f) })
		var fs []*ssa.Function
		for f := range inUnits {
			if !isRoot[f] && isComdexFn(f) && len(f.Blocks) > 0 {
				fs = append(fs, f)
			}
		}
		sort.Slice(fs, func(i, j int) bool { return fname(fs[i]) < fname(fs[j]) })
		for _, f := range fs {
			n := map[string]int{}
			for _, c := range calls(f) {
				call, ok := c.(*ssa.Call)
				if !ok || p.callIsFn(c, af) {
					continue
				}
				bad := false
				var why []string
				for _, t := range p.Callees(c) {
					if isComdexFn(t) {
						if b, ch := faw.Fn(t); b {
							bad, why = true, ch
						}
					}
				}
				if !bad {
					continue
				}
				if callbackNeverFails(call) {
					continue // an iterator whose only failure is the callback's, and the callback never fails
				}
				r.Instance("R15.7")
				r.FuncsSeen[fname(f)] = true
				base := fmt.Sprintf("%s: error of %s", fname(f), callName(c))
				n[base]++
				construct := base
				if n[base] > 1 {
					construct = fmt.Sprintf("%s #%d", base, n[base])
				}
				if dropped, pos := errorDropped(p, f, call); dropped {
					r.Fail("R15.7", construct, "the step can fail after it has written state and its error is neither tested nor returned: the function carries on over a half-applied step and the enclosing unit commits it", pos, why)
				} else {
					r.OK("R15.7", construct, "the error is tested or returned", p.instrPos(c))
				}
			}
		}
	}

	// R15.4 ------------------------------------------------------------------------
	r.Rule("R15.4", "unwrapped hook code: slices bounded by the sliced list's own length; no explicit panic; no unchecked integer division", 4)
	var inventory []string
	defer func() {
		sort.Strings(inventory)
		var ded []string
		for i, x := range inventory {
			if i == 0 || inventory[i-1] != x {
				ded = append(ded, x)
			}
		}
		r.Info["panic_source_inventory_informational"] = ded
	}()
	windowChecked := map[*ssa.Function]bool{}
	for _, h := range hooks {
		unwrapped := p.Reachable([]*ssa.Function{h.Fn}, func(f *ssa.Function) bool { return unitClosure[f] || f == af || p.isAuxFn(f) })
		var fs []*ssa.Function
		for f := range unwrapped {
			fs = append(fs, f)
		}
		sort.Slice(fs, func(i, j int) bool { return fname(fs[i]) < fname(fs[j]) })
		for _, f := range fs {
			if unitClosure[f] || (f.Parent() != nil && unitClosure[f.Parent()]) {
				continue
			}
			for _, b := range f.Blocks {
				for _, in := range b.Instrs {
					switch x := in.(type) {
					case *ssa.Slice:
						if _, isStr := x.X.Type().Underlying().(*types.Basic); isStr {
							continue
						}
						if (x.Low == nil || isConst(x.Low)) && (x.High == nil || isConst(x.High)) {
							continue
						}
						// bounds computed by a window helper: the helper does no arithmetic on a parameter
						// that may be negative (its arguments are uint64 parameters converted to int)
						var bnds []ssa.Value
						for _, bnd := range []ssa.Value{x.Low, x.High} {
							if bnd != nil {
								bnds = append(bnds, phiAlternatives(bnd)...)
							}
						}
						for _, bnd := range bnds {
							if cv, isCv := bnd.(*ssa.Convert); isCv {
								bnd = cv.X
							}
							ex, isEx := bnd.(*ssa.Extract)
							if !isEx {
								continue
							}
							hc, isCall := ex.Tuple.(*ssa.Call)
							if !isCall {
								continue
							}
							h := hc.Call.StaticCallee()
							if h == nil || !isComdexFn(h) || len(h.Blocks) == 0 || windowChecked[h] {
								continue
							}
							windowChecked[h] = true
							for _, hb := range h.Blocks {
								for _, hin := range hb.Instrs {
									bo, isBo := hin.(*ssa.BinOp)
									if !isBo || (bo.Op != token.ADD && bo.Op != token.SUB) {
										continue
									}
									for _, opnd := range []ssa.Value{bo.X, bo.Y} {
										pr, isP := opnd.(*ssa.Parameter)
										if !isP {
											continue
										}
										r.Instance("R15.4")
										construct := fmt.Sprintf("%s arithmetic on %s", fname(h), pr.Name())
										g := p.cmpGuard(pr.Name()+" >= 0", func(v ssa.Value) bool { return v == ssa.Value(pr) }, isZeroValue, RGE)
										if ok, w := p.GuardedSite(g, bo); ok {
											r.OK("R15.4", construct, "only behind "+pr.Name()+" >= 0", p.instrPos(bo))
										} else {
											r.Fail("R15.4", construct, "the window helper whose results bound a slice in an unwrapped hook adds a parameter that was not tested non-negative (its argument is a uint64 parameter converted to int): a value of 2^63 or more yields end < start and the slice expression panics outside any recover", p.instrPos(bo), w)
										}
									}
								}
							}
						}
						r.Instance("R15.4")
						construct := fmt.Sprintf("%s slice %s", fname(f), sliceDesc(x))
						if boundsFromLen(p, x) {
							r.OK("R15.4", construct, "slice bounds derive from len() of the sliced list", p.instrPos(x))
						} else {
							r.Fail("R15.4", construct, "a list is sliced in a block hook by bounds that do not derive from its own length (e.g. a stored counter): if they disagree the hook panics outside any recover and halts the chain", p.instrPos(x), nil)
						}
					case *ssa.Panic:
						top := f
						for top.Parent() != nil {
							top = top.Parent()
						}
						if strings.HasPrefix(top.Name(), "Must") || strings.HasPrefix(top.Name(), "must") {
							// codec helpers that panic only when stored bytes do not decode: not a reachable state
							inventory = append(inventory, fmt.Sprintf("%s: panic in codec helper %s (unreachable without store corruption)", p.instrPos(x), fname(f)))
							continue
						}
						r.Instance("R15.4")
						r.Fail("R15.4", fmt.Sprintf("%s explicit panic", fname(f)), "explicit panic reachable from a block hook outside any ApplyFuncIfNoError unit", p.instrPos(x), nil)
					case *ssa.BinOp:
						if x.Op != token.QUO && x.Op != token.REM {
							continue
						}
						if bt, ok := x.X.Type().Underlying().(*types.Basic); !ok || bt.Info()&types.IsInteger == 0 {
							continue
						}
						if isConst(x.Y) {
							continue
						}
						// informational: the divisor is a configured value validated at admission
						// (e.g. TwaBatchSize != 0 in ValidateBasic); a static rule cannot bound it.
						if !nonZeroChecked(x.Y, b) {
							inventory = append(inventory, fmt.Sprintf("%s: integer %s by non-constant not tested non-zero in %s", p.instrPos(x), x.Op, fname(f)))
						}
					}
				}
			}
		}
	}
}

func isConst(v ssa.Value) bool {
	_, ok := v.(*ssa.Const)
	return ok
}

func loopOrdinal(f *ssa.Function, l *Loop) string {
	n := 0
	for _, x := range loopsOf(f) {
		n++
		if x.Head == l.Head {
			break
		}
	}
	return itoa(n)
}

func sliceDesc(x *ssa.Slice) string {
	name := x.X.Name()
	if u, ok := x.X.(*ssa.UnOp); ok {
		name = u.X.Name()
	}
	_ = name
	return "of " + strings.TrimPrefix(types.TypeString(x.X.Type(), func(p *types.Package) string { return p.Name() }), "*")
}

// boundsFromLen: every non-constant bound of the slice expression derives from len(X)
// of the same list (possibly through GetSliceStartEndForLiquidations-like helpers whose
// first argument is that length).
func boundsFromLen(p *Prog, x *ssa.Slice) bool {
	lenOf := func(v ssa.Value) bool {
		// does v's deep origin include len(x.X) ?
		found := false
		var rec func(v ssa.Value, d int)
		seen := map[ssa.Value]bool{}
		rec = func(v ssa.Value, d int) {
			if d > 10 || seen[v] || found {
				return
			}
			seen[v] = true
			switch y := v.(type) {
			case *ssa.Call:
				if bi, ok := y.Call.Value.(*ssa.Builtin); ok && bi.Name() == "len" {
					if sameList(p, y.Call.Args[0], x.X) {
						found = true
					}
					return
				}
				for _, a := range y.Call.Args {
					rec(a, d+1)
				}
			case *ssa.Extract:
				rec(y.Tuple, d+1)
			case *ssa.Phi:
				for _, e := range y.Edges {
					rec(e, d+1)
				}
			case *ssa.BinOp:
				rec(y.X, d+1)
				rec(y.Y, d+1)
			case *ssa.Convert:
				rec(y.X, d+1)
			case *ssa.ChangeType:
				rec(y.X, d+1)
			case *ssa.UnOp:
				rec(y.X, d+1)
			}
		}
		rec(v, 0)
		return found
	}
	for _, b := range []ssa.Value{x.Low, x.High} {
		if b == nil || isConst(b) {
			continue
		}
		if !lenOf(b) {
			return false
		}
	}
	return true
}

func sameList(p *Prog, a, b ssa.Value) bool {
	if a == b || sameValue(a, b) {
		return true
	}
	oa, ob := p.Origins(a), p.Origins(b)
	if len(oa) == 0 || len(ob) == 0 {
		return false
	}
	for _, x := range oa {
		hit := false
		for _, y := range ob {
			if x.Val == y.Val && x.pathString() == y.pathString() {
				hit = true
			}
		}
		if !hit {
			return false
		}
	}
	return true
}

// nonZeroChecked: the block is dominated by an edge of a test of y against zero.
func nonZeroChecked(y ssa.Value, blk *ssa.BasicBlock) bool {
	for d := blk; d != nil; d = d.Idom() {
		c := d.Idom()
		if c == nil {
			break
		}
		ifi, ok := c.Instrs[len(c.Instrs)-1].(*ssa.If)
		if !ok {
			continue
		}
		bo, ok := ifi.Cond.(*ssa.BinOp)
		if !ok {
			continue
		}
		if (sameValue(bo.X, y) || sameValue(bo.Y, y) || convOf(bo.X, y) || convOf(bo.Y, y)) && (isConst(bo.X) || isConst(bo.Y)) {
			return true
		}
	}
	return false
}

func convOf(a, b ssa.Value) bool {
	if c, ok := a.(*ssa.Convert); ok && sameValue(c.X, b) {
		return true
	}
	if c, ok := b.(*ssa.Convert); ok && sameValue(c.X, a) {
		return true
	}
	return false
}

// failsAfterWrite: the function can return an error (or a callee can) on a path that has
// already performed a state write outside a nested ApplyFuncIfNoError unit.
type failsAfterWrite struct {
	p    *Prog
	sw   *MaySummary
	af   *ssa.Function
	memo map[*ssa.Function]*fawRes
}

type fawRes struct {
	state int
	bad   bool
	chain []string
}

func newFailsAfterWrite(p *Prog, sw *MaySummary, af *ssa.Function) *failsAfterWrite {
	return &failsAfterWrite{p: p, sw: sw, af: af, memo: map[*ssa.Function]*fawRes{}}
}

func (q *failsAfterWrite) Fn(fn *ssa.Function) (bool, []string) {
	if r, ok := q.memo[fn]; ok {
		if r.state == 1 {
			return false, nil
		}
		return r.bad, r.chain
	}
	res := &fawRes{state: 1}
	q.memo[fn] = res
	defer func() { res.state = 2 }()
	if len(fn.Blocks) == 0 || errResultIndex(fn) < 0 {
		// a function without error result cannot report failure; panics are the wrapper's business
		// but it may still contain a failing-after-write callee whose error it drops
		if len(fn.Blocks) == 0 {
			return false, nil
		}
	}
	p := q.p
	// error exits of fn (a return forwarding the error of a callee that never fails is not one)
	back := backEdges(fn)
	var errExits []*ssa.BasicBlock
	for _, rt := range returns(fn) {
		if ei := errResultIndex(fn); ei >= 0 && exitKind(rt) != ExitSuccess {
			if ei < len(rt.Results) {
				if cs := errorCallsOf(rt.Results[ei], 0); len(cs) > 0 {
					all := true
					for _, cc := range cs {
						for _, t := range p.Callees(cc) {
							if !neverFails(t) {
								all = false
							}
						}
						if len(p.Callees(cc)) == 0 {
							all = false
						}
					}
					if all {
						continue
					}
				}
			}
			errExits = append(errExits, rt.Block())
		}
	}
	for _, c := range calls(fn) {
		if p.callIsFn(c, q.af) {
			continue
		}
		if _, isDefer := c.(*ssa.Defer); isDefer {
			continue
		}
		// callee that itself fails after write
		for _, t := range p.Callees(c) {
			if isComdexFn(t) {
				if b, ch := q.Fn(t); b {
					res.bad = true
					res.chain = append([]string{fmt.Sprintf("%s %s in %s", p.instrPos(c), callName(c), fname(fn))}, ch...)
					return true, res.chain
				}
			}
		}
		if !q.sw.Call(c) {
			continue
		}
		// a write site: can an error exit be reached afterwards?
		seen, _ := reach(fn, c.Block(), back, nil)
		for _, e := range errExits {
			if seen[e] {
				// the error exit must not be the failure of this very call returning before any other write:
				// accept when the only error exit reachable is guarded by this call's own error (the call failed, its
				// own atomicity is the callee's business) and no earlier write exists.
				if q.onlyOwnFailure(fn, c, e) && !q.writeBefore(fn, c) {
					continue
				}
				res.bad = true
				res.chain = []string{fmt.Sprintf("%s writes state (%s) and can still return an error at %s in %s", p.instrPos(c), callName(c), p.instrPos(e.Instrs[len(e.Instrs)-1]), fname(fn))}
				return true, res.chain
			}
		}
	}
	return false, nil
}

// onlyOwnFailure: error exit e is the `if err != nil { return err }` of call c itself.
func (q *failsAfterWrite) onlyOwnFailure(fn *ssa.Function, c ssa.CallInstruction, e *ssa.BasicBlock) bool {
	call, ok := c.(*ssa.Call)
	if !ok {
		return false
	}
	// e dominated by true edge of a nil check on an error value produced by call
	for d := e; d != nil; d = d.Idom() {
		cb := d.Idom()
		if cb == nil {
			break
		}
		if len(d.Preds) != 1 {
			continue
		}
		ifi, ok := cb.Instrs[len(cb.Instrs)-1].(*ssa.If)
		if !ok {
			continue
		}
		x, neq, ok := nilCheck(ifi.Cond)
		if !ok {
			continue
		}
		if !((neq && cb.Succs[0] == d) || (!neq && cb.Succs[1] == d)) {
			continue
		}
		for _, cc := range errorCallsOf(x, 0) {
			if cc == call {
				return true
			}
		}
	}
	return false
}

// writeBefore: some other state write can precede call c in fn.
func (q *failsAfterWrite) writeBefore(fn *ssa.Function, c ssa.CallInstruction) bool {
	for _, o := range calls(fn) {
		if o == c || q.p.callIsFn(o, q.af) || !q.sw.Call(o) {
			continue
		}
		if _, isDefer := o.(*ssa.Defer); isDefer {
			continue
		}
		if o.Block() == c.Block() {
			for _, in := range o.Block().Instrs {
				if in == o {
					return true
				}
				if in == c {
					break
				}
			}
			continue
		}
		seen, _ := reach(fn, o.Block(), backEdges(fn), nil)
		if seen[c.Block()] {
			return true
		}
	}
	return false
}

// callbackNeverFails: the call is handed a function literal with an error result and every
// return of that literal gives a nil error (store iterators: `_ = k.IterateX(ctx, func(..) (bool, error) {...; return false, nil})`).
func callbackNeverFails(call *ssa.Call) bool {
	found := false
	for _, a := range call.Call.Args {
		var cl *ssa.Function
		switch x := a.(type) {
		case *ssa.MakeClosure:
			cl, _ = x.Fn.(*ssa.Function)
		case *ssa.Function:
			cl = x
		}
		if cl == nil || len(cl.Blocks) == 0 {
			continue
		}
		ei := errResultIndex(cl)
		if ei < 0 {
			continue
		}
		found = true
		for _, rt := range returns(cl) {
			if ei >= len(rt.Results) {
				return false
			}
			if k, ok := rt.Results[ei].(*ssa.Const); !ok || !k.IsNil() {
				return false
			}
		}
	}
	return found
}

// errorDropped: the error result of call is discarded, or assigned and then neither
// nil-tested nor returned.
func errorDropped(p *Prog, f *ssa.Function, call *ssa.Call) (bool, string) {
	sig := call.Call.Signature()
	n := sig.Results().Len()
	if n == 0 || !isErrorType(sig.Results().At(n-1).Type()) {
		return false, ""
	}
	var ev ssa.Value
	if n == 1 {
		ev = call
	} else {
		for _, ref := range *call.Referrers() {
			if ex, ok := ref.(*ssa.Extract); ok && ex.Index == n-1 {
				ev = ex
			}
		}
	}
	if ev == nil || ev.Referrers() == nil || len(*ev.Referrers()) == 0 {
		return true, p.instrPos(call)
	}
	users := map[ssa.Value]bool{ev: true}
	for changed := true; changed; {
		changed = false
		for u := range users {
			if u.Referrers() == nil {
				continue
			}
			for _, ref := range *u.Referrers() {
				if ph, ok := ref.(*ssa.Phi); ok && !users[ph] {
					users[ph] = true
					changed = true
				}
			}
		}
	}
	for u := range users {
		for _, ref := range *u.Referrers() {
			switch x := ref.(type) {
			case *ssa.Return:
				return false, ""
			case *ssa.BinOp:
				return false, "" // compared (err != nil, errors.Is through a call is below)
			case ssa.CallInstruction:
				_ = x
				return false, "" // handed on (wrapped, logged with a decision, stored)
			case *ssa.Store, *ssa.MakeInterface, *ssa.ChangeInterface, *ssa.TypeAssert:
				return false, ""
			}
		}
	}
	return true, p.instrPos(call)
}

// errorSwallowed: the error result of call is ignored, or its non-nil branch can reach a
// success exit of f.
func errorSwallowed(p *Prog, f *ssa.Function, call *ssa.Call) (bool, string) {
	sig := call.Call.Signature()
	n := sig.Results().Len()
	if n == 0 || !isErrorType(sig.Results().At(n-1).Type()) {
		return false, ""
	}
	var ev ssa.Value
	if n == 1 {
		ev = call
	} else {
		for _, ref := range *call.Referrers() {
			if ex, ok := ref.(*ssa.Extract); ok && ex.Index == n-1 {
				ev = ex
			}
		}
	}
	if ev == nil || ev.Referrers() == nil || len(*ev.Referrers()) == 0 {
		return true, p.instrPos(call)
	}
	// find nil checks on ev (possibly through phi)
	var users []ssa.Value
	users = append(users, ev)
	for _, ref := range *ev.Referrers() {
		if ph, ok := ref.(*ssa.Phi); ok {
			users = append(users, ph)
		}
	}
	checked := false
	for _, b := range f.Blocks {
		ifi, ok := b.Instrs[len(b.Instrs)-1].(*ssa.If)
		if !ok {
			continue
		}
		x, neq, ok := nilCheck(ifi.Cond)
		if !ok {
			continue
		}
		match := false
		for _, u := range users {
			if x == u {
				match = true
			}
		}
		if !match {
			continue
		}
		checked = true
		errSucc := b.Succs[0]
		if !neq {
			errSucc = b.Succs[1]
		}
		seen, _ := reach(f, errSucc, nil, nil)
		ei := errResultIndex(f)
		for _, rt := range returns(f) {
			if !seen[rt.Block()] {
				continue
			}
			if ei < 0 {
				continue // f cannot report failure at all; handled by the caller's own analysis
			}
			k := exitKind(rt)
			if k == ExitSuccess {
				return true, p.instrPos(ifi)
			}
			if k == ExitUnknown && ei < len(rt.Results) && !derivedFromAny(rt.Results[ei], users, 0) {
				// the value returned on this path is unrelated to the failed step's error
				// (e.g. another, still-nil error variable merged by a phi)
				if ph, ok := rt.Results[ei].(*ssa.Phi); ok && phiHasNilEdge(ph) {
					return true, p.instrPos(ifi)
				}
			}
		}
	}
	if !checked {
		// returned directly? then no success exit may be reachable from the call without the
		// error having been looked at ("v, e2 := f(); if err != nil { return e2 }; return v, nil"
		// tests another, already-nil variable)
		forwarded := false
		for _, ref := range *ev.Referrers() {
			if _, ok := ref.(*ssa.Return); ok {
				forwarded = true
			}
		}
		for _, u := range users {
			if u == ev {
				continue
			}
			for _, ref := range *u.Referrers() {
				if _, ok := ref.(*ssa.Return); ok {
					forwarded = true
				}
			}
		}
		if !forwarded {
			return true, p.instrPos(call)
		}
		if ei := errResultIndex(f); ei >= 0 {
			seen, _ := reach(f, call.Block(), nil, nil)
			for _, rt := range returns(f) {
				if !seen[rt.Block()] || ei >= len(rt.Results) {
					continue
				}
				if rt.Block() == call.Block() {
					// the return after the call in its own block
					after := false
					for _, in := range call.Block().Instrs {
						if in == ssa.Instruction(call) {
							after = true
						}
					}
					if !after {
						continue
					}
				}
				if exitKind(rt) == ExitSuccess {
					return true, p.instrPos(rt)
				}
			}
		}
		return false, ""
	}
	return false, ""
}

// backEdges returns the back edges of fn (b -> s with s dominating b).
func backEdges(fn *ssa.Function) map[Edge]bool {
	out := map[Edge]bool{}
	for _, b := range fn.Blocks {
		for i, s := range b.Succs {
			if s.Dominates(b) {
				out[Edge{b, i}] = true
			}
		}
	}
	return out
}

// neverFails: every return of fn yields the constant nil error.
func neverFails(fn *ssa.Function) bool {
	if errResultIndex(fn) < 0 || len(fn.Blocks) == 0 {
		return false
	}
	for _, rt := range returns(fn) {
		if exitKind(rt) != ExitSuccess {
			return false
		}
	}
	return true
}

// derivedFromAny: v is one of the values, a phi including one, or a call taking one (wrap).
func derivedFromAny(v ssa.Value, vals []ssa.Value, d int) bool {
	if d > 5 {
		return false
	}
	for _, x := range vals {
		if v == x || sameValue(v, x) {
			return true
		}
	}
	switch y := v.(type) {
	case *ssa.Phi:
		for _, e := range y.Edges {
			if derivedFromAny(e, vals, d+1) {
				return true
			}
		}
	case *ssa.Call:
		for _, a := range y.Call.Args {
			if derivedFromAny(a, vals, d+1) {
				return true
			}
		}
	case *ssa.MakeInterface:
		return derivedFromAny(y.X, vals, d+1)
	case *ssa.ChangeInterface:
		return derivedFromAny(y.X, vals, d+1)
	}
	return false
}

func phiHasNilEdge(ph *ssa.Phi) bool {
	for _, e := range ph.Edges {
		if c, ok := e.(*ssa.Const); ok && c.IsNil() {
			return true
		}
	}
	return false
}

// failureReturnsSuccess: the branch taken when the error of call is non-nil leads, without
// any further branching, to a return with a nil error ("if err != nil { return x, nil }").
// `continue`, logging-and-going-on and ignored errors are not this shape.
func failureReturnsSuccess(p *Prog, f *ssa.Function, call *ssa.Call) (bool, string) {
	sig := call.Call.Signature()
	n := sig.Results().Len()
	if n == 0 || !isErrorType(sig.Results().At(n-1).Type()) || errResultIndex(f) < 0 {
		return false, ""
	}
	var ev ssa.Value
	if n == 1 {
		ev = call
	} else if call.Referrers() != nil {
		for _, ref := range *call.Referrers() {
			if ex, ok := ref.(*ssa.Extract); ok && ex.Index == n-1 {
				ev = ex
			}
		}
	}
	if ev == nil {
		return false, ""
	}
	for _, b := range f.Blocks {
		ifi, ok := b.Instrs[len(b.Instrs)-1].(*ssa.If)
		if !ok {
			continue
		}
		x, neq, ok := nilCheck(ifi.Cond)
		if !ok || x != ev {
			continue
		}
		cur := b.Succs[0]
		if !neq {
			cur = b.Succs[1]
		}
		for i := 0; i < 4 && cur != nil; i++ {
			last := cur.Instrs[len(cur.Instrs)-1]
			if rt, isRet := last.(*ssa.Return); isRet {
				if exitKind(rt) == ExitSuccess {
					return true, p.instrPos(ifi)
				}
				break
			}
			if _, isJump := last.(*ssa.Jump); isJump && len(cur.Succs) == 1 && !cur.Succs[0].Dominates(cur) {
				cur = cur.Succs[0]
				continue
			}
			break
		}
	}
	return false, ""
}
