package main

import (
	"fmt"
	"go/constant"
	"go/token"
	"go/types"
	"sort"
	"strings"

	"golang.org/x/tools/go/ssa"
)

func init() { register("C12", rulesC12) }

// ownerTable: record type -> owner field (from the property's own state list).
var ownerTable = map[string]string{
	"Vault":     "Owner",
	"Locker":    "Depositor",
	"LendAsset": "Owner",
	"Order":     "Orderer",
}

// positionIDFields: request fields that name a position, and the record type whose owner
// must be the signer. Borrows resolve through BorrowAsset.LendingID -> LendAsset.Owner.
var positionIDFields = map[string]string{
	"UserVaultId": "Vault",
	"LockerId":    "Locker",
	"LendId":      "LendAsset",
	"BorrowId":    "LendAsset",
	"OrderId":     "Order",
}

// signerFields returns the names of the fields of the request type used by GetSigners.
func (p *Prog) signerFields(msgT *types.Named) []string {
	var out []string
	for _, t := range []types.Type{msgT, types.NewPointer(msgT)} {
		ms := p.SSA.MethodSets.MethodSet(t)
		for i := 0; i < ms.Len(); i++ {
			sel := ms.At(i)
			if sel.Obj().Name() != "GetSigners" {
				continue
			}
			f := p.unwrap(p.SSA.MethodValue(sel))
			if f == nil {
				continue
			}
			scan := func(g *ssa.Function) {
				for _, b := range g.Blocks {
					for _, in := range b.Instrs {
						if v, ok := in.(ssa.Value); ok {
							if tn, fn, _, isR := fieldRead(v); isR && tn == msgT.Obj().Name() {
								out = append(out, fn)
							}
						}
						if fa, ok := in.(*ssa.FieldAddr); ok && namedTypeName(fa.X.Type()) == msgT.Obj().Name() {
							out = append(out, fieldName(fa.X.Type(), fa.Field))
						}
					}
				}
			}
			scan(f)
			// generated getters (msg.GetLender()) one level down
			for _, c := range calls(f) {
				if sc := c.Common().StaticCallee(); sc != nil && sc.Signature.Recv() != nil && strings.HasPrefix(sc.Name(), "Get") && namedTypeName(sc.Signature.Recv().Type()) == msgT.Obj().Name() {
					scan(sc)
				}
			}
		}
	}
	sort.Strings(out)
	var ded []string
	for i, x := range out {
		if i == 0 || out[i-1] != x {
			ded = append(ded, x)
		}
	}
	return ded
}

// signerOracle decides whether a value is (derived only from) the signer field of the
// request of some message handler, following keeper-function parameters up to their call sites.
type signerOracle struct {
	p     *Prog
	memo  map[*ssa.Parameter]int
	cache map[*types.Named][]string
}

func (so *signerOracle) fieldsOf(nt *types.Named) []string {
	if f, ok := so.cache[nt]; ok {
		return f
	}
	f := so.p.signerFields(nt)
	so.cache[nt] = f
	return f
}

func (so *signerOracle) isSigner(v ssa.Value, depth int) bool {
	if depth > 5 {
		return false
	}
	os := so.p.Origins(v)
	if len(os) == 0 {
		return false
	}
	for _, o := range os {
		switch o.Kind {
		case "param":
			pr := o.Val.(*ssa.Parameter)
			// request parameter: field must be a signer field
			if pt, ok := pr.Type().(*types.Pointer); ok {
				if nt, ok := pt.Elem().(*types.Named); ok && len(o.Path) == 1 {
					isS := false
					for _, sf := range so.fieldsOf(nt) {
						if sf == o.Path[0] {
							isS = true
						}
					}
					if isS {
						continue
					}
					return false
				}
			}
			if len(o.Path) != 0 {
				return false
			}
			if !so.paramIsSigner(pr, depth) {
				return false
			}
		case "call":
			// sdk.AccAddress(x).String(), AccAddressFromBech32(x) etc.: look through conversions of the signer
			sc := o.Call.Call.StaticCallee()
			if sc == nil {
				return false
			}
			n := fullName(sc)
			if strings.HasSuffix(n, "AccAddress.String") || strings.HasSuffix(n, "AccAddressFromBech32") || strings.HasSuffix(n, "MustAccAddressFromBech32") || strings.HasSuffix(n, ".GetOrderer") || strings.HasSuffix(n, ".GetDepositor") || strings.HasSuffix(n, ".GetWithdrawer") || strings.HasSuffix(n, ".GetFarmer") {
				if len(o.Call.Call.Args) == 0 || !so.isSigner(o.Call.Call.Args[0], depth+1) {
					// getter methods on the request: receiver is the request itself
					if len(o.Call.Call.Args) == 1 {
						if pr, ok := o.Call.Call.Args[0].(*ssa.Parameter); ok && msgParam(pr.Parent()) == pr {
							continue
						}
					}
					return false
				}
				continue
			}
			return false
		default:
			return false
		}
	}
	return true
}

func (so *signerOracle) paramIsSigner(pr *ssa.Parameter, depth int) bool {
	switch so.memo[pr] {
	case 1:
		return true // cycle
	case 2:
		return true
	case 3:
		return false
	}
	so.memo[pr] = 1
	fn := pr.Parent()
	idx := paramIndex(pr)
	sites := so.p.CallSitesOf(fn)
	ok := len(sites) > 0
	for _, cs := range sites {
		cc := cs.Common()
		args := cc.Args
		ai := idx
		if cc.IsInvoke() {
			ai = idx - 1 // receiver not in Args
		}
		if ai < 0 || ai >= len(args) {
			ok = false
			break
		}
		if !so.isSigner(args[ai], depth+1) {
			ok = false
			break
		}
	}
	if ok {
		so.memo[pr] = 2
	} else {
		so.memo[pr] = 3
	}
	return ok
}

// ownerGuard: pass edge = edge implying record.<owner> == signer for a tabled record type.
func ownerGuard(p *Prog, so *signerOracle, recordType string) *GuardSpec {
	return &GuardSpec{
		Name: recordType + "." + ownerTable[recordType] + " == signer",
		Local: func(fn *ssa.Function, cond ssa.Value) (bool, bool) {
			a := p.Atom(cond)
			if !a.IsCmp || (a.Op != "==" && a.Op != "!=") || a.X == nil || a.Y == nil {
				return false, false
			}
			isOwner := func(v ssa.Value) bool {
				t, f, _, ok := fieldRead(v)
				return ok && t == recordType && f == ownerTable[recordType]
			}
			var other ssa.Value
			switch {
			case isOwner(a.X):
				other = a.Y
			case isOwner(a.Y):
				other = a.X
			default:
				return false, false
			}
			if !so.isSigner(other, 0) {
				return false, false
			}
			eq := a.Op == "=="
			if a.Neg {
				eq = !eq
			}
			if eq {
				return true, false
			}
			return false, true
		},
	}
}

func rulesC12(p *Prog, r *Report) {
	r.Explanation = "Decides the authorisation shape behind 'only the rightful party can act': (R12.1) every message handler whose request names a position id (vault, locker, lend, borrow, order) passes, on every success path, an equality test between the stored owner field of that record type and a value derived only from the request's signer field (traced through keeper-function parameters to every call site); (R12.2) each of the custom contract-message handlers runs keeper code on chain 'comdex-1' / 'comdex-test3' only behind an equality test between the sender contract parameter and the designated governance address of the same index on both chains; (R12.3) the kill switch is written only behind Admin(signer), and Admin returns true only on an equality with a configured admin; (R12.4) no rejection is swallowed: inside an `err != nil` (or swapped variable) branch of a handler the returned error is not a known-nil value; (R12.5) identifier-kind agreement: no id of one kind is passed where the callee expects an id of another kind (owner checks against the wrong record). 'A rejected attempt changes nothing' relies on SDK transaction atomicity (trusted)."
	r.Assumptions = []string{"GetSigners() of each request type names the signer field", "SDK runTx reverts failed messages", "interface calls resolve to comdex implementations only"}
	so := &signerOracle{p: p, memo: map[*ssa.Parameter]int{}, cache: map[*types.Named][]string{}}

	// R12.1 ------------------------------------------------------------------------
	r.Rule("R12.1", "handlers naming a position id pass record.owner == signer on every success path", 17)
	exceptions := map[string]string{
		"x/locker/keeper.msgServer.MsgLockerRewardCalc": "accrues savings for the locker only; releases nothing and anyone may trigger accrual (DESIGN R12.1)",
		"x/vault/keeper.msgServer.MsgVaultInterestCalc": "accrues stability fee for the vault only; moves nothing out and anyone may trigger accrual (DESIGN R12.1)",
	}
	exemptRecord := map[string]string{}
	var fieldInventory []string
	for _, e := range p.MsgHandlers() {
		mp := msgParam(e.Fn)
		if mp == nil {
			continue
		}
		nt := mp.Type().(*types.Pointer).Elem().(*types.Named)
		st, ok := nt.Underlying().(*types.Struct)
		if !ok {
			continue
		}
		var recTypes []string
		for i := 0; i < st.NumFields(); i++ {
			fn := st.Field(i).Name()
			if strings.HasSuffix(fn, "Id") || strings.HasSuffix(fn, "ID") {
				fieldInventory = append(fieldInventory, e.Name+" "+fn)
			}
			if rt, ok := positionIDFields[fn]; ok {
				recTypes = append(recTypes, rt)
			}
		}
		if len(recTypes) == 0 {
			continue
		}
		if why, ok := exceptions[e.Name]; ok {
			r.Note("R12.1 exception %s: %s", e.Name, why)
			continue
		}
		// liquidation / accrual messages: acting on someone else's position is the design
		if e.Module == "liquidation" || e.Module == "liquidationsV2" {
			r.Note("R12.1 exception %s: liquidation messages seize by design (C09 covers their guard)", e.Name)
			continue
		}
		r.FuncsSeen[e.Name] = true
		for _, rt := range recTypes {
			r.Instance("R12.1")
			construct := e.Name + " owner of " + rt
			if why, ok := exemptRecord[construct]; ok {
				r.Note("R12.1 exception %s: %s", construct, why)
				continue
			}
			g := ownerGuard(p, so, rt)
			ok, blk, w := p.Guarded(g, e.Fn, nil)
			if ok {
				r.OK("R12.1", construct, "every success exit passes "+g.Name, p.pos(e.Fn.Pos()))
			} else {
				pos := p.pos(e.Fn.Pos())
				if blk != nil {
					pos = p.instrPos(blk.Instrs[len(blk.Instrs)-1])
				}
				r.Fail("R12.1", construct, "the handler can succeed without the stored owner of the named "+rt+" having been compared with the signer", pos, w)
			}
		}
	}
	sort.Strings(fieldInventory)
	r.Info["request_id_fields"] = fieldInventory

	// R12.2 ------------------------------------------------------------------------
	r.Rule("R12.2", "custom contract messages: keeper code only behind sender == designated governance contract (per chain, same index)", 20)
	type wasmIdx struct{ main, test int }
	idx := map[string]wasmIdx{}
	for _, e := range p.WasmHandlers() {
		if strings.HasSuffix(e.Name, ".DispatchMsg") {
			continue
		}
		fn := e.Fn
		r.FuncsSeen[e.Name] = true
		var senderParam *ssa.Parameter
		for _, pr := range fn.Params {
			if strings.HasSuffix(pr.Type().String(), "types.AccAddress") {
				senderParam = pr
			}
		}
		// targets: every call to a comdex function that is not a trivial accessor
		var targets []*ssa.BasicBlock
		for _, c := range calls(fn) {
			for _, t := range p.Callees(c) {
				if isComdexFn(t) && len(t.Blocks) > 0 {
					targets = append(targets, c.Block())
				}
			}
		}
		for _, rt := range returns(fn) {
			if exitKind(rt) != ExitError {
				targets = append(targets, rt.Block())
			}
		}
		got := wasmIdx{-1, -1}
		for ci, chain := range []struct{ id, list string }{{"comdex-1", "comdex1"}, {"comdex-test3", "testnet3"}} {
			r.Instance("R12.2")
			construct := e.Name + " on " + chain.id
			found := -1
			g := &GuardSpec{
				Name: "sender == " + chain.list + "[k]",
				Assume: func(f *ssa.Function, cond ssa.Value) (bool, bool) {
					// assume ChainID() == chain.id: cut the edges on which it differs
					if eq, ok := chainIDAtom(cond, chain.id); ok {
						if eq {
							return false, true
						}
						return true, false
					}
					// the other chain-id tests are false under the assumption
					for _, other := range []string{"comdex-1", "comdex-test3"} {
						if other == chain.id {
							continue
						}
						if eq, ok := chainIDAtom(cond, other); ok {
							if eq {
								return true, false
							}
							return false, true
						}
					}
					return false, false
				},
				Local: func(f *ssa.Function, cond ssa.Value) (bool, bool) {
					k, eq, ok := senderAtom(p, cond, senderParam, chain.list)
					if !ok {
						return false, false
					}
					found = k
					if eq {
						return true, false
					}
					return false, true
				},
			}
			if senderParam == nil {
				r.Fail("R12.2", construct, "handler has no sender (sdk.AccAddress) parameter to authorise", p.pos(fn.Pos()), nil)
				continue
			}
			ok, blk, w := p.guardedTargets(g, fn, targets, 0)
			if ok && found >= 0 {
				r.OK("R12.2", construct, fmt.Sprintf("keeper calls and success exits only behind sender == %s[%d]", chain.list, found), p.pos(fn.Pos()))
			} else {
				pos := p.pos(fn.Pos())
				if blk != nil {
					pos = p.instrPos(blk.Instrs[len(blk.Instrs)-1])
				}
				r.Fail("R12.2", construct, "on chain "+chain.id+" the privileged handler reaches keeper code or a success exit without comparing the real sender contract with the designated governance contract", pos, w)
			}
			if ci == 0 {
				got.main = found
			} else {
				got.test = found
			}
		}
		idx[e.Name] = got
		r.Instance("R12.2")
		if got.main == got.test && got.main >= 0 {
			r.OK("R12.2", e.Name+" same governance index on both chains", fmt.Sprintf("index %d", got.main), p.pos(fn.Pos()))
		} else if got.main >= 0 && got.test >= 0 {
			r.Fail("R12.2", e.Name+" same governance index on both chains", fmt.Sprintf("main-net branch checks comdex1[%d] but test-net branch checks testnet3[%d]", got.main, got.test), p.pos(fn.Pos()), nil)
		}
	}

	// R12.3 ------------------------------------------------------------------------
	r.Rule("R12.3", "kill switch only behind Admin(signer); Admin true only on equality with a configured admin", 2)
	{
		h := p.MustFunc("x/esm/keeper.msgServer.MsgKillSwitch")
		admin := p.MustFunc("x/esm/keeper.Keeper.Admin")
		setK := p.MustFunc("x/esm/keeper.Keeper.SetKillSwitchData")
		r.FuncsSeen[fname(h)] = true
		g := &GuardSpec{
			Name: "Admin(ctx, signer)",
			Local: func(fn *ssa.Function, cond ssa.Value) (bool, bool) {
				a := p.Atom(cond)
				if a.IsCmp {
					return false, false
				}
				c, ok := a.Val.(*ssa.Call)
				if !ok || !p.callIsFn(c, admin) {
					return false, false
				}
				args := callArgs(c)
				if len(args) < 2 || !so.isSigner(args[1], 0) {
					return false, false
				}
				if a.Neg {
					return false, true
				}
				return true, false
			},
		}
		for _, c := range calls(h) {
			if p.callIsFn(c, setK) {
				r.Instance("R12.3")
				ok, w := p.GuardedSite(g, c)
				if ok {
					r.OK("R12.3", fname(h)+" SetKillSwitchData", "only behind Admin(ctx, msg.From)", p.instrPos(c))
				} else {
					r.Fail("R12.3", fname(h)+" SetKillSwitchData", "the kill switch can be written without the signer having passed the admin check", p.instrPos(c), w)
				}
			}
		}
		// Admin: return true only through addr == from
		eqG := &GuardSpec{
			Name: "configured admin == from",
			Local: func(fn *ssa.Function, cond ssa.Value) (bool, bool) {
				a := p.Atom(cond)
				if !a.IsCmp || (a.Op != "==" && a.Op != "!=") {
					return false, false
				}
				isFrom := func(v ssa.Value) bool {
					pr, ok := v.(*ssa.Parameter)
					return ok && pr.Parent() == admin && pr.Name() == "from"
				}
				fromAdminParam := func(v ssa.Value) bool {
					for _, o := range p.Origins(v) {
						if !(o.Kind == "call" && p.callIs(o.Call, "AdminParam")) {
							return false
						}
					}
					return true
				}
				if !((isFrom(a.X) && fromAdminParam(a.Y)) || (isFrom(a.Y) && fromAdminParam(a.X))) {
					return false, false
				}
				eq := a.Op == "=="
				if a.Neg {
					eq = !eq
				}
				if eq {
					return true, false
				}
				return false, true
			},
		}
		r.Instance("R12.3")
		var trueRets []*ssa.BasicBlock
		for _, rt := range returns(admin) {
			if len(rt.Results) == 1 {
				if b, ok := constBool(rt.Results[0]); ok && !b {
					continue
				}
				trueRets = append(trueRets, rt.Block())
			}
		}
		ok, _, w := p.guardedTargets(eqG, admin, trueRets, 0)
		if ok && len(trueRets) > 0 {
			r.OK("R12.3", fname(admin)+" returns true", "only through an equality with a configured admin address", p.pos(admin.Pos()))
		} else {
			r.Fail("R12.3", fname(admin)+" returns true", "Admin can return true without its argument being equal to a configured admin address", p.pos(admin.Pos()), w)
		}
	}

	// R12.4 ------------------------------------------------------------------------
	r.Rule("R12.4", "no swallowed rejection in message handlers (error branch returning a nil / different known-nil error)", 300)
	for _, e := range p.MsgHandlers() {
		reach := p.Reachable([]*ssa.Function{e.Fn}, func(f *ssa.Function) bool { return p.isAuxFn(f) })
		_ = reach
		fns := []*ssa.Function{e.Fn}
		// the keeper function the handler delegates to (one level) is part of the handler
		for _, c := range calls(e.Fn) {
			for _, t := range p.Callees(c) {
				if isComdexFn(t) && len(t.Blocks) > 0 && moduleOf(t) == e.Module && errResultIndex(t) >= 0 {
					fns = append(fns, t)
				}
			}
		}
		seenFn := map[*ssa.Function]bool{}
		for _, f := range fns {
			if seenFn[f] {
				continue
			}
			seenFn[f] = true
			r.FuncsSeen[fname(f)] = true
			ei := errResultIndex(f)
			if ei < 0 {
				continue
			}
			n := 0
			for _, rt := range returns(f) {
				if ei >= len(rt.Results) {
					continue
				}
				// is this return inside the taken branch of some `x != nil` on an error value?
				x := enclosingErrBranch(rt.Block())
				if x == nil {
					continue
				}
				r.Instance("R12.4")
				n++
				construct := fmt.Sprintf("%s error-branch return #%d", fname(f), n)
				ev := rt.Results[ei]
				k := errValueKind(ev, rt.Block(), 0)
				if k == ExitError || sameValue(ev, x) || phiIncludes(ev, x) {
					r.OK("R12.4", construct, "error branch returns a non-nil error", p.instrPos(rt))
					continue
				}
				if k == ExitSuccess {
					r.Fail("R12.4", construct, "inside the branch taken when a step failed, the handler returns a nil error (or another, known-nil error variable): the rejection is lost and the transaction commits", p.instrPos(rt), nil)
					continue
				}
				r.OK("R12.4", construct, "error branch returns a value not known to be nil", p.instrPos(rt))
			}
		}
	}

	// R12.5 ------------------------------------------------------------------------
	idKindRule(p, r, "R12.5", map[string]bool{"lend": true, "vault": true, "locker": true, "liquidity": true, "auctionsV2": true, "esm": true, "rewards": true}, 200)
}

func phiIncludes(v, x ssa.Value) bool {
	ph, ok := v.(*ssa.Phi)
	if !ok {
		return false
	}
	for _, e := range ph.Edges {
		if sameValue(e, x) {
			return true
		}
	}
	return false
}

// enclosingErrBranch returns the error value x if blk is dominated by the taken edge of
// `x != nil` (x of type error), nearest first.
func enclosingErrBranch(blk *ssa.BasicBlock) ssa.Value {
	for d := blk; d != nil; d = d.Idom() {
		c := d.Idom()
		if c == nil {
			break
		}
		if len(d.Preds) != 1 || d.Preds[0] != c {
			continue
		}
		ifi, ok := c.Instrs[len(c.Instrs)-1].(*ssa.If)
		if !ok {
			continue
		}
		x, neq, ok := nilCheck(ifi.Cond)
		if !ok || !isErrorType(x.Type()) {
			continue
		}
		if (neq && c.Succs[0] == d) || (!neq && c.Succs[1] == d) {
			return x
		}
	}
	return nil
}

// chainIDAtom: cond is ctx.ChainID() ==/!= "<id>"; returns whether it is an equality.
func chainIDAtom(cond ssa.Value, id string) (eq bool, ok bool) {
	neg := false
	v := cond
	for {
		if u, isU := v.(*ssa.UnOp); isU && u.Op == token.NOT {
			neg = !neg
			v = u.X
			continue
		}
		break
	}
	b, isB := v.(*ssa.BinOp)
	if !isB || (b.Op != token.EQL && b.Op != token.NEQ) {
		return false, false
	}
	isChain := func(x ssa.Value) bool {
		c, ok := x.(*ssa.Call)
		if !ok {
			return false
		}
		sc := c.Call.StaticCallee()
		return sc != nil && sc.Name() == "ChainID" && strings.HasSuffix(fullName(sc), "types.Context.ChainID")
	}
	isID := func(x ssa.Value) bool {
		c, ok := x.(*ssa.Const)
		return ok && c.Value != nil && c.Value.Kind() == constant.String && constant.StringVal(c.Value) == id
	}
	if !((isChain(b.X) && isID(b.Y)) || (isChain(b.Y) && isID(b.X))) {
		return false, false
	}
	eq = b.Op == token.EQL
	if neg {
		eq = !eq
	}
	return eq, true
}

// senderAtom: cond compares sender.String() with <list>[k]; returns k and whether the
// condition is an equality.
func senderAtom(p *Prog, cond ssa.Value, sender *ssa.Parameter, list string) (k int, eq bool, ok bool) {
	neg := false
	v := cond
	for {
		if u, isU := v.(*ssa.UnOp); isU && u.Op == token.NOT {
			neg = !neg
			v = u.X
			continue
		}
		break
	}
	b, isB := v.(*ssa.BinOp)
	if !isB || (b.Op != token.EQL && b.Op != token.NEQ) {
		return 0, false, false
	}
	isSender := func(x ssa.Value) bool {
		c, ok := x.(*ssa.Call)
		if !ok {
			return false
		}
		sc := c.Call.StaticCallee()
		if sc == nil || sc.Name() != "String" || len(c.Call.Args) != 1 {
			return false
		}
		os := p.Origins(c.Call.Args[0])
		if len(os) == 0 {
			return false
		}
		for _, o := range os {
			if !(o.Kind == "param" && o.Val == sender && len(o.Path) == 0) {
				return false
			}
		}
		return true
	}
	listIdx := func(x ssa.Value) (int, bool) {
		u, ok := x.(*ssa.UnOp)
		if !ok || u.Op != token.MUL {
			return 0, false
		}
		ia, ok := u.X.(*ssa.IndexAddr)
		if !ok {
			return 0, false
		}
		c, ok := ia.Index.(*ssa.Const)
		if !ok || c.Value == nil {
			return 0, false
		}
		base, ok := ia.X.(*ssa.UnOp)
		if !ok || base.Op != token.MUL {
			return 0, false
		}
		g, ok := base.X.(*ssa.Global)
		if !ok || g.Name() != list {
			return 0, false
		}
		n, _ := constant.Int64Val(c.Value)
		return int(n), true
	}
	var kk int
	var okk bool
	switch {
	case isSender(b.X):
		kk, okk = listIdx(b.Y)
	case isSender(b.Y):
		kk, okk = listIdx(b.X)
	}
	if !okk {
		return 0, false, false
	}
	eq = b.Op == token.EQL
	if neg {
		eq = !eq
	}
	return kk, eq, true
}
