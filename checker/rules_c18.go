package main

import (
	"fmt"
	"go/token"
	"sort"
	"strings"

	"golang.org/x/tools/go/ssa"
)

func init() { register("C18", rulesC18) }

// C18 is numeric almost everywhere (sign, monotonicity, sub-additivity of accrual formulas,
// one of them through float64): none of that is decided here. Three clauses have a
// structural necessary condition, and only those are claimed:
//
//	R18.1  "never negative": every accrual formula that scales by elapsed seconds can
//	       succeed only behind elapsed >= 0 (a negative elapsed time turns (1+r)^t - 1 and
//	       r*t negative).
//	R18.2  "triggering more often cannot make a position owe more": whenever an accrual is
//	       added to a carry tracker, the position's time base is refreshed (BlockTime :=
//	       ctx.BlockTime()) and stored on the same path, so the same interval is not
//	       accrued a second time by the next trigger.
//	R18.3  same clause: the whole units taken out of a carry tracker are exactly the units
//	       credited (tracker -= Dec(Trunc(tracker)); record += Trunc(tracker)), and the
//	       tracker is stored afterwards on every successful path.
func rulesC18(p *Prog, r *Report) {
	r.Explanation = "Thin claim. Decides three structural necessary conditions of the accrual property and nothing numeric: (R18.1) every accrual formula scaled by elapsed seconds can succeed only behind elapsed >= 0; (R18.2) in the stability-fee and savings accrual, every success path that stores the carry tracker also refreshes and stores the position's time base, so an interval is never accrued twice by triggering twice; (R18.3) carry discipline: what is subtracted from a tracker is Dec(TruncateInt(tracker)) and that truncated amount is what is credited, with the tracker stored afterwards. NOT covered: sign/monotonicity/sub-additivity of the formulas themselves, float64 rounding, the interest-rate model (continuity at the kink, lend <= borrow rate)."

	r.Assumptions = []string{"interface calls resolve to comdex implementations", "the block time is the only clock (checked by C16)"}
	var fns []*ssa.Function
	for _, fn := range p.Funcs {
		m := moduleOf(fn)
		if (m == "rewards" || m == "lend" || m == "collector" || m == "locker" || m == "vault") && !p.isAuxFn(fn) && len(fn.Blocks) > 0 {
			fns = append(fns, fn)
		}
	}
	sort.Slice(fns, func(i, j int) bool { return fname(fns[i]) < fname(fns[j]) })

	// R18.1 ---------------------------------------------------------------------------
	r.Rule("R18.1", "accrual formulas scaled by elapsed seconds succeed only behind elapsed >= 0", 2)
	for _, fn := range fns {
		if errResultIndex(fn) < 0 {
			continue
		}
		// the elapsed-seconds value: an int64 handed to NewDec that is (or merges, through a phi
		// or a local) a difference whose minuend is the block time
		seenE := map[ssa.Value]bool{}
		for _, c := range calls(fn) {
			call, ok := c.(*ssa.Call)
			if !ok || !strings.Contains(calleeFullName(&call.Call), "NewDec") || len(call.Call.Args) != 1 {
				continue
			}
			e := call.Call.Args[0]
			if !isInt64(e.Type()) || seenE[e] {
				continue
			}
			var subs []*ssa.BinOp
			var walk func(v ssa.Value, d int)
			walk = func(v ssa.Value, d int) {
				if d > 4 {
					return
				}
				switch x := v.(type) {
				case *ssa.BinOp:
					if x.Op == token.SUB && p.derivesFromBlockTime(x.X) {
						subs = append(subs, x)
					}
				case *ssa.Phi:
					for _, ed := range x.Edges {
						walk(ed, d+1)
					}
				}
			}
			walk(e, 0)
			if len(subs) == 0 {
				continue
			}
			seenE[e] = true
			r.Instance("R18.1")
			r.FuncsSeen[fname(fn)] = true
			construct := fname(fn) + " elapsed seconds"
			g := &GuardSpec{Name: "elapsed >= 0", Local: func(f *ssa.Function, cond ssa.Value) (bool, bool) {
				x, y, onT, onF, ok := p.CmpRel(cond)
				if !ok || x == nil {
					return false, false
				}
				for _, bo := range subs {
					switch {
					case y != nil && sameValue(x, bo.X) && sameValue(y, bo.Y): // CmpRel normalises (a-b) ? 0 to a ? b
						return onT.subsetOf(RGE), onF.subsetOf(RGE)
					case y != nil && sameValue(x, bo.Y) && sameValue(y, bo.X):
						return onT.subsetOf(RLE), onF.subsetOf(RLE)
					}
				}
				switch {
				case sameValue(x, e) && (y == nil || isZeroValue(y)):
					return onT.subsetOf(RGE), onF.subsetOf(RGE)
				case y != nil && sameValue(y, e) && isZeroValue(x):
					return onT.subsetOf(RLE), onF.subsetOf(RLE)
				}
				return false, false
			}}
			ok2, _, w := p.guardedTargets(g, fn, nil, 0)
			if ok2 {
				r.OK("R18.1", construct, "the function cannot succeed with a negative elapsed time", p.instrPos(call))
			} else {
				r.Fail("R18.1", construct, "the accrual formula can return successfully without the elapsed time having been tested non-negative: a time base in the future yields a negative accrual", p.instrPos(call), w)
			}
		}
	}

	rateFamilyRule(p, r, "R18.5")
	accrualClockRule(p, r, "R18.6")
	accrualBaseRule(p, r, "R18.7")

	// tracker stores ------------------------------------------------------------------
	type trackerStore struct {
		st    *ssa.Store
		typ   string
		field string
	}
	trackerStores := func(fn *ssa.Function) []trackerStore {
		var out []trackerStore
		for _, b := range fn.Blocks {
			for _, in := range b.Instrs {
				st, ok := in.(*ssa.Store)
				if !ok {
					continue
				}
				base, path := addrBase(st.Addr)
				tn := namedTypeName(base.Type())
				if len(path) != 1 || !strings.HasSuffix(tn, "Tracker") {
					continue
				}
				if !strings.HasSuffix(st.Val.Type().String(), "LegacyDec") {
					continue
				}
				out = append(out, trackerStore{st, tn, path[0]})
			}
		}
		return out
	}
	isTrackerSet := func(c ssa.CallInstruction) bool {
		for _, t := range p.Callees(c) {
			if strings.HasPrefix(t.Name(), "Set") && strings.HasSuffix(t.Name(), "Tracker") {
				return true
			}
		}
		return false
	}

	// R18.3 carry discipline ------------------------------------------------------------
	r.Rule("R18.3", "carry trackers: tracker -= Dec(Trunc(tracker)), the truncated units are what is credited, tracker stored afterwards", 3)
	for _, fn := range fns {
		n := 0
		// accrue-and-carry functions only: the same tracker field also receives an accrual here
		accrues := map[string]bool{}
		for _, ts := range trackerStores(fn) {
			if op, _, _, ok := addSubOf(ts.st.Val); ok && op == "Add" {
				accrues[ts.typ+"."+ts.field] = true
			}
		}
		for _, ts := range trackerStores(fn) {
			op, recv, x, ok := addSubOf(ts.st.Val)
			if !ok || op != "Sub" || !accrues[ts.typ+"."+ts.field] {
				continue
			}
			n++
			r.Instance("R18.3")
			r.FuncsSeen[fname(fn)] = true
			construct := fmt.Sprintf("%s %s.%s -= #%d", fname(fn), ts.typ, ts.field, n)
			// x must be NewDecFromInt(T), T = TruncateInt(recv')
			var trunc *ssa.Call
			if c, isC := x.(*ssa.Call); isC && strings.Contains(calleeFullName(&c.Call), "NewDecFromInt") && len(c.Call.Args) == 1 {
				if t, isT := c.Call.Args[0].(*ssa.Call); isT && strings.HasSuffix(calleeFullName(&t.Call), ".TruncateInt") && len(t.Call.Args) == 1 {
					trunc = t
				}
			}
			if trunc == nil || p.ExprKey(trunc.Call.Args[0]) != p.ExprKey(recv) {
				r.Fail("R18.3", construct, "the amount taken out of the carry tracker is not Dec(TruncateInt(tracker value)): the fraction carried to the next trigger is not what remains after paying the whole units", p.instrPos(ts.st), nil)
				continue
			}
			// the truncated units are credited somewhere (record field += T, or paid through the bank)
			tk := p.ExprKey(trunc)
			credited := false
			for _, b := range fn.Blocks {
				for _, in := range b.Instrs {
					switch y := in.(type) {
					case *ssa.Store:
						base, path := addrBase(y.Addr)
						if len(path) == 0 || strings.HasSuffix(namedTypeName(base.Type()), "Tracker") {
							continue
						}
						if op2, _, x2, ok2 := addSubOf(y.Val); ok2 && op2 == "Add" {
							for _, alt := range altKeys(p, x2) {
								for _, k := range alt {
									if k == tk {
										credited = true
									}
								}
							}
						}
					case ssa.CallInstruction:
						if be := bankEffect(y); be != nil && be.Coins != nil {
							for _, k := range p.amountKeys(be.Coins) {
								if k == tk {
									credited = true
								}
							}
						}
					}
				}
			}
			if !credited {
				r.Fail("R18.3", construct, "whole units are taken out of the carry tracker but that same amount is neither added to a record nor paid: accrual is lost or credited as a different amount", p.instrPos(ts.st), nil)
				continue
			}
			// tracker stored afterwards on every successful path
			blocked := map[*ssa.BasicBlock]bool{}
			sameBlockAfter := false
			for _, c := range calls(fn) {
				if !isTrackerSet(c) {
					continue
				}
				if c.Block() == ts.st.Block() {
					after := false
					for _, in := range c.Block().Instrs {
						if in == ssa.Instruction(ts.st) {
							after = true
						}
						if in == ssa.Instruction(c) && after {
							sameBlockAfter = true
						}
					}
				} else {
					blocked[c.Block()] = true
				}
			}
			stored := sameBlockAfter
			if !stored {
				seen, _ := reach(fn, ts.st.Block(), nil, blocked)
				stored = true
				for _, rt := range returns(fn) {
					if seen[rt.Block()] && exitKind(rt) != ExitError {
						stored = false
					}
				}
			}
			if stored {
				r.OK("R18.3", construct, "tracker -= Dec(Trunc(tracker)); Trunc credited; tracker stored on every successful path", p.instrPos(ts.st))
			} else {
				r.Fail("R18.3", construct, "after the whole units were taken out, the function can succeed without storing the carry tracker: the same units are paid again by the next trigger", p.instrPos(ts.st), nil)
			}
		}
	}

	// R18.2 time base refresh -------------------------------------------------------------
	r.Rule("R18.2", "stability-fee / savings accrual: storing the carry tracker is followed by storing the position with its time base set to the block time", 2)
	for _, fn := range fns {
		if moduleOf(fn) != "rewards" {
			continue
		}
		// functions that compute an accrual over the position's own time base
		usesCalc := false
		for _, c := range calls(fn) {
			if p.callIs(c, "CalculationOfRewards") {
				usesCalc = true
			}
		}
		if !usesCalc {
			continue
		}
		// refreshing stores: Set<Position>(ctx, rec) where rec.BlockTime was assigned ctx.BlockTime() before, in the same block
		refreshing := map[*ssa.BasicBlock]bool{}
		for _, b := range fn.Blocks {
			timeSet := map[ssa.Value]bool{}
			for _, in := range b.Instrs {
				if st, ok := in.(*ssa.Store); ok {
					base, path := addrBase(st.Addr)
					if len(path) == 1 && path[0] == "BlockTime" && p.isBlockTimeCall(st.Val) {
						timeSet[base] = true
					}
				}
				if c, ok := in.(ssa.CallInstruction); ok {
					ok2 := false
					for _, t := range p.Callees(c) {
						if t.Name() == "SetLocker" || t.Name() == "SetVault" {
							ok2 = true
						}
					}
					if !ok2 {
						continue
					}
					for _, a := range c.Common().Args {
						u, isU := a.(*ssa.UnOp)
						if !isU || u.Op != token.MUL {
							continue
						}
						if timeSet[u.X] {
							refreshing[b] = true
							continue
						}
						// the time base may have been set earlier on the path (hoisted in front of a
						// branch): every definition of rec.BlockTime reaching this store is the block time
						if al, isA := u.X.(*ssa.Alloc); isA {
							if defs, entry := reachingStores(al, []string{"BlockTime"}, u); !entry && len(defs) > 0 {
								all := true
								for _, d := range defs {
									if d.whole || !p.isBlockTimeCall(d.st.Val) {
										all = false
									}
								}
								if all {
									refreshing[b] = true
								}
							}
						}
					}
				}
			}
		}
		n := 0
		for _, c := range calls(fn) {
			if !isTrackerSet(c) {
				continue
			}
			n++
			r.Instance("R18.2")
			r.FuncsSeen[fname(fn)] = true
			construct := fmt.Sprintf("%s tracker store #%d", fname(fn), n)
			if refreshing[c.Block()] {
				// same block: must come after or before, either way on the same path
				r.OK("R18.2", construct, "the position is stored with BlockTime = block time on the same path", p.instrPos(c))
				continue
			}
			seen, _ := reach(fn, c.Block(), nil, refreshing)
			bad := false
			for _, rt := range returns(fn) {
				if seen[rt.Block()] && exitKind(rt) != ExitError {
					bad = true
				}
			}
			if bad {
				r.Fail("R18.2", construct, "the accrual is added to the carry tracker and the function can succeed without storing the position with its time base moved to the block time: the next trigger accrues the same interval again", p.instrPos(c), nil)
			} else {
				r.OK("R18.2", construct, "every successful path afterwards stores the position with BlockTime = block time", p.instrPos(c))
			}
		}
	}
}

// rateFamilyRule (R18.5): the kinked rate model has two parameter families on one record
// (Base/Slope1/Slope2 and StableBase/StableSlope1/StableSlope2). The value just below the kink
// (base + slope1) equals the value just above it only if both sides take base and slope1 from
// the same family: one rate value (a returned rate, or the arguments of one pure rate helper)
// never mixes the two families.
func rateFamilyRule(p *Prog, r *Report, rule string) {
	r.Rule(rule, "a borrow-rate value is built from one family of rate parameters (variable or stable), never a mix", 2)
	fam := func(f string) string {
		switch f {
		case "Base", "Slope1", "Slope2":
			return "variable"
		case "StableBase", "StableSlope1", "StableSlope2":
			return "stable"
		}
		return ""
	}
	families := func(vals []ssa.Value) map[string]bool {
		out := map[string]bool{}
		for _, v := range vals {
			for _, o := range p.DeepOrigins(v) {
				if len(o.Path) == 0 {
					continue
				}
				if f := fam(o.Path[len(o.Path)-1]); f != "" && pathBaseTypeName(o) == "AssetRatesParams" {
					out[f] = true
				}
			}
		}
		return out
	}
	var fns []*ssa.Function
	for _, fn := range p.Funcs {
		if moduleOf(fn) == "lend" && !p.isAuxFn(fn) && len(fn.Blocks) > 0 {
			fns = append(fns, fn)
		}
	}
	sort.Slice(fns, func(i, j int) bool { return fname(fns[i]) < fname(fns[j]) })
	for _, fn := range fns {
		n := 0
		report := func(what string, fs map[string]bool, pos string) {
			if len(fs) == 0 {
				return
			}
			n++
			r.Instance(rule)
			r.FuncsSeen[fname(fn)] = true
			construct := fmt.Sprintf("%s %s #%d", fname(fn), what, n)
			if len(fs) > 1 {
				r.Fail(rule, construct, "one rate value mixes the variable and the stable parameter family: at the optimal-utilisation kink the rate jumps (and can fall as utilisation rises) unless the two families happen to be equal", pos, nil)
			} else {
				r.OK(rule, construct, "one parameter family", pos)
			}
		}
		for _, rt := range returns(fn) {
			for _, res := range rt.Results {
				if !strings.HasSuffix(res.Type().String(), "LegacyDec") {
					continue
				}
				for _, alt := range phiAlternatives(res) {
					report("returned rate", families([]ssa.Value{alt}), p.instrPos(rt))
				}
			}
		}
		for _, c := range calls(fn) {
			call, ok := c.(*ssa.Call)
			if !ok || !isComdexPure(call) {
				continue
			}
			report("arguments of "+callName(c), families(call.Call.Args), p.instrPos(c))
		}
	}
}

func isInt64(t interface{ String() string }) bool { return t.String() == "int64" }

// derivesFromBlockTime: v is ctx.BlockTime().Unix() (possibly through a local).
func (p *Prog) derivesFromBlockTime(v ssa.Value) bool {
	for _, o := range p.DeepOrigins(v) {
		if o.Kind == "call" && strings.HasSuffix(calleeFullName(&o.Call.Call), "time.Time.Unix") {
			if len(o.Call.Call.Args) == 1 && p.isBlockTimeCall(o.Call.Call.Args[0]) {
				return true
			}
		}
	}
	return false
}

// isBlockTimeCall: v is the result of sdk.Context.BlockTime().
func (p *Prog) isBlockTimeCall(v ssa.Value) bool {
	for _, o := range p.Origins(v) {
		if o.Kind == "call" && strings.HasSuffix(calleeFullName(&o.Call.Call), "Context.BlockTime") {
			return true
		}
	}
	return false
}

// accrualClockRule (R18.6): in the lend keeper a position whose accrual index is refreshed
// (X.GlobalIndex = ...) has its accrual clock refreshed with it (X.LastInteractionTime =
// ctx.BlockTime()) on every success path: otherwise the interval just charged is charged
// again by the next interaction (accrual over zero time is not zero, split accrual exceeds a
// single one). The pair is unanimous at the sites of today's tree; instances are discovered.
func accrualClockRule(p *Prog, r *Report, rule string) {
	r.Rule(rule, "lend: a refreshed accrual index (GlobalIndex) comes with a refreshed accrual clock (LastInteractionTime = block time)", 6)
	for _, fn := range p.Funcs {
		if moduleOf(fn) != "lend" || p.isAuxFn(fn) || len(fn.Blocks) == 0 || !strings.HasSuffix(fnPkgPath(fn), "/keeper") {
			continue
		}
		type fs struct {
			st    *ssa.Store
			base  ssa.Value
			field string
		}
		var idx, clk []fs
		for _, b := range fn.Blocks {
			for _, in := range b.Instrs {
				st, ok := in.(*ssa.Store)
				if !ok {
					continue
				}
				base, path := addrBase(st.Addr)
				tn := namedTypeName(derefAll(base.Type()))
				if (tn != "LendAsset" && tn != "BorrowAsset") || len(path) != 1 {
					continue
				}
				switch path[0] {
				case "GlobalIndex":
					idx = append(idx, fs{st, base, path[0]})
				case "LastInteractionTime":
					if p.isBlockTimeCall(st.Val) {
						clk = append(clk, fs{st, base, path[0]})
					}
				}
			}
		}
		n := 0
		for _, s := range idx {
			n++
			r.Instance(rule)
			r.FuncsSeen[fname(fn)] = true
			construct := fmt.Sprintf("%s index refresh #%d", fname(fn), n)
			blocked := map[*ssa.BasicBlock]bool{}
			for _, c := range clk {
				if c.base == s.base {
					blocked[c.st.Block()] = true
				}
			}
			ok := false
			if blocked[s.st.Block()] {
				ok = true
			}
			for b := range blocked {
				if b.Dominates(s.st.Block()) {
					ok = true
				}
			}
			if !ok && len(blocked) > 0 {
				ok = true
				seen, _ := reach(fn, s.st.Block(), nil, blocked)
				for _, t := range p.successTargets(nil, fn, 0) {
					if seen[t] {
						ok = false
					}
				}
			}
			if ok {
				r.OK(rule, construct, "the position's LastInteractionTime is set to the block time on the same paths", p.instrPos(s.st))
			} else {
				r.Fail(rule, construct, "the position's accrual index is refreshed and the function can succeed without refreshing its accrual clock (LastInteractionTime = block time): the interval just charged is charged again by the next interaction", p.instrPos(s.st), nil)
			}
		}
	}
}

// accrualBaseRule (R18.7): the amount an accrual formula is applied to is not a field the
// same function credits: a base that the accrual itself increases compounds on every trigger,
// so triggering more often pays more than a single accrual over the same time.
func accrualBaseRule(p *Prog, r *Report, rule string) {
	r.Rule(rule, "lend: the base of an accrual formula is not a field the same function increases", 2)
	for _, fn := range p.Funcs {
		if moduleOf(fn) != "lend" || p.isAuxFn(fn) || len(fn.Blocks) == 0 || !strings.HasSuffix(fnPkgPath(fn), "/keeper") {
			continue
		}
		n := 0
		for _, c := range calls(fn) {
			sc := c.Common().StaticCallee()
			if sc == nil || !isComdexFn(sc) || !strings.HasPrefix(sc.Name(), "Calculate") || !(strings.HasSuffix(sc.Name(), "Interest") || strings.HasSuffix(sc.Name(), "Reward")) {
				continue
			}
			args := callArgs(c)
			if len(args) < 2 {
				continue
			}
			base := args[1]
			type fp struct {
				typ, field string
			}
			var fields []fp
			for _, o := range p.DeepOrigins(base) {
				if len(o.Path) == 0 {
					continue
				}
				for i := range o.Path {
					sub := o
					sub.Path = o.Path[:i+1]
					if tn := pathBaseTypeName(sub); tn == "LendAsset" || tn == "BorrowAsset" {
						fields = append(fields, fp{tn, o.Path[i]})
					}
				}
			}
			if len(fields) == 0 {
				continue
			}
			n++
			r.Instance(rule)
			r.FuncsSeen[fname(fn)] = true
			construct := fmt.Sprintf("%s base of %s #%d", fname(fn), sc.Name(), n)
			bad := ""
			for _, b := range fn.Blocks {
				for _, in := range b.Instrs {
					st, ok := in.(*ssa.Store)
					if !ok {
						continue
					}
					sb, path := addrBase(st.Addr)
					tn := namedTypeName(derefAll(sb.Type()))
					if len(path) == 0 {
						continue
					}
					op, recv, _, isAS := addSubOf(st.Val)
					if !isAS || op != "Add" {
						continue
					}
					for _, f := range fields {
						if f.typ == tn && f.field == path[0] && p.fromRecordFieldsLoose(recv, map[string]bool{tn: true}, map[string]bool{f.field: true}) {
							bad = tn + "." + f.field
						}
					}
				}
			}
			if bad == "" {
				r.OK(rule, construct, "the base is not increased by this function", p.instrPos(c))
			} else {
				r.Fail(rule, construct, "the accrual is computed on "+bad+", which this same function increases (by what was accrued): every trigger compounds, and triggering more often pays more than one accrual over the same time", p.instrPos(c), nil)
			}
		}
	}
}
