package main

import (
	"fmt"
	"go/token"
	"go/types"
	"sort"
	"strings"

	"golang.org/x/tools/go/ssa"
)

// directionUpdaterRule: a keeper function that keeps a published total and takes the
// direction as a bool parameter (UpdateTokenMintedAmountLockerMapping(…, amount, changeType)
// and its siblings) stores, for the two values of the flag, total+amount and total-amount of
// the very field it stores to and of its own amount parameter - nothing else (an increase whose
// result is dropped leaves the total unchanged and every limit compared with it is too loose).
func directionUpdaterRule(p *Prog, r *Report, rule string, mods map[string]bool, floor int) {
	r.Rule(rule, "direction-flag updaters store total+amount and total-amount of their own field and parameter, nothing else", floor)
	var fns []*ssa.Function
	for _, fn := range p.Funcs {
		if !mods[moduleOf(fn)] || p.isAuxFn(fn) || len(fn.Blocks) == 0 || fn.Signature.Recv() == nil || !strings.HasSuffix(fnPkgPath(fn), "/keeper") {
			continue
		}
		hasBool, hasAmt := false, false
		for _, pr := range fn.Params {
			if b, ok := pr.Type().Underlying().(interface{ Kind() int }); ok {
				_ = b
			}
			if pr.Type().String() == "bool" {
				hasBool = true
			}
			if strings.HasSuffix(pr.Type().String(), "math.Int") {
				hasAmt = true
			}
		}
		if hasBool && hasAmt && strings.HasPrefix(fn.Name(), "Update") {
			fns = append(fns, fn)
		}
	}
	sort.Slice(fns, func(i, j int) bool { return fname(fns[i]) < fname(fns[j]) })
	for _, fn := range fns {
		var amts []ssa.Value
		for _, pr := range fn.Params {
			if strings.HasSuffix(pr.Type().String(), "math.Int") {
				amts = append(amts, pr)
			}
		}
		isAmt := func(v ssa.Value) bool {
			for _, a := range amts {
				if v == a {
					return true
				}
			}
			return false
		}
		// alternatives of a stored value: phis and locals with several reaching definitions
		var expand func(v ssa.Value, d int, out *[]ssa.Value, seen map[ssa.Value]bool)
		expand = func(v ssa.Value, d int, out *[]ssa.Value, seen map[ssa.Value]bool) {
			if v == nil || seen[v] {
				return
			}
			seen[v] = true
			if d < 6 {
				if ph, ok := v.(*ssa.Phi); ok {
					for _, e := range ph.Edges {
						expand(e, d+1, out, seen)
					}
					return
				}
				if u, ok := v.(*ssa.UnOp); ok && u.Op == token.MUL {
					if a, isA := u.X.(*ssa.Alloc); isA {
						if defs, entry := reachingStores(a, nil, u); !entry && len(defs) > 0 {
							for _, dd := range defs {
								if dd.whole {
									expand(dd.st.Val, d+1, out, seen)
								} else {
									*out = append(*out, v)
									return
								}
							}
							return
						}
					}
				}
			}
			*out = append(*out, v)
		}
		n := 0
		fieldClasses := map[string]map[string]bool{}
		fieldPos := map[string]*ssa.Store{}
		defer func(fn *ssa.Function) {
			// both directions for every updated field: the flag selects between +amount and -amount
			// of ONE total (a subtract branch that works on a sibling field leaves this one without it)
			var fs []string
			for f := range fieldClasses {
				fs = append(fs, f)
			}
			sort.Strings(fs)
			for _, f := range fs {
				r.Instance(rule)
				construct := fmt.Sprintf("%s %s both directions", fname(fn), f)
				if fieldClasses[f]["Add"] && fieldClasses[f]["Sub"] {
					r.OK(rule, construct, "increase and decrease of the same field", p.instrPos(fieldPos[f]))
				} else {
					r.Fail(rule, construct, "only one direction of the flag updates this total (the other direction is applied to a different field): increases and decreases of one quantity are booked on two different totals", p.instrPos(fieldPos[f]), nil)
				}
			}
		}(fn)
		for _, b := range fn.Blocks {
			for _, in := range b.Instrs {
				st, ok := in.(*ssa.Store)
				if !ok || !strings.HasSuffix(st.Val.Type().String(), "math.Int") {
					continue
				}
				base, path := addrBase(st.Addr)
				if len(path) == 0 {
					continue
				}
				tn := namedTypeName(derefAll(base.Type()))
				if tn == "" || tn == "Int" || tn == "Coin" {
					continue
				}
				field := path[len(path)-1]
				var alts []ssa.Value
				expand(st.Val, 0, &alts, map[ssa.Value]bool{})
				// the arithmetic may sit in a pure helper of the package (adjust(current, amount, increase)):
				// its returns are the alternatives, its parameters stand for this call's arguments
				bind := map[ssa.Value]ssa.Value{}
				{
					var more []ssa.Value
					for _, a := range alts {
						c, isC := a.(*ssa.Call)
						if !isC {
							more = append(more, a)
							continue
						}
						h := c.Call.StaticCallee()
						if h == nil || h.Pkg != fn.Pkg || len(h.Blocks) == 0 || h.Signature.Results().Len() != 1 {
							more = append(more, a)
							continue
						}
						for i, pr := range h.Params {
							if i < len(c.Call.Args) {
								bind[pr] = c.Call.Args[i]
							}
						}
						for _, rt := range returns(h) {
							if len(rt.Results) == 1 {
								expand(rt.Results[0], 0, &more, map[ssa.Value]bool{})
							}
						}
					}
					alts = more
				}
				sub := func(v ssa.Value) ssa.Value {
					if b, ok := bind[v]; ok {
						return b
					}
					return v
				}
				classes := map[string]bool{}
				relevant := false
				for _, a := range alts {
					op, recv, x, isAS := addSubOf(a)
					recv, x = sub(recv), sub(x)
					if isAS && isAmt(x) && p.fromRecordFieldsLoose(recv, map[string]bool{tn: true}, map[string]bool{field: true}) {
						classes[op] = true
						relevant = true
						continue
					}
					classes["other:"+p.ExprKey(a)] = true
				}
				if !relevant {
					continue // not a direction update of this field
				}
				n++
				r.Instance(rule)
				r.FuncsSeen[fname(fn)] = true
				construct := fmt.Sprintf("%s %s.%s #%d", fname(fn), tn, field, n)
				var others []string
				for c := range classes {
					if strings.HasPrefix(c, "other:") {
						others = append(others, strings.TrimPrefix(c, "other:"))
					}
				}
				sort.Strings(others)
				for c := range classes {
					if fieldClasses[tn+"."+field] == nil {
						fieldClasses[tn+"."+field] = map[string]bool{}
						fieldPos[tn+"."+field] = st
					}
					fieldClasses[tn+"."+field][c] = true
				}
				if len(others) == 0 && (classes["Add"] || classes["Sub"]) {
					r.OK(rule, construct, "stores the field plus / minus the amount parameter", p.instrPos(st))
				} else {
					r.Fail(rule, construct, fmt.Sprintf("one direction of the update does not store the field changed by the amount (it stores %v): the published total stays where it was although coins moved, and the limits compared with it are applied to a wrong total", others), p.instrPos(st), nil)
				}
			}
		}
	}
}

// discardedArithmeticRule: the result of an immutable sdk-math operation (Int/Dec/Uint Add,
// Sub, Mul, Quo ...) is used. A statement `x.Add(y)` on its own changes nothing.
func discardedArithmeticRule(p *Prog, r *Report, rule string, mods map[string]bool, floor int) {
	r.Rule(rule, "no sdk-math result is computed and dropped (`x.Add(y)` as a statement)", floor)
	for _, fn := range p.Funcs {
		if !mods[moduleOf(fn)] || p.isAuxFn(fn) || len(fn.Blocks) == 0 {
			continue
		}
		n, total := 0, 0
		for _, c := range calls(fn) {
			call, ok := c.(*ssa.Call)
			if !ok {
				continue
			}
			sc := call.Call.StaticCallee()
			if sc == nil || !strings.HasPrefix(fullName(sc), "cosmossdk.io/math.") || sc.Signature.Recv() == nil {
				continue
			}
			switch sc.Name() {
			case "Add", "Sub", "Mul", "Quo", "AddRaw", "SubRaw", "MulRaw", "QuoRaw", "MulInt", "QuoInt", "MulTruncate", "QuoTruncate", "Neg":
			default:
				continue
			}
			total++
			if call.Referrers() != nil && len(*call.Referrers()) > 0 {
				continue // used
			}
			n++
			r.Instance(rule)
			r.FuncsSeen[fname(fn)] = true
			r.Fail(rule, fmt.Sprintf("%s dropped %s #%d", fname(fn), sc.Name(), n), "the result of an immutable sdk-math operation is dropped: the value it was meant to update keeps its old amount", p.instrPos(call), nil)
		}
		if total > 0 && n == 0 {
			r.Instance(rule)
			r.OK(rule, fname(fn)+" sdk-math results", fmt.Sprintf("all %d results are used", total), p.pos(fn.Pos()))
		}
	}
}

// initAccumulateRule: where one branch starts a running amount (rec.F = w, record not found
// yet) and its sibling branch adds to it (rec.F = rec.F.Add(v)), both book the same quantity:
// v and w are the same expression. An accumulate branch fed from another field registers a
// different amount for every item after the first.
func initAccumulateRule(p *Prog, r *Report, rule string, mods map[string]bool, floor int) {
	r.Rule(rule, "a running amount is started and continued with the same quantity (rec.F = w / rec.F = rec.F.Add(v): v is w)", floor)
	for _, fn := range p.Funcs {
		if !mods[moduleOf(fn)] || p.isAuxFn(fn) || len(fn.Blocks) == 0 || !strings.HasSuffix(fnPkgPath(fn), "/keeper") {
			continue
		}
		type fstore struct {
			st   *ssa.Store
			base ssa.Value
			path string
		}
		var stores []fstore
		for _, b := range fn.Blocks {
			for _, in := range b.Instrs {
				st, ok := in.(*ssa.Store)
				if !ok {
					continue
				}
				ts := st.Val.Type().String()
				if !strings.HasSuffix(ts, "math.Int") && !strings.HasSuffix(ts, "math.LegacyDec") {
					continue
				}
				base, path := addrBase(st.Addr)
				if _, isA := base.(*ssa.Alloc); !isA || len(path) == 0 {
					continue
				}
				stores = append(stores, fstore{st, base, strings.Join(path, ".")})
			}
		}
		n := 0
		for _, acc := range stores {
			op, recv, v, isAS := addSubOf(acc.st.Val)
			if !isAS || op != "Add" {
				continue
			}
			// the receiver is the field itself
			rb, rp := ssa.Value(nil), ""
			if u, ok := recv.(*ssa.UnOp); ok && u.Op == token.MUL {
				b2, p2 := addrBase(u.X)
				rb, rp = b2, strings.Join(p2, ".")
			}
			if rb != acc.base || rp != acc.path {
				continue
			}
			for _, ini := range stores {
				if ini.st == acc.st || ini.base != acc.base || ini.path != acc.path {
					continue
				}
				if _, _, _, isAS2 := addSubOf(ini.st.Val); isAS2 {
					continue
				}
				b1, b2 := ini.st.Block(), acc.st.Block()
				if b1 == b2 || b1.Dominates(b2) || b2.Dominates(b1) {
					continue
				}
				// siblings of one test: their nearest common dominator ends in an If whose two
				// successors lead to them
				c := b1.Idom()
				for c != nil && !c.Dominates(b2) {
					c = c.Idom()
				}
				if c == nil || len(c.Instrs) == 0 {
					continue
				}
				if _, isIf := c.Instrs[len(c.Instrs)-1].(*ssa.If); !isIf {
					continue
				}
				in0 := c.Succs[0] == b1 || c.Succs[0].Dominates(b1)
				in1 := c.Succs[1] == b2 || c.Succs[1].Dominates(b2)
				in0b := c.Succs[0] == b2 || c.Succs[0].Dominates(b2)
				in1b := c.Succs[1] == b1 || c.Succs[1].Dominates(b1)
				if !((in0 && in1) || (in0b && in1b)) {
					continue
				}
				if isZeroValue(ini.st.Val) {
					continue
				}
				n++
				r.Instance(rule)
				r.FuncsSeen[fname(fn)] = true
				construct := fmt.Sprintf("%s %s #%d", fname(fn), acc.path, n)
				same := allAltsIn(altKeys(p, v), flatten(altKeys(p, ini.st.Val)))
				if !same {
					// two calls of the same valuation helper over the same operands are the same quantity
					same = p.structKey(v, 0) == p.structKey(ini.st.Val, 0)
				}
				if same {
					r.OK(rule, construct, "started and continued with the same quantity", p.instrPos(acc.st))
				} else {
					r.Fail(rule, construct, fmt.Sprintf("the running amount is started with %v and continued with %v: every item after the first books a different quantity than the first", keysOf(p, ini.st.Val), keysOf(p, v)), p.instrPos(acc.st), nil)
				}
			}
		}
	}
}

// structKey: ExprKey, with calls of comdex functions rendered structurally (callee and the
// keys of the non-context arguments) instead of by call site.
func (p *Prog) structKey(v ssa.Value, d int) string {
	if c, ok := v.(*ssa.Call); ok && d < 4 {
		if sc := c.Call.StaticCallee(); sc != nil && isComdexFn(sc) {
			var parts []string
			for _, a := range c.Call.Args {
				ts := a.Type().String()
				if strings.HasSuffix(ts, "types.Context") || strings.HasSuffix(ts, "keeper.Keeper") {
					continue
				}
				parts = append(parts, p.structKey(a, d+1))
			}
			return sc.Name() + "(" + strings.Join(parts, ",") + ")"
		}
	}
	return p.ExprKey(v)
}

// positiveAmountRule: the stateless validation of a message rejects non-positive amounts.
// For every math.Int field of a message type of the given modules, ValidateBasic can succeed
// only through tests implying field >= 0 and field != 0 (one `!IsPositive()` test gives both).
// The keepers rely on it: a negative amount turns a withdrawal into an unbacked credit.
func positiveAmountRule(p *Prog, r *Report, rule string, mods map[string]bool, floor int) {
	r.Rule(rule, "ValidateBasic of a message rejects negative and zero amounts (every math.Int field)", floor)
	var fns []*ssa.Function
	for _, fn := range p.Funcs {
		if fn.Name() != "ValidateBasic" || fn.Signature.Recv() == nil || !mods[moduleOf(fn)] || len(fn.Blocks) == 0 || fn.Synthetic != "" {
			continue
		}
		if !strings.HasSuffix(fnPkgPath(fn), "/types") {
			continue
		}
		fns = append(fns, fn)
	}
	sort.Slice(fns, func(i, j int) bool { return fname(fns[i]) < fname(fns[j]) })
	for _, fn := range fns {
		recv := fn.Params[0]
		nt := namedOf(recv.Type())
		if nt == nil || !strings.HasPrefix(nt.Obj().Name(), "Msg") {
			continue
		}
		st, ok := nt.Underlying().(*types.Struct)
		if !ok {
			continue
		}
		for i := 0; i < st.NumFields(); i++ {
			f := st.Field(i)
			if !strings.HasSuffix(f.Type().String(), "math.Int") {
				continue
			}
			fieldName := f.Name()
			isField := func(v ssa.Value) bool {
				os := p.Origins(v)
				if len(os) == 0 {
					return false
				}
				for _, o := range os {
					if o.Kind != "param" || o.Val != ssa.Value(recv) || len(o.Path) != 1 || o.Path[0] != fieldName {
						return false
					}
				}
				return true
			}
			r.Instance(rule)
			r.FuncsSeen[fname(fn)] = true
			construct := fmt.Sprintf("%s %s > 0", fname(fn), fieldName)
			mk := func(name string, req Rel) *GuardSpec {
				g := p.cmpGuard(name, isField, isZeroValue, req)
				// the tests may sit in a validation helper of the package: validateAmount(m.Amount)
				g.CallPass = func(callee *ssa.Function, call ssa.CallInstruction) bool {
					if callee.Pkg != fn.Pkg || len(callee.Blocks) == 0 {
						return false
					}
					for i, a := range call.Common().Args {
						if i >= len(callee.Params) || !isField(a) {
							continue
						}
						pr := callee.Params[i]
						hg := p.cmpGuard(name, func(v ssa.Value) bool { return v == ssa.Value(pr) }, isZeroValue, req)
						if ok, _, _ := p.Guarded(hg, callee, nil); ok {
							return true
						}
					}
					return false
				}
				return g
			}
			g1 := mk(fieldName+" >= 0", RGE)
			g2 := mk(fieldName+" != 0", RNE)
			ok1, _, w1 := p.Guarded(g1, fn, nil)
			ok2, _, w2 := p.Guarded(g2, fn, nil)
			switch {
			case ok1 && ok2:
				r.OK(rule, construct, "validation succeeds only for a positive amount", p.pos(fn.Pos()))
			case !ok1:
				r.Fail(rule, construct, "the stateless validation accepts a negative "+fieldName+": the keeper's bounds (requested <= balance) hold for every negative request and its subtraction becomes an unbacked credit", p.pos(fn.Pos()), w1)
			default:
				r.Fail(rule, construct, "the stateless validation accepts a zero "+fieldName, p.pos(fn.Pos()), w2)
			}
		}
	}
}

// selfDecrementRule: what is left of a funded programme decreases from itself:
// rec.AvailableRewards = rec.AvailableRewards - paid. A remainder recomputed from another
// field (the original funding) forgets what earlier epochs paid and later epochs overpay.
func selfDecrementRule(p *Prog, r *Report, rule string, mods map[string]bool, field string, floor int) {
	r.Rule(rule, "the remaining balance of a programme ("+field+") is reduced from its own previous value", floor)
	for _, fn := range p.Funcs {
		if !mods[moduleOf(fn)] || p.isAuxFn(fn) || len(fn.Blocks) == 0 {
			continue
		}
		n := 0
		for _, b := range fn.Blocks {
			for _, in := range b.Instrs {
				st, ok := in.(*ssa.Store)
				if !ok {
					continue
				}
				base, path := addrBase(st.Addr)
				hit := false
				for _, seg := range path {
					if seg == field {
						hit = true
					}
				}
				if !hit {
					continue
				}
				op, recv, _, isAS := addSubOf(st.Val)
				if !isAS || op != "Sub" {
					continue
				}
				tn := namedTypeName(derefAll(base.Type()))
				n++
				r.Instance(rule)
				r.FuncsSeen[fname(fn)] = true
				construct := fmt.Sprintf("%s %s.%s reduction #%d", fname(fn), tn, field, n)
				if p.fromRecordFieldsLoose(recv, map[string]bool{tn: true}, map[string]bool{field: true}) {
					r.OK(rule, construct, "reduced from its own previous value", p.instrPos(st))
				} else {
					r.Fail(rule, construct, "the remaining balance is recomputed from another value ("+strings.Join(keysOf(p, recv), ", ")+") instead of its own previous value: what earlier epochs paid is forgotten and the programme pays out more than it was funded with", p.instrPos(st), nil)
				}
			}
		}
	}
}

// reserveSideRule: the liquidity module's convention is x = quote reserve, y = base reserve.
// At every call into the amm package whose parameters are named (rx, ry) or (x, y), an
// argument read from a Quote... source goes to the x parameter and one read from a Base...
// source to the y parameter.
func reserveSideRule(p *Prog, r *Report, rule string, floor int) {
	r.Rule(rule, "calls into the amm package pass quote-side values as x and base-side values as y", floor)
	sideOfParam := func(name string) string {
		switch name {
		case "rx", "x", "ax":
			return "Quote"
		case "ry", "y", "ay":
			return "Base"
		}
		return ""
	}
	for _, fn := range p.Funcs {
		if moduleOf(fn) != "liquidity" || p.isAuxFn(fn) || len(fn.Blocks) == 0 || !strings.HasSuffix(fnPkgPath(fn), "/keeper") {
			continue
		}
		for _, c := range calls(fn) {
			sc := c.Common().StaticCallee()
			if sc == nil || sc.Pkg == nil || !strings.HasSuffix(sc.Pkg.Pkg.Path(), "x/liquidity/amm") {
				continue
			}
			args := c.Common().Args
			for i, pr := range sc.Params {
				want := sideOfParam(pr.Name())
				if want == "" || i >= len(args) {
					continue
				}
				got := ""
				for _, o := range p.DeepOrigins(args[i]) {
					for _, seg := range o.Path {
						if strings.Contains(seg, "Quote") {
							got += "Q"
						}
						if strings.Contains(seg, "Base") {
							got += "B"
						}
					}
					if o.Kind == "call" {
						for _, a := range o.Call.Common().Args {
							if _, f, _, ok := fieldRead(a); ok {
								if strings.Contains(f, "Quote") {
									got += "Q"
								}
								if strings.Contains(f, "Base") {
									got += "B"
								}
							}
						}
					}
				}
				if got == "" || (strings.Contains(got, "Q") && strings.Contains(got, "B")) {
					continue // no side in the source names, or both: not decidable
				}
				r.Instance(rule)
				r.FuncsSeen[fname(fn)] = true
				construct := fmt.Sprintf("%s -> %s arg %s", fname(fn), sc.Name(), pr.Name())
				side := "Quote"
				if strings.Contains(got, "B") {
					side = "Base"
				}
				if side == want {
					r.OK(rule, construct, side+"-side value passed as "+pr.Name(), p.instrPos(c))
				} else {
					r.Fail(rule, construct, fmt.Sprintf("a %s-side value is passed as %s (the %s side): the two reserves are swapped, a pool with unequal reserves is valued / redeemed in the wrong proportion", side, pr.Name(), want), p.instrPos(c), nil)
				}
			}
		}
	}
}

// ignoredIDParamRule: a keeper function uses every identifier it is given. An id parameter
// that is never read means some lookup that should use it uses another id (the usual
// copy-and-paste slip `asset2 := GetAsset(id1)`).
func ignoredIDParamRule(p *Prog, r *Report, rule string, mods map[string]bool, floor int) {
	r.Rule(rule, "no uint64 id parameter of a keeper function is ignored", floor)
	for _, fn := range p.Funcs {
		if !mods[moduleOf(fn)] || p.isAuxFn(fn) || len(fn.Blocks) == 0 || fn.Signature.Recv() == nil || !strings.HasSuffix(fnPkgPath(fn), "/keeper") || fn.Synthetic != "" {
			continue
		}
		if namedTypeName(derefAll(fn.Signature.Recv().Type())) != "Keeper" {
			continue // interface-shaped servers (msgServer, queryServer) must keep their signatures
		}
		for _, pr := range fn.Params {
			if !isUint64(pr.Type()) || pr.Name() == "_" || pr.Name() == "" {
				continue
			}
			r.Instance(rule)
			construct := fmt.Sprintf("%s parameter %s", fname(fn), pr.Name())
			if pr.Referrers() != nil && len(*pr.Referrers()) > 0 {
				r.OK(rule, construct, "used", p.pos(fn.Pos()))
				continue
			}
			if why, ok := ignoredParamOK[construct]; ok {
				r.Note("%s exception %s: %s", rule, construct, why)
				continue
			}
			r.FuncsSeen[fname(fn)] = true
			r.Fail(rule, construct, "the function never reads this id: a record that should be looked up under it is looked up under another id", p.pos(fn.Pos()), nil)
		}
	}
}

var ignoredParamOK = map[string]string{}

// flagSelectsListRule: a keeper function whose bool parameter selects which id list of a
// record is edited (lend ids / borrow ids) edits each list under exactly one value of that
// flag. A list store that is reached for both values means removing an id of one kind also
// removes the equal id of the other kind.
func flagSelectsListRule(p *Prog, r *Report, rule string, mods map[string]bool, floor int) {
	r.Rule(rule, "a bool parameter that selects an id list: every list edit sits under exactly one value of the flag", floor)
	for _, fn := range p.Funcs {
		if !mods[moduleOf(fn)] || p.isAuxFn(fn) || len(fn.Blocks) == 0 || fn.Signature.Recv() == nil || !strings.HasSuffix(fnPkgPath(fn), "/keeper") {
			continue
		}
		var flags []*ssa.Parameter
		for _, pr := range fn.Params {
			if pr.Type().String() == "bool" {
				flags = append(flags, pr)
			}
		}
		if len(flags) != 1 {
			continue
		}
		flag := flags[0]
		// the test(s) of the flag
		var tests []*ssa.BasicBlock
		for _, b := range fn.Blocks {
			if len(b.Instrs) == 0 {
				continue
			}
			if ifi, ok := b.Instrs[len(b.Instrs)-1].(*ssa.If); ok {
				c := ifi.Cond
				if u, isU := c.(*ssa.UnOp); isU && u.Op == token.NOT {
					c = u.X
				}
				if c == ssa.Value(flag) {
					tests = append(tests, b)
				}
			}
		}
		if len(tests) == 0 {
			continue
		}
		// stores into slice-typed fields of a record
		type ls struct {
			st    *ssa.Store
			field string
		}
		var lists []ls
		fieldsSeen := map[string]bool{}
		for _, b := range fn.Blocks {
			for _, in := range b.Instrs {
				st, ok := in.(*ssa.Store)
				if !ok {
					continue
				}
				if _, isSl := st.Val.Type().Underlying().(*types.Slice); !isSl {
					continue
				}
				_, path := addrBase(st.Addr)
				if len(path) != 1 || !strings.HasSuffix(path[0], "Ids") {
					continue
				}
				lists = append(lists, ls{st, path[0]})
				fieldsSeen[path[0]] = true
			}
		}
		if len(fieldsSeen) < 2 {
			continue // the flag does not choose between lists
		}
		for i, l := range lists {
			r.Instance(rule)
			r.FuncsSeen[fname(fn)] = true
			construct := fmt.Sprintf("%s %s edit #%d", fname(fn), l.field, i+1)
			under := false
			for _, t := range tests {
				// a true arm: entered only from the test (the merge point after an if without else is
				// dominated by the test too, but is reached for both values)
				arm := func(s *ssa.BasicBlock) bool {
					return len(s.Preds) == 1 && s.Preds[0] == t && (s == l.st.Block() || s.Dominates(l.st.Block()))
				}
				if arm(t.Succs[0]) != arm(t.Succs[1]) {
					under = true
				}
			}
			if under {
				r.OK(rule, construct, "under one value of "+flag.Name(), p.instrPos(l.st))
			} else {
				r.Fail(rule, construct, "the list is edited for both values of "+flag.Name()+": an id of the other kind that happens to be equal is removed (or added) as well, and the position it names drops out of the sweeps and statistics", p.instrPos(l.st), nil)
			}
		}
	}
}
