package main

import (
	"encoding/json"
	"flag"
	"fmt"
	"go/types"
	"os"
	"runtime/debug"
	"sort"
	"strconv"
	"strings"

	"golang.org/x/tools/go/ssa"
)

// ruleFuncs maps a property id to its rule set.
var ruleFuncs = map[string]func(p *Prog, r *Report){}

func register(id string, f func(p *Prog, r *Report)) {
	ruleFuncs[id] = func(p *Prog, r *Report) {
		f(p, r)
		genericFor(id, p, r)
	}
}

func main() {
	// The loaded program (all packages with syntax, SSA, provenance memos) is about 3 GB live; without a limit the heap grows to almost 5 GB on an
	// idle machine, which matters when many checks run side by side. A soft limit makes the
	// collector work earlier (GOMEMLIMIT in the environment overrides it).
	if os.Getenv("GOMEMLIMIT") == "" {
		debug.SetMemoryLimit(4 << 30)
	}
	prop := flag.String("prop", "", "property id (C01..C20)")
	tier := flag.String("tier", "quick", "quick|thorough")
	repo := flag.String("repo", "/repo", "repository root")
	dump := flag.String("dump", "", "debug: entries | fn:<name> | origins:<fn>")
	explain := flag.String("explain", "", "re-evaluate the rule instance recorded in a violation file")
	controlName := flag.String("control", "", "internal: run one positive control (overlay mutant) and print the findings as JSON")
	vdir := flag.String("verif", "/verif", "verification directory")
	seedDir := flag.String("seed", "", "internal: evaluate the property on the in-memory mutant of one seeded change directory")
	flag.Parse()
	verifDir = *vdir
	if t := os.Getenv("VERIF_TIER"); t == "quick" || t == "thorough" {
		*tier = t
	}
	var seed int64
	if s := os.Getenv("VERIF_SEED"); s != "" {
		seed, _ = strconv.ParseInt(s, 10, 64)
	}
	if *explain != "" {
		b, err := os.ReadFile(*explain)
		if err != nil {
			analysisError("cannot read %s: %v", *explain, err)
		}
		var f Finding
		if err := json.Unmarshal(b, &f); err != nil {
			analysisError("cannot parse %s: %v", *explain, err)
		}
		p, err := Load(*repo, nil)
		if err != nil {
			analysisError("load: %v", err)
		}
		r := NewReport(f.Property, "quick", seed)
		rf := ruleFuncs[f.Property]
		if rf == nil {
			analysisError("no rules for %s", f.Property)
		}
		rf(p, r)
		found := false
		for _, g := range r.Findings {
			if g.Rule == f.Rule && g.Construct == f.Construct {
				found = true
				fmt.Printf("STILL VIOLATED %s [%s] %s: %s\n", g.Pos, g.Rule, g.Construct, g.Message)
				for _, w := range g.Witness {
					fmt.Printf("    via %s\n", w)
				}
			}
		}
		if !found {
			fmt.Printf("not reproduced on the current tree: [%s] %s\n", f.Rule, f.Construct)
			os.Exit(0)
		}
		os.Exit(1)
	}
	if *dump == "controls" {
		for _, c := range controls {
			b, err := os.ReadFile(*repo + "/" + c.File)
			n := -1
			applies := false
			if err == nil {
				n = strings.Count(string(b), c.Find)
				cc := c
				applies = applyControl(&cc, string(b)) != ""
			}
			fmt.Printf("%s %-40s applies=%v occurrences=%d nth=%d %s\n", c.Prop, c.Name, applies, n, c.Nth, c.File)
		}
		return
	}
	if *controlName != "" {
		runControlChild(*repo, *prop, *controlName)
		return
	}
	if *seedDir != "" {
		runSeedChild(*repo, *prop, *seedDir)
		return
	}
	if *dump != "" {
		p, err := Load(*repo, nil)
		if err != nil {
			analysisError("load: %v", err)
		}
		doDump(p, *dump)
		return
	}
	rf := ruleFuncs[*prop]
	if rf == nil {
		var ids []string
		for k := range ruleFuncs {
			ids = append(ids, k)
		}
		sort.Strings(ids)
		fmt.Fprintf(os.Stderr, "unknown property %q; have %s\n", *prop, strings.Join(ids, " "))
		os.Exit(2)
	}
	r := NewReport(*prop, *tier, seed)
	p, err := Load(*repo, nil)
	if err != nil {
		analysisError("load: %v", err)
	}
	r.Info["packages_loaded"] = len(p.ByPath)
	r.Info["repo_functions"] = len(p.Funcs)
	func() {
		defer func() {
			if e := recover(); e != nil {
				analysisError("panic in rule evaluation: %v", e)
			}
		}()
		rf(p, r)
	}()
	if *tier == "thorough" {
		runControls(*repo, *prop, r)
		runSeedControls(*repo, *prop, r)
	}
	os.Exit(r.Finish(false))
}

func doDump(p *Prog, what string) {
	switch {
	case what == "entries":
		for _, e := range p.AllEntries() {
			fmt.Printf("%-14s %-16s %s\n", e.Kind, e.Module, e.Name)
		}
		for _, w := range p.WorkUnits() {
			fmt.Printf("unit           %s in %s closure=%s\n", p.instrPos(w.Call), fname(w.In), fname(w.Closure))
		}
	case strings.HasPrefix(what, "fn:"):
		f := p.Func(strings.TrimPrefix(what, "fn:"))
		if f == nil {
			fmt.Println("not found")
			return
		}
		f.WriteTo(os.Stdout)
		for _, rt := range returns(f) {
			fmt.Printf("return at %s kind=%d\n", p.instrPos(rt), exitKind(rt))
		}
	case what == "mapranges":
		ops := p.Reachable(func() []*ssa.Function {
			var rs []*ssa.Function
			for _, e := range p.AllEntries() {
				rs = append(rs, e.Fn)
			}
			return rs
		}(), func(f *ssa.Function) bool { return p.isAuxFn(f) })
		for _, f := range p.Funcs {
			for _, b := range f.Blocks {
				for _, in := range b.Instrs {
					if rg, ok := in.(*ssa.Range); ok {
						if _, isMap := rg.X.Type().Underlying().(*types.Map); isMap {
							fmt.Printf("%s %s reachable=%v aux=%v\n", p.instrPos(rg), fname(f), ops[f], p.isAuxFn(f))
						}
					}
				}
			}
		}
	case strings.HasPrefix(what, "names:"):
		sub := strings.TrimPrefix(what, "names:")
		for _, f := range p.Funcs {
			if strings.Contains(fname(f), sub) {
				fmt.Println(fname(f), f.Synthetic)
			}
		}
	}
}
