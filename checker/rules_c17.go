package main

import (
	"fmt"
	"go/token"
	"go/types"
	"sort"
	"strings"

	"golang.org/x/tools/go/ssa"
)

func init() { register("C17", rulesC17) }

func rulesC17(p *Prog, r *Report) {
	r.Explanation = "Decides the structural part of 'oracle price averaging is exact and activates only on a full window': (R17.1) the valuation API of the market keeper reads Twa / PriceValue of a stored record only under found && IsPriceActive and otherwise returns an error; (R17.2) IsPriceActive is set to true only behind a window-full comparison (len(PriceValue) >= N, or CurrentIndex >= N after an append); (R17.3) ring discipline: after every CurrentIndex+1 the record is stored only behind a wrap test whose two outcomes are 'index < N' or 'index >= N followed by a reset to 0' (an off-by-one `>` leaves an outcome that is neither), and PriceValue is shrunk only together with CurrentIndex = 0 and IsPriceActive = false; (R17.4) the window sum is not accumulated in a fixed-width integer. That the published value equals the integer mean for every sequence is NOT decided."
	r.Assumptions = []string{"TwaBatchSize >= 1 (validated at proposal time; the property quantifies over N >= 1)"}
	ops := p.operationalFns()
	setTwa := p.MustFunc("x/market/keeper.Keeper.SetTwa")
	setMay := p.NewMay(func(c ssa.CallInstruction, callee *ssa.Function) bool { return callee == setTwa })

	var marketFns []*ssa.Function
	for _, fn := range p.Funcs {
		if moduleOf(fn) == "market" && !p.isAuxFn(fn) && fn.Synthetic == "" && (ops[fn] || strings.Contains(fnPkgPath(fn), "/keeper")) {
			marketFns = append(marketFns, fn)
		}
	}
	sort.Slice(marketFns, func(i, j int) bool { return fname(marketFns[i]) < fname(marketFns[j]) })

	// R17.1 ------------------------------------------------------------------------
	r.Rule("R17.1", "valuation API reads Twa/PriceValue only under found && IsPriceActive", 2)
	for _, fn := range marketFns {
		if setMay.Fn(fn) || strings.Contains(fname(fn), "query") || strings.Contains(fname(fn), "Query") {
			continue // the pipeline itself / read-only queries that report the raw record
		}
		for _, b := range fn.Blocks {
			for _, in := range b.Instrs {
				v, ok := in.(ssa.Value)
				if !ok {
					continue
				}
				t, f, base, isRead := fieldRead(v)
				if !isRead || t != "TimeWeightedAverage" || (f != "Twa" && f != "PriceValue") {
					continue
				}
				var gcalls []*ssa.Call
				for _, o := range p.Origins(base) {
					if o.Kind == "call" && len(o.Path) == 0 && (p.callIs(o.Call, "GetTwa") || (o.Index == 0 && p.isGuardedTwaGetterCall(o.Call))) {
						gcalls = append(gcalls, o.Call)
					}
				}
				if len(gcalls) == 0 {
					continue
				}
				r.Instance("R17.1")
				r.FuncsSeen[fname(fn)] = true
				construct := fname(fn) + " read " + f
				bad := ""
				var wit []string
				for _, gs := range twaGuards(p, gcalls) {
					if ok, _, w := p.guardedTargets(gs, fn, []*ssa.BasicBlock{b}, 0); !ok {
						bad, wit = gs.Name, w
						break
					}
				}
				if bad != "" {
					r.Fail("R17.1", construct, "a consumer-facing valuation reads the stored price without "+bad+": an inactive (stale) price is served instead of an error", p.instrPos(in), wit)
					continue
				}
				// the other outcome must be an error: every success exit passes the guards too
				allGuarded := true
				for _, gs := range twaGuards(p, gcalls) {
					if ok, _, _ := p.Guarded(gs, fn, nil); !ok {
						allGuarded = false
					}
				}
				if !allGuarded && errResultIndex(fn) >= 0 {
					r.Fail("R17.1", construct, "the valuation can return successfully without found && IsPriceActive (no error for an inactive price)", p.instrPos(in), nil)
				} else {
					r.OK("R17.1", construct, "read and success only under found && IsPriceActive", p.instrPos(in))
				}
			}
		}
	}

	// pipeline functions: those that modify a TimeWeightedAverage and store it
	var pipeline []*ssa.Function
	for _, fn := range marketFns {
		if len(fieldStores(fn, "TimeWeightedAverage", "IsPriceActive")) > 0 || len(fieldStores(fn, "TimeWeightedAverage", "CurrentIndex")) > 0 {
			pipeline = append(pipeline, fn)
		}
	}
	isIdx := func(v ssa.Value) bool {
		t, f, _, ok := fieldRead(v)
		if ok && t == "TimeWeightedAverage" && f == "CurrentIndex" {
			return true
		}
		if c, ok := v.(*ssa.Convert); ok {
			t, f, _, ok := fieldRead(c.X)
			return ok && t == "TimeWeightedAverage" && f == "CurrentIndex"
		}
		return false
	}
	isLen := func(v ssa.Value) bool {
		if c, ok := v.(*ssa.Convert); ok {
			v = c.X
		}
		call, ok := v.(*ssa.Call)
		if !ok {
			return false
		}
		if bi, ok := call.Call.Value.(*ssa.Builtin); ok && bi.Name() == "len" && len(call.Call.Args) == 1 {
			t, f, _, ok := fieldRead(call.Call.Args[0])
			return ok && t == "TimeWeightedAverage" && f == "PriceValue"
		}
		return false
	}
	isN := func(fn *ssa.Function) func(ssa.Value) bool {
		return func(v ssa.Value) bool {
			if c, ok := v.(*ssa.Convert); ok {
				v = c.X
			}
			pr, ok := v.(*ssa.Parameter)
			return ok && pr.Parent() == fn && strings.Contains(strings.ToLower(pr.Name()), "batch")
		}
	}

	// R17.2 ------------------------------------------------------------------------
	r.Rule("R17.2", "IsPriceActive = true only behind a window-full comparison", 2)
	for _, fn := range pipeline {
		n := 0
		for _, st := range fieldStores(fn, "TimeWeightedAverage", "IsPriceActive") {
			b, isC := constBool(st.Val)
			if !isC || !b {
				if !isC {
					r.Instance("R17.2")
					r.Fail("R17.2", fname(fn)+" IsPriceActive non-constant store", "IsPriceActive is assigned a computed value: activation cannot be tied to a full window", p.instrPos(st), nil)
				}
				continue
			}
			n++
			r.Instance("R17.2")
			r.FuncsSeen[fname(fn)] = true
			construct := fmt.Sprintf("%s activation #%d", fname(fn), n)
			nf := isN(fn)
			g := &GuardSpec{Name: "window full (len(PriceValue) >= N or CurrentIndex >= N)", Local: func(f *ssa.Function, cond ssa.Value) (bool, bool) {
				x, y, onT, onF, ok := p.CmpRel(cond)
				if !ok || x == nil || y == nil {
					return false, false
				}
				switch {
				case (isLen(x) || isIdx(x)) && nf(y):
				case (isLen(y) || isIdx(y)) && nf(x):
					onT, onF = onT.mirror(), onF.mirror()
				default:
					return false, false
				}
				return onT.subsetOf(RGE), onF.subsetOf(RGE)
			}}
			if ok, w := p.GuardedSite(g, st); ok {
				r.OK("R17.2", construct, "activation only behind a window-full edge", p.instrPos(st))
			} else {
				r.Fail("R17.2", construct, "the price can be activated without the window being full (fewer than N positive samples)", p.instrPos(st), w)
			}
		}
	}

	// R17.3 ------------------------------------------------------------------------
	r.Rule("R17.3", "ring discipline: increment -> wrap test (< N | >= N with reset) -> store; shrink only with reset", 3)
	for _, fn := range pipeline {
		nf := isN(fn)
		wrap := &GuardSpec{Name: "wrap test", Local: func(f *ssa.Function, cond ssa.Value) (bool, bool) {
			x, y, onT, onF, ok := p.CmpRel(cond)
			if !ok || x == nil || y == nil {
				return false, false
			}
			switch {
			case isIdx(x) && nf(y):
			case isIdx(y) && nf(x):
				onT, onF = onT.mirror(), onF.mirror()
			default:
				return false, false
			}
			// the block ending in this test
			var blk *ssa.BasicBlock
			for _, b := range f.Blocks {
				if ifi, ok := b.Instrs[len(b.Instrs)-1].(*ssa.If); ok && ifi.Cond == cond {
					blk = b
				}
			}
			resets := func(s *ssa.BasicBlock) bool {
				for _, in := range s.Instrs {
					if st, ok := in.(*ssa.Store); ok {
						if fa, ok := st.Addr.(*ssa.FieldAddr); ok && fieldName(fa.X.Type(), fa.Field) == "CurrentIndex" && isZeroValue(st.Val) {
							return true
						}
					}
				}
				return false
			}
			passEdge := func(rel Rel, succ *ssa.BasicBlock) bool {
				if rel.subsetOf(RLT) {
					return true
				}
				if rel.subsetOf(RGE) && succ != nil && resets(succ) {
					return true
				}
				return false
			}
			var sT, sF *ssa.BasicBlock
			if blk != nil {
				sT, sF = blk.Succs[0], blk.Succs[1]
			}
			return passEdge(onT, sT), passEdge(onF, sF)
		}}
		// a pure helper that wraps the cursor: wrap(index, n) returns 0 on index >= n and index otherwise
		isWrapCall := func(v ssa.Value) bool {
			c, ok := v.(*ssa.Call)
			if !ok {
				return false
			}
			h := c.Call.StaticCallee()
			if h == nil || h.Pkg != fn.Pkg || len(h.Blocks) == 0 || len(h.Params) != 2 || len(c.Call.Args) != 2 {
				return false
			}
			if !nf(c.Call.Args[1]) {
				return false
			}
			a0 := c.Call.Args[0]
			if bo, isBo := a0.(*ssa.BinOp); isBo && bo.Op == token.ADD {
				a0 = bo.X
			}
			if !isIdx(a0) {
				return false
			}
			nRet := 0
			for _, b := range h.Blocks {
				rt, isRt := b.Instrs[len(b.Instrs)-1].(*ssa.Return)
				if !isRt || len(rt.Results) != 1 {
					continue
				}
				nRet++
				// the edge into this return block
				if len(b.Preds) != 1 {
					return false
				}
				pb := b.Preds[0]
				ifi, isIf := pb.Instrs[len(pb.Instrs)-1].(*ssa.If)
				if !isIf {
					return false
				}
				x, y, onT, onF, isCmp := p.CmpRel(ifi.Cond)
				if !isCmp || x == nil || y == nil {
					return false
				}
				switch {
				case x == ssa.Value(h.Params[0]) && y == ssa.Value(h.Params[1]):
				case y == ssa.Value(h.Params[0]) && x == ssa.Value(h.Params[1]):
					onT, onF = onT.mirror(), onF.mirror()
				default:
					return false
				}
				rel := onF
				if pb.Succs[0] == b {
					rel = onT
				}
				switch {
				case isZeroValue(rt.Results[0]) && rel.subsetOf(RGE):
				case rt.Results[0] == ssa.Value(h.Params[0]) && rel.subsetOf(RLT):
				default:
					return false
				}
			}
			return nRet == 2
		}
		wrapBlocks := map[*ssa.BasicBlock]bool{}
		for _, st := range fieldStores(fn, "TimeWeightedAverage", "CurrentIndex") {
			if isWrapCall(st.Val) {
				wrapBlocks[st.Block()] = true
			}
		}
		n := 0
		for _, st := range fieldStores(fn, "TimeWeightedAverage", "CurrentIndex") {
			if isWrapCall(st.Val) {
				n++
				r.Instance("R17.3")
				r.FuncsSeen[fname(fn)] = true
				r.OK("R17.3", fmt.Sprintf("%s cursor wrapped #%d", fname(fn), n), "the cursor is passed through a helper that returns it below N or 0", p.instrPos(st))
				continue
			}
			bo, ok := st.Val.(*ssa.BinOp)
			isOne := false
			if c, isC := st.Val.(*ssa.Const); isC && c.Value != nil && c.Value.ExactString() == "1" {
				isOne = true // first sample of a new record: cursor 1 is outside a window of one
			}
			if (!ok || bo.Op != token.ADD) && !isOne {
				if !isZeroValue(st.Val) {
					r.Instance("R17.3")
					r.Fail("R17.3", fname(fn)+" CurrentIndex assignment", "CurrentIndex is assigned something other than 0, 1 or CurrentIndex+1", p.instrPos(st), nil)
				}
				continue
			}
			n++
			r.Instance("R17.3")
			r.FuncsSeen[fname(fn)] = true
			construct := fmt.Sprintf("%s increment #%d", fname(fn), n)
			if isOne {
				construct = fmt.Sprintf("%s cursor set to 1 #%d", fname(fn), n)
			}
			pass, _ := p.PassEdges(wrap, fn, 0)
			cut := map[Edge]bool{}
			for e := range pass {
				cut[e] = true
			}
			blockedW := map[*ssa.BasicBlock]bool{}
			for b := range wrapBlocks {
				if b != st.Block() {
					blockedW[b] = true
				}
			}
			seen, par := reach(fn, st.Block(), cut, blockedW)
			bad := ""
			var wit []string
			// SetTwa later in the same block without any test
			after := false
			wrappedHere := false
			for _, in := range st.Block().Instrs {
				if in == st {
					after = true
					continue
				}
				if s2, ok := in.(*ssa.Store); ok && after && isWrapCall(s2.Val) {
					wrappedHere = true
				}
				if c, ok := in.(ssa.CallInstruction); ok && after && !wrappedHere && p.callIsFn(c, setTwa) {
					bad = p.instrPos(c)
				}
			}
			if wrappedHere {
				seen = map[*ssa.BasicBlock]bool{}
			}
			for _, c := range calls(fn) {
				if p.callIsFn(c, setTwa) && c.Block() != st.Block() && seen[c.Block()] {
					bad = p.instrPos(c)
					wit = p.witness(par, c.Block())
				}
			}
			if bad == "" {
				r.OK("R17.3", construct, "the incremented cursor is stored only behind index < N or index >= N with reset", p.instrPos(st))
			} else {
				r.Fail("R17.3", construct, "after CurrentIndex+1 the record can be stored (at "+bad+") with a cursor that was neither shown to be < N nor reset after >= N: the cursor can leave the window (index out of range on the next sample or query)", p.instrPos(st), wit)
			}
		}
		// shrink discipline
		for _, st := range fieldStores(fn, "TimeWeightedAverage", "PriceValue") {
			if _, isSlice := st.Val.(*ssa.Slice); !isSlice {
				continue
			}
			r.Instance("R17.3")
			construct := fname(fn) + " window shrink @" + blockOrdinal(st.Block())
			idx0, inactive := false, false
			// same straight-line region: same block or a block dominated by it without branches in between
			region := []*ssa.BasicBlock{st.Block()}
			for _, b := range region {
				for _, in := range b.Instrs {
					if s2, ok := in.(*ssa.Store); ok {
						if fa, ok := s2.Addr.(*ssa.FieldAddr); ok && namedTypeName(fa.X.Type()) == "TimeWeightedAverage" {
							switch fieldName(fa.X.Type(), fa.Field) {
							case "CurrentIndex":
								if isZeroValue(s2.Val) {
									idx0 = true
								}
							case "IsPriceActive":
								if bv, isC := constBool(s2.Val); isC && !bv {
									inactive = true
								}
							}
						}
					}
				}
			}
			if idx0 && inactive {
				r.OK("R17.3", construct, "window emptied together with CurrentIndex = 0 and IsPriceActive = false", p.instrPos(st))
			} else {
				r.Fail("R17.3", construct, fmt.Sprintf("the sample window is shrunk without resetting the cursor (%v) and deactivating the price (%v) in the same step", idx0, inactive), p.instrPos(st), nil)
			}
		}
	}

	// R17.6 consumers outside the market module ----------------------------------------
	{
		mods := map[string]bool{}
		for _, fn := range p.Funcs {
			if m := moduleOf(fn); m != "" && m != "market" {
				mods[m] = true
			}
		}
		priceDisciplineX(p, r, "R17.6", mods, 4, true)
	}

	// R17.5 the mean is narrowed, not the sum ---------------------------------------------
	r.Rule("R17.5", "the wide window sum is divided before it is narrowed to 64 bits", 1)
	{
		calc0 := p.MustFunc("x/market/keeper.Keeper.CalculateTwa")
		calc := calc0
		// loop-carried accumulators of a non-basic (wide) type (the mean may sit in a pure helper)
		acc := map[ssa.Value]bool{}
		var calcCalls []ssa.CallInstruction
		for _, f := range p.withSamePkgHelpers(calc0) {
			for _, l := range loopsOf(f) {
				for _, in := range l.Head.Instrs {
					if ph, ok := in.(*ssa.Phi); ok {
						if _, isBasic := ph.Type().Underlying().(*types.Basic); !isBasic {
							acc[ph] = true
						}
					}
				}
			}
			calcCalls = append(calcCalls, calls(f)...)
		}
		n := 0
		for _, c := range calcCalls {
			call, ok := c.(*ssa.Call)
			if !ok || len(call.Call.Args) != 1 {
				continue
			}
			nm := calleeShortName(&call.Call)
			if nm != "Uint64" && nm != "Int64" {
				continue
			}
			// walk the receiver back to the accumulator; a Quo* call on the way is the division
			divided, fromAcc := false, false
			seen := map[ssa.Value]bool{}
			var walk func(v ssa.Value, div bool, d int)
			walk = func(v ssa.Value, div bool, d int) {
				if v == nil || seen[v] || d > 10 {
					return
				}
				seen[v] = true
				if acc[v] {
					fromAcc = true
					if div {
						divided = true
					} else {
						divided = false
					}
					return
				}
				if cc, ok := v.(*ssa.Call); ok && len(cc.Call.Args) > 0 {
					walk(cc.Call.Args[0], div || strings.HasPrefix(calleeShortName(&cc.Call), "Quo"), d+1)
				}
			}
			walk(call.Call.Args[0], false, 0)
			if !fromAcc {
				continue
			}
			n++
			r.Instance("R17.5")
			r.FuncsSeen[fname(calc)] = true
			construct := fmt.Sprintf("%s narrowing #%d", fname(calc), n)
			if divided {
				r.OK("R17.5", construct, "the quotient is narrowed", p.instrPos(c))
			} else {
				r.Fail("R17.5", construct, "the window sum itself is narrowed to 64 bits before the division: a window of large samples overflows (panic or wrap) although its mean fits", p.instrPos(c), nil)
			}
		}
	}

	// R17.4 ------------------------------------------------------------------------
	r.Rule("R17.4", "the window sum is not accumulated in a fixed-width integer", 1)
	calcTwa := p.MustFunc("x/market/keeper.Keeper.CalculateTwa")
	{
		r.Instance("R17.4")
		r.FuncsSeen[fname(calcTwa)] = true
		bad := ""
		var calcLoops []*Loop
		for _, f := range p.withSamePkgHelpers(calcTwa) {
			calcLoops = append(calcLoops, loopsOf(f)...)
		}
		for _, l := range calcLoops {
			for _, in := range l.Head.Instrs {
				ph, ok := in.(*ssa.Phi)
				if !ok {
					continue
				}
				bt, isBasic := ph.Type().Underlying().(*types.Basic)
				if !isBasic || bt.Info()&types.IsInteger == 0 {
					continue
				}
				for i, e := range ph.Edges {
					if !l.Body[l.Head.Preds[i]] {
						continue
					}
					if bo, ok := e.(*ssa.BinOp); ok && bo.Op == token.ADD {
						for _, opnd := range []ssa.Value{bo.X, bo.Y} {
							if u, ok := opnd.(*ssa.UnOp); ok && u.Op == token.MUL {
								if ia, ok := u.X.(*ssa.IndexAddr); ok {
									if t, f, _, ok := fieldRead(ia.X); ok && t == "TimeWeightedAverage" && f == "PriceValue" {
										bad = p.instrPos(bo)
									}
									if _, isParam := ia.X.(*ssa.Parameter); isParam {
										bad = p.instrPos(bo) // the sample slice handed to a helper
									}
								}
							}
						}
					}
				}
			}
		}
		if bad == "" {
			r.OK("R17.4", fname(calcTwa), "no fixed-width accumulation of window samples", p.pos(calcTwa.Pos()))
		} else {
			r.Fail("R17.4", fname(calcTwa), "the window samples are summed in a fixed-width integer: maximal uint64 samples wrap and the published price is not their mean", bad, nil)
		}
	}
}

func blockOrdinal(b *ssa.BasicBlock) string { return itoa(b.Index) }
