package main

import (
	"fmt"
	"go/token"
	"sort"
	"strings"

	"golang.org/x/tools/go/ssa"
)

func init() { register("C09", rulesC09) }

// callFromOrigins: all shallow origins of v are result #idx of a call to a function with
// the given method/function name.
func (p *Prog) allOriginsAreCall(v ssa.Value, name string, idx int) bool {
	os := p.Origins(v)
	if len(os) == 0 {
		return false
	}
	for _, o := range os {
		if !(o.Kind == "call" && o.Index == idx && len(o.Path) == 0 && p.callIs(o.Call, name)) {
			return false
		}
	}
	return true
}

func rulesC09(p *Prog, r *Report) {
	r.Explanation = "Decides the structural part of 'liquidation is safe and live': (R09.1) every seizure site of both liquidation generations (sweeps and liquidate messages share the code) is reachable only through an edge implying ratio < liquidation ratio for vaults (ratio from the vault module's CalculateCollateralizationRatio over the vault's own recorded collateral and total debt, limit = the product's MinCr) or ratio > threshold for borrows (ratio from the lend module's CalculateCollateralizationRatio over the borrow's own recorded amounts, threshold from the asset's rate parameters; a bridged-asset factor must be the one of the transit asset the branch tests for); (R09.2) seizure moves exactly the recorded collateral and cannot succeed without the auction activator having succeeded; (R09.3) sweeps: the per-item loop is left only through its header, the offset is stored after the loop under the key it was read from, wraps to zero when the window is empty and is advanced to the window end; (R09.4) per-item units isolate their writes. It does not decide the numeric ratio nor the two-sweeps bound."
	r.Assumptions = []string{"interface calls resolve to comdex implementations", "CacheContext/ApplyFuncIfNoError semantics (checked by C15)"}

	v1CLV := p.MustFunc("x/liquidation/keeper.Keeper.CreateLockedVault")
	v1CLB := p.MustFunc("x/liquidation/keeper.Keeper.CreateLockedBorrow")
	v2CLV := p.MustFunc("x/liquidationsV2/keeper.Keeper.CreateLockedVault")
	v2ULB := p.MustFunc("x/liquidationsV2/keeper.Keeper.UpdateLockedBorrows")

	// R09.1 ------------------------------------------------------------------------
	r.Rule("R09.1", "seizure only through ratio < MinCr (vaults) / ratio > threshold (borrows), ratio over the position's own record", 10)
	isVaultRatio := func(v ssa.Value) bool { return p.allOriginsAreCall(v, "CalculateCollateralizationRatio", 0) }
	isMinCr := func(v ssa.Value) bool { return p.originHasField(v, "ExtendedPairVault", "MinCr") }
	vaultGuard := p.cmpGuard("ratio < liquidation ratio (MinCr)", isVaultRatio, isMinCr, RLT)
	isThreshold := func(v ssa.Value) bool {
		if !(p.originHasField(v, "AssetRatesParams", "LiquidationThreshold") || p.originHasField(v, "AssetRatesParams", "ELiquidationThreshold")) {
			return false
		}
		// and nothing else of the rate parameters (an LTV is not a liquidation threshold)
		for _, o := range p.DeepOrigins(v) {
			if len(o.Path) == 0 || pathBaseTypeName(o) != "AssetRatesParams" {
				continue
			}
			if f := o.Path[len(o.Path)-1]; f != "LiquidationThreshold" && f != "ELiquidationThreshold" {
				return false
			}
		}
		return true
	}
	borrowGuard := p.cmpGuard("ratio > liquidation threshold", isVaultRatio, isThreshold, RGT)

	type site struct {
		fn    *ssa.Function
		kind  string
		guard *GuardSpec
	}
	for _, st := range []site{{v1CLV, "vault", vaultGuard}, {v2CLV, "vault", vaultGuard}, {v1CLB, "borrow", borrowGuard}, {v2ULB, "borrow", borrowGuard}} {
		n := map[string]int{}
		for _, cs := range p.CallSitesOf(st.fn) {
			caller := cs.Parent()
			cname := fname(caller)
			// V2 CreateLockedVault is also the auction starter for borrows / surplus / debt: only the vault seizure is ratio-guarded here
			if st.fn == v2CLV && !strings.HasSuffix(cname, ".LiquidateIndividualVault") {
				continue
			}
			base := fmt.Sprintf("%s -> %s", cname, st.fn.Name())
			n[base]++
			construct := base
			if n[base] > 1 {
				construct = fmt.Sprintf("%s #%d", base, n[base])
			}
			r.Instance("R09.1")
			r.FuncsSeen[cname] = true
			if cname == "x/liquidationsV2/keeper.Keeper.MsgLiquidateExternal" {
				continue
			}
			ok, w := p.GuardedSite(st.guard, cs)
			if !ok {
				r.Fail("R09.1", construct, "a position can be seized without the comparison "+st.guard.Name+" having been passed in that direction (safe positions may be liquidated)", p.instrPos(cs), w)
				continue
			}
			// provenance of the ratio's operands: the position's own recorded amounts
			bad := ""
			for _, b := range caller.Blocks {
				for _, in := range b.Instrs {
					c, isCall := in.(*ssa.Call)
					if !isCall || !p.callIs(c, "CalculateCollateralizationRatio") {
						continue
					}
					args := callArgs(c)
					if st.kind == "vault" && len(args) >= 4 {
						if !p.onlyRecordFields(args[2], "Vault", map[string]bool{"AmountIn": true}) {
							bad = "the collateral amount passed to the ratio computation is not the vault's recorded AmountIn"
						}
						if !p.onlyRecordFields(args[3], "Vault", map[string]bool{"AmountOut": true, "InterestAccumulated": true, "ClosingFeeAccumulated": true}) {
							bad = "the debt passed to the ratio computation is not built from the vault's recorded principal, interest and closing fee only"
						}
						// ... and from all three of them: a vault that is unsafe only once interest or the
						// closing fee is counted must be seized
						for _, need := range []string{"AmountOut", "InterestAccumulated", "ClosingFeeAccumulated"} {
							if !p.fromRecordFieldsLoose(args[3], map[string]bool{"Vault": true}, map[string]bool{need: true}) {
								bad = "the debt that decides the seizure leaves out the vault's " + need
							}
						}
					}
					if st.kind == "borrow" && len(args) >= 5 {
						if !p.onlyRecordFields(args[1], "BorrowAsset", map[string]bool{"AmountIn": true, "Amount": true}) {
							bad = "the collateral amount passed to the ratio computation is not the borrow's recorded AmountIn"
						}
						if !p.onlyRecordFields(args[3], "BorrowAsset", map[string]bool{"AmountOut": true, "Amount": true, "InterestAccumulated": true}) {
							bad = "the debt passed to the ratio computation is not built from the borrow's recorded AmountOut and InterestAccumulated only"
						}
					}
				}
			}
			if bad != "" {
				r.Fail("R09.1", construct, bad, p.instrPos(cs), nil)
				continue
			}
			// bridged-asset factor consistency (borrows)
			if st.kind == "borrow" {
				if why := p.bridgedFactorMismatch(caller, cs); why != "" {
					r.Fail("R09.1", construct, why, p.instrPos(cs), nil)
					continue
				}
			}
			r.OK("R09.1", construct, "reachable only through "+st.guard.Name+"; ratio computed from the position's own record", p.instrPos(cs))
		}
	}

	// R09.10 the sweep window is bounded by the vault length counter: a vault created without the
	// counter moving is never inside the window (same rule as C01's counter balance)
	vaultCounterBalanceRule(p, r, "R09.10")

	accessorKeyRule(p, r, "R09.11", map[string]bool{"liquidation": true, "liquidationsV2": true}, 10)

	// R09.8 sweep cursors do not collide ------------------------------------------------------
	// Each sweep keeps its offset in a record (prefix, id). Two different sweeps invoked with the
	// same constant id under the same prefix share one cursor: each starts where the other list's
	// sweep ended and some positions are never visited.
	r.Rule("R09.8", "different sweeps keep their offsets under different (prefix, id) keys", 2)
	{
		type use struct {
			fn  *ssa.Function
			pos string
		}
		keys := map[string][]use{}
		for _, fn := range p.Funcs {
			m := moduleOf(fn)
			if (m != "liquidationsV2" && m != "liquidation") || p.isAuxFn(fn) {
				continue
			}
			for _, c := range calls(fn) {
				if !p.callIs(c, "GetLiquidationOffsetHolder") {
					continue
				}
				prefix := ""
				var idVals []ssa.Value
				for _, a := range callArgs(c) {
					if isUint64(a.Type()) {
						idVals = append(idVals, a)
					} else if u, ok := a.(*ssa.UnOp); ok {
						if g, isG := u.X.(*ssa.Global); isG {
							prefix = g.Name()
						}
					} else if sv, ok := constString(a); ok {
						prefix = sv
					}
				}
				if prefix == "" || len(idVals) != 1 {
					continue
				}
				// the sweep is the function that receives the constant id (the read may sit in a
				// helper that is handed the sweep's own parameter)
				type res struct {
					fn *ssa.Function
					k  string
				}
				var out []res
				var resolve func(f *ssa.Function, v ssa.Value, d int)
				resolve = func(f *ssa.Function, v ssa.Value, d int) {
					if cv, ok := v.(*ssa.Convert); ok {
						v = cv.X
					}
					switch x := v.(type) {
					case *ssa.Const:
						if x.Value != nil {
							out = append(out, res{f, x.Value.ExactString()})
						}
					case *ssa.Parameter:
						if d > 3 {
							return
						}
						idx := paramIndex(x)
						for _, cs := range p.CallSitesOf(f) {
							args := cs.Common().Args
							if idx < 0 || idx >= len(args) || cs.Parent() == nil {
								continue
							}
							a := args[idx]
							if cv, ok := a.(*ssa.Convert); ok {
								a = cv.X
							}
							if k, isC := a.(*ssa.Const); isC && k.Value != nil {
								out = append(out, res{f, k.Value.ExactString()})
							} else {
								resolve(cs.Parent(), a, d+1)
							}
						}
					}
				}
				resolve(fn, idVals[0], 0)
				for _, rs := range out {
					key := m + ":" + prefix + "/" + rs.k
					keys[key] = append(keys[key], use{rs.fn, p.instrPos(c)})
				}
			}
		}
		var ks []string
		for k := range keys {
			ks = append(ks, k)
		}
		sort.Strings(ks)
		for _, k := range ks {
			r.Instance("R09.8")
			fns := map[*ssa.Function]bool{}
			var names []string
			for _, u := range keys[k] {
				if !fns[u.fn] {
					fns[u.fn] = true
					names = append(names, fname(u.fn))
				}
				r.FuncsSeen[fname(u.fn)] = true
			}
			sort.Strings(names)
			construct := "sweep cursor " + k
			if len(fns) > 1 {
				r.Fail("R09.8", construct, fmt.Sprintf("the sweeps %v keep their offset under the same key: each resumes where the other list's sweep stopped, so positions are skipped block after block and unsafe ones are never seized", names), keys[k][0].pos, nil)
			} else {
				r.OK("R09.8", construct, "used by one sweep only ("+names[0]+")", keys[k][0].pos)
			}
		}
	}

	// R09.9 the lend position outlives its other borrows -----------------------------------------
	// Seizing one borrow takes its collateral out of the lend position; the position itself is
	// removed only when nothing is left in it (other borrows of the same position must stay
	// liquidatable: their sweep step looks the lend position up).
	r.Rule("R09.9", "a seizure deletes the lend position only behind remaining collateral <= 0", 1)
	{
		isLeft := func(v ssa.Value) bool {
			return p.fromRecordFieldsLoose(v, map[string]bool{"LendAsset": true}, map[string]bool{"AmountIn": true})
		}
		g := p.cmpGuard("lend AmountIn <= 0", isLeft, isZeroValue, RLE)
		for _, fn := range p.Funcs {
			m := moduleOf(fn)
			if (m != "liquidationsV2" && m != "liquidation") || p.isAuxFn(fn) {
				continue
			}
			n := 0
			for _, c := range calls(fn) {
				if !p.callIs(c, "DeleteLendForAddressByAsset") {
					continue
				}
				n++
				r.Instance("R09.9")
				r.FuncsSeen[fname(fn)] = true
				construct := fmt.Sprintf("%s deletes lend #%d", fname(fn), n)
				if ok, w := p.GuardedSite(g, c); ok {
					r.OK("R09.9", construct, "only when the position's remaining collateral is zero", p.instrPos(c))
				} else {
					r.Fail("R09.9", construct, "the lend position can be deleted while collateral of other open borrows is still recorded in it: those borrows can no longer be seized (their step fails on the missing position)", p.instrPos(c), w)
				}
			}
		}
	}

	// R09.2 ------------------------------------------------------------------------
	r.Rule("R09.2", "seizure hands over exactly the recorded collateral and needs a successful auction start", 3)
	{
		// (a) the seizure primitives cannot succeed without the auction activator succeeding
		for _, pr := range []struct {
			fn  *ssa.Function
			act string
		}{{v1CLV, "DutchActivator"}, {v2CLV, "AuctionActivator"}} {
			g := &GuardSpec{Name: pr.act + " succeeded", CallPass: func(callee *ssa.Function, call ssa.CallInstruction) bool {
				return callee != nil && callee.Name() == pr.act
			}}
			r.Instance("R09.2")
			r.FuncsSeen[fname(pr.fn)] = true
			ok, blk, w := p.Guarded(g, pr.fn, nil)
			if ok {
				r.OK("R09.2", fname(pr.fn)+" starts the auction", "every success exit passes a successful "+pr.act, p.pos(pr.fn.Pos()))
			} else {
				pos := p.pos(pr.fn.Pos())
				if blk != nil {
					pos = p.instrPos(blk.Instrs[len(blk.Instrs)-1])
				}
				r.Fail("R09.2", fname(pr.fn)+" starts the auction", "a position can be recorded as seized without its auction having been started successfully", pos, w)
			}
		}
		// (b) V2 vault seizure: the coins moved to auction custody and the collateral recorded on the locked vault are the vault's AmountIn
		liv := p.MustFunc("x/liquidationsV2/keeper.Keeper.LiquidateIndividualVault")
		vaultMod := modConst(p, "x/vault/types")
		r.Instance("R09.2")
		var moved, recorded []string
		for _, c := range calls(liv) {
			if be := bankEffect(c); be != nil && be.Op == "ModToMod" && moduleName(be.From) == vaultMod {
				moved = append(moved, p.amountKeys(be.Coins)...)
			}
			if p.callIsFn(c, v2CLV) {
				args := callArgs(c)
				if len(args) > 6 {
					recorded = append(recorded, p.amountKeys(args[4])...) // AmountIn
					recorded = append(recorded, p.amountKeys(args[6])...) // CollateralToBeAuctioned
				}
			}
		}
		okAmt := len(moved) > 0 && len(recorded) > 0
		for _, k := range append(append([]string{}, moved...), recorded...) {
			if !strings.HasSuffix(k, ".AmountIn") {
				okAmt = false
			}
		}
		for _, k := range recorded {
			if !intersects([]string{k}, moved) {
				okAmt = false
			}
		}
		if okAmt {
			r.OK("R09.2", fname(liv)+" collateral hand-over", "moved and recorded collateral are the vault's recorded AmountIn", p.pos(liv.Pos()))
		} else {
			r.Fail("R09.2", fname(liv)+" collateral hand-over", fmt.Sprintf("the collateral moved to auction custody %v and the collateral recorded on the locked vault %v are not both the vault's recorded AmountIn", uniq(moved), uniq(recorded)), p.pos(liv.Pos()), nil)
		}
	}

	// R09.3 ------------------------------------------------------------------------
	r.Rule("R09.3", "sweeps: loop left only through its header, offset stored after the loop under the key it was read from, wrap and advance", 12)
	af := p.ApplyFunc()
	sweeps := []*ssa.Function{
		p.MustFunc("x/liquidation/keeper.Keeper.LiquidateVaults"),
		p.MustFunc("x/liquidation/keeper.Keeper.LiquidateBorrows"),
		p.MustFunc("x/liquidationsV2/keeper.Keeper.LiquidateVaults"),
		p.MustFunc("x/liquidationsV2/keeper.Keeper.LiquidateBorrows"),
	}
	for _, sw := range sweeps {
		name := fname(sw)
		r.FuncsSeen[name] = true
		// the sweep and the unexported helpers of its package it calls directly (cursor handling
		// extracted into helpers is analysed at the call)
		type hsite struct {
			c      ssa.CallInstruction
			in     *ssa.Function
			anchor ssa.CallInstruction // the call in the sweep through which c is reached (nil: c is in the sweep)
		}
		var sites []hsite
		for _, c := range calls(sw) {
			sites = append(sites, hsite{c, sw, nil})
			if h := c.Common().StaticCallee(); h != nil && h.Pkg == sw.Pkg && len(h.Blocks) > 0 && h.Object() != nil && !h.Object().Exported() {
				for _, hc := range calls(h) {
					sites = append(sites, hsite{hc, h, c})
				}
			}
		}
		// up: a helper parameter stands for what the sweep passes
		up := func(v ssa.Value, st hsite) ssa.Value {
			for {
				if cv, ok := v.(*ssa.Convert); ok {
					v = cv.X
					continue
				}
				break
			}
			if pr, ok := v.(*ssa.Parameter); ok && st.anchor != nil && pr.Parent() == st.in {
				if idx := paramIndex(pr); idx >= 0 && idx < len(st.anchor.Common().Args) {
					return st.anchor.Common().Args[idx]
				}
			}
			return v
		}
		var getC, setC []hsite
		var sliceCalls []*ssa.Call
		for _, st := range sites {
			if p.callIs(st.c, "GetLiquidationOffsetHolder") {
				getC = append(getC, st)
			}
			if p.callIs(st.c, "SetLiquidationOffsetHolder") {
				setC = append(setC, st)
			}
			if p.callIs(st.c, "GetSliceStartEndForLiquidations") {
				if cc, ok := st.c.(*ssa.Call); ok {
					sliceCalls = append(sliceCalls, cc)
				}
			}
		}
		fromSlice := func(v ssa.Value, idx int) bool {
			for {
				if cv, ok := v.(*ssa.Convert); ok {
					v = cv.X
					continue
				}
				break
			}
			alts := p.valueAlts(v)
			if len(alts) == 0 {
				return false
			}
			for _, a := range alts {
				if cv, ok := a.(*ssa.Convert); ok {
					a = cv.X
				}
				if !p.fromSliceCall(a, sliceCalls, idx) {
					return false
				}
			}
			return true
		}
		// item loop: the loop containing the per-item unit / liquidation call
		var item *Loop
		for _, l := range loopsOf(sw) {
			for b := range l.Body {
				for _, in := range b.Instrs {
					if c, ok := in.(ssa.CallInstruction); ok && (p.callIsFn(c, af) || p.callIs(c, "LiquidateIndividualBorrow", "LiquidateIndividualVault")) {
						if item == nil || len(l.Body) < len(item.Body) {
							item = l
						}
					}
				}
			}
		}
		r.Instance("R09.3")
		if item == nil || len(getC) == 0 || len(setC) == 0 || len(sliceCalls) == 0 {
			r.Fail("R09.3", name+" shape", "sweep does not have the expected shape (offset read, window, item loop, offset write)", p.pos(sw.Pos()), nil)
			continue
		}
		r.OK("R09.3", name+" shape", "offset read, window computation, item loop and offset write found", p.pos(sw.Pos()))
		// (a) loop exits only from the header
		r.Instance("R09.3")
		exitPos := ""
		for b := range item.Body {
			if b == item.Head {
				continue
			}
			for _, s := range b.Succs {
				if !item.Body[s] {
					exitPos = p.instrPos(b.Instrs[len(b.Instrs)-1])
				}
			}
		}
		if exitPos == "" {
			r.OK("R09.3", name+" item loop exits", "only through the loop header", p.pos(item.Head.Instrs[0].Pos()))
		} else {
			r.Fail("R09.3", name+" item loop exits", "the per-item loop can be left from its body (return/break): one failing position stops the sweep and the offset is not advanced", exitPos, nil)
		}
		// (b) after the loop, the offset write is unavoidable
		r.Instance("R09.3")
		blocked := map[*ssa.BasicBlock]bool{}
		for _, st := range setC {
			if st.anchor == nil {
				blocked[st.c.Block()] = true
			} else if p.mustPassBlock(st.in, st.c.Block()) {
				blocked[st.anchor.Block()] = true
			}
		}
		setPos := p.instrPos(setC[0].c)
		missed := false
		for i, s := range item.Head.Succs {
			_ = i
			if item.Body[s] {
				continue
			}
			seen, _ := reach(sw, s, backEdges(sw), blocked)
			for _, rt := range returns(sw) {
				if seen[rt.Block()] {
					missed = true
				}
			}
			// re-entering an outer loop header without storing
			for _, l := range loopsOf(sw) {
				if l != item && l.Body[item.Head] && !blocked[s] {
					// path from s to the outer header's back edge source without a set
					for b := range l.Body {
						for j, s2 := range b.Succs {
							if s2 == l.Head && backEdges(sw)[Edge{b, j}] && seen[b] {
								missed = true
							}
						}
					}
				}
			}
		}
		if missed {
			r.Fail("R09.3", name+" offset stored", "after the item loop the function can return (or start the next app) without storing the advanced offset", setPos, nil)
		} else {
			r.OK("R09.3", name+" offset stored", "every way out of the item loop passes SetLiquidationOffsetHolder", setPos)
		}
		// (c) same key: the holder's AppId at the write is the id it was read under
		r.Instance("R09.3")
		keyOK := true
		why := ""
		var idArg ssa.Value
		for _, a := range callArgs(getC[0].c)[1:] {
			if isUint64(a.Type()) {
				idArg = up(a, getC[0])
			}
		}
		for _, st := range setC {
			sc := st.c
			sArgs := callArgs(sc)
			holder := sArgs[len(sArgs)-1]
			// an explicit `holder.AppId = id` reaching the write settles the key
			if idArg != nil {
				if ld, ok := holder.(*ssa.UnOp); ok {
					if a, isA := ld.X.(*ssa.Alloc); isA {
						if defs, entry := reachingStores(a, []string{"AppId"}, ld); !entry && len(defs) > 0 {
							all := true
							for _, d := range defs {
								if d.whole || p.ExprKey(up(d.st.Val, st)) != p.ExprKey(idArg) {
									all = false
								}
							}
							if all {
								continue
							}
						}
					}
				}
			}
			// origins of holder.AppId at the call
			for _, o := range p.Origins(holder) {
				switch {
				case o.Kind == "call" && p.callIs(o.Call, "GetLiquidationOffsetHolder"):
					// whole record as read: stored under the key it came from (unless AppId overwritten, handled by field stores)
				case o.Kind == "call" && p.callIs(o.Call, "NewLiquidationOffsetHolder"):
					na := o.Call.Common().Args
					ok2 := false
					if len(na) == 2 && idArg != nil && p.ExprKey(up(na[0], st)) == p.ExprKey(idArg) {
						ok2 = true
					}
					if !ok2 {
						keyOK = false
						why = "when no offset record exists yet the fresh holder is stored under app id 0 instead of the id it was looked up under (" + p.instrPos(o.Call) + ")"
					}
				case o.Kind == "param" && st.anchor != nil:
					// a holder handed to a storing helper: what the sweep passes
					if pr, isP := o.Val.(*ssa.Parameter); isP {
						for _, o2 := range p.Origins(up(pr, st)) {
							if o2.Kind == "call" && p.callIs(o2.Call, "NewLiquidationOffsetHolder") {
								keyOK = false
								why = "a fresh holder reaches the storing helper without its AppId set to the id it was looked up under"
							}
						}
					}
				}
			}
		}
		if idArg == nil {
			keyOK = false
			why = "cannot identify the id the offset is read under"
		}
		if keyOK {
			r.OK("R09.3", name+" offset key", "offset written under the key it was read from", setPos)
		} else {
			r.Fail("R09.3", name+" offset key", "the sweep offset is not written back under the key it was read from: "+why+"; the sweep restarts from 0 every block and overwrites another sweep's offset", setPos, nil)
		}
		// (d) wrap and advance
		r.Instance("R09.3")
		wrap, advance := false, false
		inFns := map[*ssa.Function]bool{}
		for _, st := range sites {
			inFns[st.in] = true
		}
		// wrap: on the start == end edge the cursor restarts from zero (stored, or the window recomputed from 0)
		for f := range inFns {
			for _, c := range f.Blocks {
				if len(c.Instrs) == 0 {
					continue
				}
				ifi, ok := c.Instrs[len(c.Instrs)-1].(*ssa.If)
				if !ok {
					continue
				}
				bo, ok := ifi.Cond.(*ssa.BinOp)
				if !ok || bo.Op != token.EQL || !(fromSlice(bo.X, 0) && fromSlice(bo.Y, 1)) {
					continue
				}
				d := c.Succs[0]
				for _, b := range f.Blocks {
					if b != d && !d.Dominates(b) {
						continue
					}
					for _, in := range b.Instrs {
						if st, ok := in.(*ssa.Store); ok && isZeroValue(st.Val) {
							base, path := addrBase(st.Addr)
							if namedTypeName(derefAll(base.Type())) == "LiquidationOffsetHolder" && len(path) == 1 && path[0] == "CurrentOffset" {
								wrap = true
							}
						}
						if cc, ok := in.(*ssa.Call); ok && p.callIs(cc, "GetSliceStartEndForLiquidations") && len(cc.Call.Args) >= 2 {
							a := cc.Call.Args[1]
							if cv, isCv := a.(*ssa.Convert); isCv {
								a = cv.X
							}
							if isZeroValue(a) {
								wrap = true
							}
						}
					}
				}
			}
		}
		for _, st := range sites {
			_ = st
		}
		for f := range inFns {
			var anchor hsite
			for _, st := range sites {
				if st.in == f {
					anchor = st
					break
				}
			}
			for _, stv := range fieldStores(f, "LiquidationOffsetHolder", "CurrentOffset") {
				if isZeroValue(stv.Val) {
					continue
				}
				if fromSlice(up(stv.Val, anchor), 1) {
					advance = true
				}
			}
		}
		if wrap && advance {
			r.OK("R09.3", name+" wrap/advance", "offset reset to 0 when start == end; advanced to the window end", p.pos(sw.Pos()))
		} else {
			r.Fail("R09.3", name+" wrap/advance", fmt.Sprintf("sweep window bookkeeping incomplete (wrap on empty window: %v, advance to window end: %v): positions beyond the first window are never reached or the sweep never wraps", wrap, advance), p.pos(sw.Pos()), nil)
		}
	}

	// R09.4 ------------------------------------------------------------------------
	seizeMay := p.NewMay(func(c ssa.CallInstruction, callee *ssa.Function) bool {
		return callee == v1CLV || callee == v1CLB || callee == v2CLV
	})
	unitContextRule(p, r, "R09.4", func(u WorkUnit) bool { return u.Closure != nil && seizeMay.Fn(u.Closure) }, 3)
}

// fromSliceCall: every origin of v is result #idx of one of the window computations.
func (p *Prog) fromSliceCall(v ssa.Value, sliceCalls []*ssa.Call, idx int) bool {
	os := p.Origins(v)
	if len(os) == 0 {
		return false
	}
	for _, o := range os {
		if o.Kind != "call" || o.Index != idx {
			return false
		}
		hit := false
		for _, sc := range sliceCalls {
			if o.Call == sc {
				hit = true
			}
		}
		if !hit {
			return false
		}
	}
	return true
}

// fieldAssignedBefore: a store `holder.<field> = id` reaches the call on every path from
// where the holder variable was (re)initialised.
func (p *Prog) fieldAssignedBefore(fn *ssa.Function, holder ssa.Value, field string, id ssa.Value, at ssa.CallInstruction) bool {
	ld, ok := holder.(*ssa.UnOp)
	if !ok || ld.Op != token.MUL {
		return false
	}
	a, ok := ld.X.(*ssa.Alloc)
	if !ok || id == nil {
		return false
	}
	defs, entry := reachingStores(a, []string{field}, ld)
	if entry || len(defs) == 0 {
		return false
	}
	for _, d := range defs {
		if d.whole {
			return false // some path reaches the call with the whole-record initialisation only
		}
		if p.ExprKey(d.st.Val) != p.ExprKey(id) {
			return false
		}
	}
	return true
}

// onlyRecordFields: every non-constant leaf of v is one of the given fields of a record of
// type typ.
func (p *Prog) onlyRecordFields(v ssa.Value, typ string, fields map[string]bool) bool {
	n := 0
	for _, o := range p.DeepOrigins(v) {
		if o.Kind == "const" {
			continue
		}
		if len(o.Path) == 0 {
			return false
		}
		// the path must contain a field of the record type
		hit := false
		for i := len(o.Path) - 1; i >= 0; i-- {
			if fields[o.Path[i]] {
				sub := o
				sub.Path = o.Path[:i+1]
				if pathBaseTypeName(sub) == typ {
					hit = true
					break
				}
			}
		}
		if !hit {
			return false
		}
		n++
	}
	return n > 0
}

// bridgedFactorMismatch: a seizure guarded by `x.Denom == GetAsset(id).Denom` must use the
// threshold factor GetAssetRatesParams(id) of that same transit asset (and the other
// branch the other asset).
func (p *Prog) bridgedFactorMismatch(fn *ssa.Function, site ssa.CallInstruction) string {
	// find the dominating comparison with the threshold and the dominating Denom test
	var thresholdOperand ssa.Value
	var denomID ssa.Value
	denomEq := false
	haveDenom := false
	for d := site.Block(); d != nil; d = d.Idom() {
		c := d.Idom()
		if c == nil {
			break
		}
		ifi, ok := c.Instrs[len(c.Instrs)-1].(*ssa.If)
		if !ok {
			continue
		}
		onTrue := c.Succs[0] == d || c.Succs[0].Dominates(d) && !(c.Succs[1].Dominates(d))
		if x, y, _, _, isCmp := p.CmpRel(ifi.Cond); isCmp && thresholdOperand == nil && x != nil && y != nil {
			if p.originHasField(y, "AssetRatesParams", "LiquidationThreshold") || p.originHasField(y, "AssetRatesParams", "ELiquidationThreshold") {
				thresholdOperand = y
			} else if p.originHasField(x, "AssetRatesParams", "LiquidationThreshold") {
				thresholdOperand = x
			}
		}
		if b, ok := ifi.Cond.(*ssa.BinOp); ok && (b.Op == token.EQL || b.Op == token.NEQ) && !haveDenom {
			for _, side := range []ssa.Value{b.X, b.Y} {
				for _, o := range p.Origins(side) {
					if o.Kind == "call" && p.callIs(o.Call, "GetAsset") && len(o.Path) == 1 && o.Path[0] == "Denom" {
						args := callArgs(o.Call)
						if len(args) >= 2 {
							denomID = args[1]
							haveDenom = true
							denomEq = (b.Op == token.EQL) == onTrue
						}
					}
				}
			}
		}
	}
	if thresholdOperand == nil || !haveDenom {
		return ""
	}
	// transit ids used by the threshold operand (GetAssetRatesParams calls other than the collateral asset's)
	var ids []ssa.Value
	for _, o := range p.DeepOrigins(thresholdOperand) {
		if o.Kind == "call" && p.callIs(o.Call, "GetAssetRatesParams") {
			args := callArgs(o.Call)
			if len(args) >= 2 {
				isBase := false
				for _, o2 := range p.Origins(args[1]) {
					if len(o2.Path) > 0 && o2.Path[len(o2.Path)-1] == "AssetIn" {
						isBase = true
					}
				}
				if !isBase {
					ids = append(ids, args[1])
				}
			}
		}
	}
	if len(ids) != 1 {
		return ""
	}
	same := ids[0] == denomID || p.ExprKey(ids[0]) == p.ExprKey(denomID)
	if denomEq && !same {
		return "the branch tests the bridged asset's denom against one transit asset but scales the liquidation threshold by the rate parameters of a different transit asset"
	}
	if !denomEq && same {
		return "the branch is taken when the bridged asset is NOT the tested transit asset, yet it scales the threshold by that very asset's rate parameters"
	}
	return ""
}
