package main

import (
	"fmt"
	"go/types"
	"strings"

	"golang.org/x/tools/go/ssa"
)

// Denomination linkage. A message that names a pool or pair by id and carries a single
// coin of its own (the shares to redeem, to farm, the coin offered) acts on the reserves,
// shares or escrow of the record loaded under that id: the handler cannot succeed without
// an equality test between the denomination in the message and a denomination field of that
// record (Pool.PoolCoinDenom, Pair.BaseCoinDenom / QuoteCoinDenom). Instances are the
// message types themselves (a Coin field next to a PoolId / PairId field).

func denomLinkRule(p *Prog, r *Report, rule string, mods map[string]bool, floor int) {
	r.Rule(rule, "a coin named in a message is tied to the pool / pair the message names: msg.<Coin>.Denom is tested against a denom field of the loaded record", floor)
	for _, e := range p.MsgHandlers() {
		fn := e.Fn
		if !mods[moduleOf(fn)] || len(fn.Blocks) == 0 {
			continue
		}
		mp := msgParam(fn)
		if mp == nil {
			continue
		}
		mt := namedOf(mp.Type())
		if mt == nil {
			continue
		}
		st, ok := mt.Underlying().(*types.Struct)
		if !ok {
			continue
		}
		recKind := ""
		var coinFields []string
		for i := 0; i < st.NumFields(); i++ {
			f := st.Field(i)
			if isUint64(f.Type()) && (f.Name() == "PoolId" || f.Name() == "PairId") {
				if f.Name() == "PoolId" {
					recKind = "Pool"
				} else if recKind == "" {
					recKind = "Pair"
				}
			}
			if strings.HasSuffix(f.Type().String(), "cosmos-sdk/types.Coin") {
				coinFields = append(coinFields, f.Name())
			}
		}
		if recKind != "Pool" || len(coinFields) == 0 {
			// order messages tie the offered coin to the pair inside a switch over msg.Direction with
			// no default arm (the direction is validated statelessly): not decidable path-insensitively
			continue
		}
		for _, cf := range coinFields {
			cf := cf
			construct := fmt.Sprintf("%s msg.%s.Denom ~ %s", fname(fn), cf, recKind)
			r.Instance(rule)
			r.FuncsSeen[fname(fn)] = true
			isMsgCoinField := func(v ssa.Value, tail []string) bool {
				os := p.Origins(v)
				if len(os) == 0 {
					return false
				}
				for _, o := range os {
					if o.Kind != "param" || len(o.Path) != 1+len(tail) || o.Path[0] != cf {
						return false
					}
					for k, seg := range tail {
						if o.Path[1+k] != seg {
							return false
						}
					}
					if nt := namedOf(o.Val.Type()); nt == nil || nt.Obj() != mt.Obj() {
						return false
					}
				}
				return true
			}
			isMsgDenom := func(v ssa.Value) bool {
				if isMsgCoinField(v, []string{"Denom"}) {
					return true
				}
				// inside a shared validation helper the coin is a parameter: the call site in the
				// validator of this message type passes msg.<Coin>
				os := p.Origins(v)
				if len(os) == 0 {
					return false
				}
				for _, o := range os {
					pr, isP := o.Val.(*ssa.Parameter)
					if o.Kind != "param" || !isP || len(o.Path) != 1 || o.Path[0] != "Denom" || pr.Parent() == nil {
						return false
					}
					idx := paramIndex(pr)
					hit := false
					for _, cs := range p.CallSitesOf(pr.Parent()) {
						args := cs.Common().Args
						if idx >= 0 && idx < len(args) && isMsgCoinField(args[idx], nil) {
							hit = true
						}
					}
					if !hit {
						return false
					}
				}
				return true
			}
			isRecDenom := func(v ssa.Value) bool {
				for _, o := range p.DeepOrigins(v) {
					if len(o.Path) == 0 || !strings.HasSuffix(o.Path[len(o.Path)-1], "Denom") {
						continue
					}
					if tn := pathBaseTypeName(o); tn == "Pool" || tn == "Pair" {
						return true
					}
				}
				return false
			}
			g := &GuardSpec{
				Name: fmt.Sprintf("msg.%s.Denom == a denom of the loaded %s", cf, strings.ToLower(recKind)),
				Local: func(f *ssa.Function, cond ssa.Value) (bool, bool) {
					a := p.Atom(cond)
					if !a.IsCmp || (a.Op != "==" && a.Op != "!=") || a.X == nil || a.Y == nil {
						return false, false
					}
					if !((isMsgDenom(a.X) && isRecDenom(a.Y)) || (isMsgDenom(a.Y) && isRecDenom(a.X))) {
						return false, false
					}
					eq := a.Op == "=="
					if a.Neg {
						eq = !eq
					}
					if eq {
						return true, false
					}
					return false, true
				},
			}
			ok, _, w := p.guardedTargets(g, fn, nil, 0)
			if ok {
				r.OK(rule, construct, "handler cannot succeed without "+g.Name, p.pos(fn.Pos()))
			} else {
				r.Fail(rule, construct, fmt.Sprintf("the handler can succeed without testing that msg.%s is denominated in a coin of the %s named by the message: coins or shares of an unrelated pool are accepted and the named pool's reserves, shares or escrow are moved for them", cf, strings.ToLower(recKind)), p.pos(fn.Pos()), w)
			}
		}
	}
}

// executeOnceRule: a deposit / withdrawal request is executed at most once. Every call of an
// executor passes a request that either has just been recorded in the same function (the
// value returned by Deposit / Withdraw) or is tested `Status == RequestStatusNotExecuted` on
// every path to the call. (The executors check the status only after coins and shares moved.)
func executeOnceRule(p *Prog, r *Report, rule string, floor int) {
	r.Rule(rule, "a request reaches its executor only when just recorded or behind Status == RequestStatusNotExecuted", floor)
	notExecuted := statusConst(p, "x/liquidity/types", "RequestStatusNotExecuted")
	for _, fn := range p.Funcs {
		if moduleOf(fn) != "liquidity" || p.isAuxFn(fn) || len(fn.Blocks) == 0 {
			continue
		}
		n := 0
		for _, c := range calls(fn) {
			ts := p.Callees(c)
			if len(ts) == 0 || !isComdexFn(ts[0]) {
				continue
			}
			nm := ts[0].Name()
			if nm != "ExecuteDepositRequest" && nm != "ExecuteWithdrawRequest" {
				continue
			}
			args := callArgs(c)
			var req ssa.Value
			for _, a := range args {
				if tn := namedTypeName(derefAll(a.Type())); tn == "DepositRequest" || tn == "WithdrawRequest" {
					req = a
				}
			}
			if req == nil {
				continue
			}
			n++
			r.Instance(rule)
			r.FuncsSeen[fname(fn)] = true
			construct := fmt.Sprintf("%s -> %s #%d", fname(fn), nm, n)
			// (a) freshly recorded in this function
			fresh := true
			os := p.Origins(req)
			if len(os) == 0 {
				fresh = false
			}
			for _, o := range os {
				if o.Kind != "call" || o.Call == nil || len(o.Path) != 0 {
					fresh = false
					break
				}
				cn := calleeShortName(o.Call.Common())
				if cn != "Deposit" && cn != "Withdraw" {
					fresh = false
				}
			}
			if fresh {
				r.OK(rule, construct, "the request was recorded by this very function", p.instrPos(c))
				continue
			}
			sameReq := func(v ssa.Value) bool {
				_, f, base, ok := fieldRead(v)
				if !ok || f != "Status" {
					return false
				}
				ro := map[string]bool{}
				for _, o := range p.Origins(req) {
					ro[o.String()] = true
				}
				for _, o := range p.Origins(base) {
					if !ro[o.String()] {
						return false
					}
				}
				return len(ro) > 0
			}
			g := &GuardSpec{Name: "Status == RequestStatusNotExecuted", Local: func(f *ssa.Function, cond ssa.Value) (bool, bool) {
				a := p.Atom(cond)
				if !a.IsCmp || (a.Op != "==" && a.Op != "!=") || a.X == nil || a.Y == nil {
					return false, false
				}
				isC := func(v ssa.Value) bool {
					k, ok := v.(*ssa.Const)
					return ok && k.Value != nil && k.Value.ExactString() == notExecuted
				}
				if !((sameReq(a.X) && isC(a.Y)) || (sameReq(a.Y) && isC(a.X))) {
					return false, false
				}
				eq := a.Op == "=="
				if a.Neg {
					eq = !eq
				}
				if eq {
					return true, false
				}
				return false, true
			}}
			if ok, w := p.GuardedSite(g, c); ok {
				r.OK(rule, construct, "only behind "+g.Name, p.instrPos(c))
			} else if executorGuardsItself(p, ts[0], notExecuted) {
				r.OK(rule, construct, "the executor moves nothing before its own "+g.Name, p.instrPos(c))
			} else {
				r.Fail(rule, construct, "a stored request can be handed to its executor without the test that it has not been executed yet: a request already executed earlier in the block (deposit-and-farm, unfarm-and-withdraw) is executed again, moving coins and shares a second time before the executor's own late status check", p.instrPos(c), w)
			}
		}
	}
}

// executorGuardsItself: every bank effect of the executor is reachable only behind the
// status test on its own request parameter.
func executorGuardsItself(p *Prog, ex *ssa.Function, notExecuted string) bool {
	var reqP *ssa.Parameter
	for _, pr := range ex.Params {
		if tn := namedTypeName(derefAll(pr.Type())); tn == "DepositRequest" || tn == "WithdrawRequest" {
			reqP = pr
		}
	}
	if reqP == nil || len(ex.Blocks) == 0 {
		return false
	}
	g := &GuardSpec{Name: "Status == RequestStatusNotExecuted", Local: func(f *ssa.Function, cond ssa.Value) (bool, bool) {
		a := p.Atom(cond)
		if !a.IsCmp || (a.Op != "==" && a.Op != "!=") || a.X == nil || a.Y == nil {
			return false, false
		}
		isS := func(v ssa.Value) bool {
			_, fld, base, ok := fieldRead(v)
			if !ok || fld != "Status" {
				return false
			}
			os := p.Origins(base)
			for _, o := range os {
				if o.Kind != "param" || o.Val != ssa.Value(reqP) || len(o.Path) != 0 {
					return false
				}
			}
			return len(os) > 0
		}
		isC := func(v ssa.Value) bool {
			k, ok := v.(*ssa.Const)
			return ok && k.Value != nil && k.Value.ExactString() == notExecuted
		}
		if !((isS(a.X) && isC(a.Y)) || (isS(a.Y) && isC(a.X))) {
			return false, false
		}
		eq := a.Op == "=="
		if a.Neg {
			eq = !eq
		}
		if eq {
			return true, false
		}
		return false, true
	}}
	n := 0
	for _, c := range calls(ex) {
		if bankEffect(c) == nil {
			continue
		}
		n++
		if ok, _ := p.GuardedSite(g, c); !ok {
			return false
		}
	}
	return n > 0
}

// freshOrderIndexedRule (R07.9): an order created in a function (types.NewOrder...) and
// stored there is entered into the orderer's index on every success path through the store:
// cancel-all finds orders only through that index, so an unindexed order can never be
// cancelled by it and its escrow stays locked until expiry.
func freshOrderIndexedRule(p *Prog, r *Report, rule string, floor int) {
	r.Rule(rule, "an order created and stored by a function is also entered into the orderer's index", floor)
	for _, fn := range p.Funcs {
		if moduleOf(fn) != "liquidity" || p.isAuxFn(fn) || len(fn.Blocks) == 0 || !strings.HasSuffix(fnPkgPath(fn), "/keeper") {
			continue
		}
		var aBlocks []*ssa.BasicBlock
		var first ssa.CallInstruction
		for _, c := range calls(fn) {
			if !p.callIs(c, "SetOrder") {
				continue
			}
			for _, a := range callArgs(c) {
				if namedTypeName(derefAll(a.Type())) != "Order" {
					continue
				}
				for _, o := range p.Origins(a) {
					if o.Kind == "call" && len(o.Path) == 0 {
						if sc := o.Call.Common().StaticCallee(); sc != nil && strings.HasPrefix(sc.Name(), "NewOrder") && strings.HasSuffix(fnPkgPath(sc), "/types") {
							aBlocks = append(aBlocks, c.Block())
							if first == nil {
								first = c
							}
						}
					}
				}
			}
		}
		if len(aBlocks) == 0 {
			continue
		}
		r.Instance(rule)
		r.FuncsSeen[fname(fn)] = true
		construct := fname(fn) + " new order indexed"
		blocked := map[*ssa.BasicBlock]bool{}
		for _, c := range calls(fn) {
			if p.callIs(c, "SetOrderIndex") {
				blocked[c.Block()] = true
			}
		}
		bad := false
		succ := p.successTargets(nil, fn, 0)
		seenE, _ := reach(fn, nil, nil, blocked)
		for _, ab := range aBlocks {
			if blocked[ab] || !seenE[ab] {
				continue
			}
			seenA, _ := reach(fn, ab, nil, blocked)
			for _, t := range succ {
				if seenA[t] {
					bad = true
				}
			}
		}
		if bad {
			r.Fail(rule, construct, "a newly created order is stored and the function can succeed without entering it into the orderer's index: cancel-all never finds it, it is not refunded and keeps trading", p.instrPos(first), nil)
		} else {
			r.OK(rule, construct, "every success path through the store also calls SetOrderIndex", p.instrPos(first))
		}
	}
}
