package main

import (
	"fmt"
	"go/types"
	"sort"
	"strings"

	"golang.org/x/tools/go/ssa"
)

func init() { register("C20", rulesC20) }

// storeOp is a primitive KV operation with the prefix variables its key is built from.
type storeOp struct {
	call     ssa.CallInstruction
	op       string // Set | Delete | Get | Has | Iterator
	prefixes []*ssa.Global
}

// isByteSliceGlobal: package-level []byte / string variable of a comdex types package (a key prefix).
func isPrefixGlobal(g *ssa.Global) bool {
	if g.Pkg == nil || !isComdex(g.Pkg.Pkg.Path()) {
		return false
	}
	t := g.Type().(*types.Pointer).Elem()
	if sl, ok := t.Underlying().(*types.Slice); ok {
		if b, ok := sl.Elem().Underlying().(*types.Basic); ok && b.Kind() == types.Byte {
			return true
		}
	}
	return false
}

// prefixGlobalsOf collects the prefix variables a key value is built from: globals loaded
// directly, and globals referenced by the key-constructor functions in its backward slice.
func (p *Prog) prefixGlobalsOf(v ssa.Value) []*ssa.Global {
	set := map[*ssa.Global]bool{}
	seenFn := map[*ssa.Function]bool{}
	var inFn func(f *ssa.Function, d int)
	inFn = func(f *ssa.Function, d int) {
		if f == nil || seenFn[f] || d > 3 || len(f.Blocks) == 0 || !isComdexFn(f) {
			return
		}
		seenFn[f] = true
		for _, b := range f.Blocks {
			for _, in := range b.Instrs {
				for _, op := range in.Operands(nil) {
					if g, ok := (*op).(*ssa.Global); ok && isPrefixGlobal(g) {
						set[g] = true
					}
				}
				if c, ok := in.(ssa.CallInstruction); ok {
					if sc := c.Common().StaticCallee(); sc != nil && sc.Signature.Recv() == nil {
						inFn(sc, d+1)
					}
				}
			}
		}
	}
	seen := map[ssa.Value]bool{}
	var rec func(v ssa.Value, d int)
	rec = func(v ssa.Value, d int) {
		if v == nil || seen[v] || d > 8 {
			return
		}
		seen[v] = true
		for _, o := range p.Origins(v) {
			switch o.Kind {
			case "global":
				if g, ok := o.Val.(*ssa.Global); ok && isPrefixGlobal(g) {
					set[g] = true
				}
			case "call":
				if sc := o.Call.Call.StaticCallee(); sc != nil {
					if isComdexFn(sc) && sc.Signature.Recv() == nil {
						inFn(sc, 0)
					} else {
						// append(prefix, ...), sdk helpers: continue into the arguments
						for _, a := range o.Call.Call.Args {
							rec(a, d+1)
						}
					}
				} else if _, isB := o.Call.Call.Value.(*ssa.Builtin); isB {
					for _, a := range o.Call.Call.Args {
						rec(a, d+1)
					}
				}
			}
		}
	}
	rec(v, 0)
	var out []*ssa.Global
	for g := range set {
		out = append(out, g)
	}
	sort.Slice(out, func(i, j int) bool { return out[i].String() < out[j].String() })
	return out
}

// storeOpsOf lists the primitive KV operations of a function.
func (p *Prog) storeOpsOf(fn *ssa.Function) []storeOp {
	var out []storeOp
	for _, c := range calls(fn) {
		if op, key, ok := kvOp(c); ok {
			if op == "ReverseIterator" {
				op = "Iterator"
			}
			out = append(out, storeOp{c, op, p.prefixGlobalsOf(key)})
			continue
		}
		if sc := c.Common().StaticCallee(); sc != nil {
			n := fullName(sc)
			if strings.HasSuffix(n, "types.KVStorePrefixIterator") || strings.HasSuffix(n, "types.KVStoreReversePrefixIterator") || strings.HasSuffix(n, "store/prefix.NewStore") {
				if len(c.Common().Args) >= 2 {
					out = append(out, storeOp{c, "Iterator", p.prefixGlobalsOf(c.Common().Args[1])})
				}
			}
		}
	}
	return out
}

func gname(g *ssa.Global) string { return short(g.Pkg.Pkg.Path()) + "." + g.Name() }

func rulesC20(p *Prog, r *Report) {
	r.Explanation = "Decides the structural necessary conditions of the genesis round trip, per module: (R20.1) every key prefix the module's keeper writes anywhere is either read under ExportGenesis and written under InitGenesis, or re-derived (written) under InitGenesis; a prefix that is neither exported nor re-derived is state that does not survive the round trip; (R20.2) every field of the module's GenesisState that ExportGenesis fills is read by InitGenesis, and every field InitGenesis reads is filled by ExportGenesis; (R20.3) every bulk reader used by export decodes what it appends (the appended element is the target of an Unmarshal of the iterator value). It does not decide behavioural equality after the round trip, nor that values restored are the values exported beyond the field/prefix agreement."
	r.Assumptions = []string{"key prefixes are the package-level []byte variables of x/*/types; two different variables are different prefixes", "bank/auth state is exported by the SDK modules"}
	keyArgAgreement(p, r, "R20.8", 20)
	rekeyRule(p, r, "R20.10", 1)
	keyLayoutRule(p, r, "R20.11", 5)
	freshDecodeTargetRule(p, r, "R20.12", 20)

	gens := p.Genesis()
	type modGen struct{ init, export []*ssa.Function }
	mods := map[string]*modGen{}
	for _, e := range gens {
		if strings.Contains(e.Name, ".AppModule.") || strings.Contains(e.Name, "AppModuleBasic") {
			continue
		}
		mg := mods[e.Module]
		if mg == nil {
			mg = &modGen{}
			mods[e.Module] = mg
		}
		if e.Fn.Name() == "InitGenesis" {
			mg.init = append(mg.init, e.Fn)
		} else {
			mg.export = append(mg.export, e.Fn)
		}
	}
	var modNames []string
	for m := range mods {
		modNames = append(modNames, m)
	}
	sort.Strings(modNames)

	r.Rule("R20.1", "every key prefix written by a module is exported+imported or re-derived at import", 100)
	r.Rule("R20.2", "GenesisState fields: filled by export <=> read by import", 80)
	r.Rule("R20.3", "bulk readers used by export decode what they append", 60)

	r.Rule("R20.5", "a genesis id-counter field is restored through the setter of the same kind", 2)
	r.Rule("R20.6", "modules whose InitGenesis reads another module's state are initialised after it", 2)
	r.Rule("R20.7", "genesis fields are filled from the reader of the same name and restored through parameters of the same name", 25)
	r.Rule("R20.9", "an export reader is not skipped depending on what another export reader returned", 2)
	initOrder := p.initGenesisOrder()
	orderIdx := map[string]int{}
	for i, n := range initOrder {
		orderIdx[n] = i
	}
	r.Info["init_genesis_order"] = initOrder
	modName := map[string]string{}
	for _, m := range modNames {
		if pk := p.ByPath[modPath+"/x/"+m+"/types"]; pk != nil {
			if c, ok := pk.Types.Scope().Lookup("ModuleName").(*types.Const); ok {
				modName[m] = strings.Trim(c.Val().ExactString(), "\"")
			}
		}
	}

	stop := func(f *ssa.Function) bool { return p.isAuxFn(f) }
	for _, m := range modNames {
		mg := mods[m]
		if len(mg.init) == 0 || len(mg.export) == 0 {
			continue
		}
		// all keeper functions of the module (non-aux, non-query)
		written := map[*ssa.Global][]string{}
		for _, fn := range p.Funcs {
			if moduleOf(fn) != m || p.isAuxFn(fn) || !strings.Contains(fnPkgPath(fn), "/keeper") {
				continue
			}
			for _, so := range p.storeOpsOf(fn) {
				if so.op == "Set" {
					for _, g := range so.prefixes {
						written[g] = append(written[g], fname(fn))
					}
				}
			}
		}
		exportReach := p.Reachable(mg.export, stop)
		initReach := p.Reachable(mg.init, stop)
		exported := map[*ssa.Global]bool{}
		imported := map[*ssa.Global]bool{}
		for fn := range exportReach {
			for _, so := range p.storeOpsOf(fn) {
				if so.op == "Get" || so.op == "Iterator" {
					for _, g := range so.prefixes {
						exported[g] = true
					}
				}
			}
		}
		for fn := range initReach {
			for _, so := range p.storeOpsOf(fn) {
				if so.op == "Set" {
					for _, g := range so.prefixes {
						imported[g] = true
					}
				}
			}
		}
		var gs []*ssa.Global
		for g := range written {
			gs = append(gs, g)
		}
		sort.Slice(gs, func(i, j int) bool { return gname(gs[i]) < gname(gs[j]) })
		for _, g := range gs {
			r.Instance("R20.1")
			construct := fmt.Sprintf("module %s prefix %s", m, gname(g))
			writers := uniq(written[g])
			if len(writers) > 3 {
				writers = append(writers[:3], "...")
			}
			switch {
			case exported[g] && imported[g]:
				r.OK("R20.1", construct, "read under ExportGenesis and written under InitGenesis", p.pos(g.Pos()))
			case !exported[g] && imported[g]:
				r.OK("R20.1", construct, "re-derived under InitGenesis", p.pos(g.Pos()))
			case exported[g] && !imported[g]:
				r.Fail("R20.1", construct, fmt.Sprintf("state under this prefix (written by %s) is read by ExportGenesis but never written by InitGenesis: it is dropped on import", strings.Join(writers, ", ")), p.pos(g.Pos()), nil)
			default:
				r.Fail("R20.1", construct, fmt.Sprintf("state under this prefix (written by %s) is neither exported nor re-derived at import: it does not survive a genesis round trip", strings.Join(writers, ", ")), p.pos(g.Pos()), nil)
			}
		}

		// R20.5 counter fields restored through the setter of the same kind
		for fn := range initReach {
			if moduleOf(fn) != m {
				continue
			}
			for _, c := range calls(fn) {
				ts := p.Callees(c)
				if len(ts) == 0 || !isComdexFn(ts[0]) || !strings.HasPrefix(ts[0].Name(), "Set") {
					continue
				}
				if !isIDName(ts[0].Name()) {
					continue // only id-counter setters (Set...ID)
				}
				norm := func(toks []string) map[string]bool {
					out := map[string]bool{}
					for _, t := range toks {
						switch t {
						case "id", "ids", "gen", "last", "set", "for", "of":
							continue
						case "bidding":
							t = "bid"
						}
						out[t] = true
					}
					return out
				}
				ck := norm(camelTokens(strings.TrimPrefix(ts[0].Name(), "Set")))
				if len(ck) == 0 {
					continue
				}
				cargs := callArgs(c)
				lastU := -1
				for i, a := range cargs {
					if isUint64(a.Type()) {
						lastU = i
					}
				}
				for i, a := range cargs {
					if i != lastU {
						continue // the value being restored is the setter's last uint64 argument; earlier ones are keys
					}
					for _, o := range p.Origins(a) {
						if len(o.Path) == 0 {
							continue
						}
						last := o.Path[len(o.Path)-1]
						// only counters read from the genesis document (LastPairId, AuctionId ...)
						isGen := false
						sub := o
						for i := range o.Path {
							sub.Path = o.Path[:i+1]
							if tn := pathBaseTypeName(sub); tn == "GenesisState" || tn == "AppGenesisState" {
								isGen = true
							}
						}
						fk := norm(camelTokens(last))
						if !isGen || len(fk) == 0 || !isIDName(last) {
							continue
						}
						r.Instance("R20.5")
						construct := fmt.Sprintf("module %s %s <- GenesisState.%s", m, ts[0].Name(), last)
						subset := true
						for t := range fk {
							if !ck[t] {
								subset = false
							}
						}
						if subset {
							r.OK("R20.5", construct, "counter restored through the setter of its own kind", p.instrPos(c))
						} else {
							r.Fail("R20.5", construct, fmt.Sprintf("the id counter set by %s is restored from the genesis field %s, which names a different counter: after import newly assigned ids collide with imported records", ts[0].Name(), last), p.instrPos(c), nil)
						}
					}
				}
			}
		}

		// R20.7 name agreement on both sides of the round trip
		genesisNameAgreement(p, r, "R20.7", m, exportReach, initReach)
		exportReaderUnconditional(p, r, "R20.9", m, exportReach)

		// R20.6 init order
		if mn := modName[m]; mn != "" {
			deps := map[string]string{}
			for fn := range initReach {
				dm := moduleOf(fn)
				if dm == "" || dm == m || !strings.Contains(fnPkgPath(fn), "/keeper") {
					continue
				}
				for _, so := range p.storeOpsOf(fn) {
					if so.op == "Get" || so.op == "Has" || so.op == "Iterator" {
						if _, ok := deps[dm]; !ok {
							deps[dm] = fname(fn)
						}
					}
				}
			}
			var ds []string
			for d := range deps {
				ds = append(ds, d)
			}
			sort.Strings(ds)
			for _, d := range ds {
				dn := modName[d]
				if dn == "" {
					continue
				}
				r.Instance("R20.6")
				construct := fmt.Sprintf("InitGenesis order: %s after %s", m, d)
				im, ok1 := orderIdx[mn]
				id, ok2 := orderIdx[dn]
				switch {
				case !ok1 || !ok2:
					r.Fail("R20.6", construct, "module missing from SetOrderInitGenesis", p.pos(mg.init[0].Pos()), nil)
				case id < im:
					r.OK("R20.6", construct, "state read via "+deps[d]+" is initialised earlier", "")
				default:
					r.Fail("R20.6", construct, fmt.Sprintf("%s.InitGenesis reads %s state (via %s) but %s is initialised later in SetOrderInitGenesis: lookups fail and the import silently drops records", m, d, deps[d], d), p.pos(mg.init[0].Pos()), nil)
				}
			}
		}

		// R20.2 GenesisState fields
		var gsType *types.Named
		for _, fn := range mg.init {
			for _, pr := range fn.Params {
				t := pr.Type()
				if pt, ok := t.(*types.Pointer); ok {
					t = pt.Elem()
				}
				if nt, ok := t.(*types.Named); ok && nt.Obj().Name() == "GenesisState" {
					gsType = nt
				}
			}
		}
		if gsType != nil {
			st, _ := gsType.Underlying().(*types.Struct)
			readInit := map[string]bool{}
			setExport := map[string]bool{}
			scan := func(fns map[*ssa.Function]bool, reads, writes map[string]bool) {
				for fn := range fns {
					for _, b := range fn.Blocks {
						for _, in := range b.Instrs {
							switch x := in.(type) {
							case *ssa.FieldAddr:
								if nt := namedOf(x.X.Type()); nt != nil && nt.Obj() == gsType.Obj() {
									fn_ := fieldName(x.X.Type(), x.Field)
									isStore := false
									if x.Referrers() != nil {
										for _, ref := range *x.Referrers() {
											if s, ok := ref.(*ssa.Store); ok && s.Addr == x {
												isStore = true
											}
										}
									}
									if isStore {
										writes[fn_] = true
									} else {
										reads[fn_] = true
									}
								}
							case *ssa.Field:
								if nt := namedOf(x.X.Type()); nt != nil && nt.Obj() == gsType.Obj() {
									reads[fieldName(x.X.Type(), x.Field)] = true
								}
							}
						}
					}
				}
			}
			scan(initReach, readInit, map[string]bool{})
			// export side: include the constructor NewGenesisState of the types package
			expFns := map[*ssa.Function]bool{}
			for f := range exportReach {
				expFns[f] = true
			}
			for _, fn := range mg.export {
				for _, c := range calls(fn) {
					if sc := c.Common().StaticCallee(); sc != nil && strings.HasPrefix(sc.Name(), "NewGenesis") {
						expFns[sc] = true
					}
				}
			}
			scan(expFns, map[string]bool{}, setExport)
			if st != nil {
				for i := 0; i < st.NumFields(); i++ {
					f := st.Field(i).Name()
					if strings.HasPrefix(f, "XXX_") {
						continue
					}
					r.Instance("R20.2")
					construct := fmt.Sprintf("module %s GenesisState.%s", m, f)
					switch {
					case setExport[f] && readInit[f]:
						r.OK("R20.2", construct, "filled by export and read by import", "")
					case setExport[f] && !readInit[f]:
						r.Fail("R20.2", construct, "ExportGenesis fills this field but InitGenesis never reads it: the exported value is ignored on import", p.pos(mg.init[0].Pos()), nil)
					case !setExport[f] && readInit[f]:
						r.Fail("R20.2", construct, "InitGenesis reads this field but ExportGenesis never fills it: the state it stands for is not exported", p.pos(mg.export[0].Pos()), nil)
					default:
						r.Fail("R20.2", construct, "the field is neither filled by export nor read by import", p.pos(mg.export[0].Pos()), nil)
					}
				}
			}
		}

		// R20.3 bulk readers reachable from export
		var efs []*ssa.Function
		for fn := range exportReach {
			efs = append(efs, fn)
		}
		sort.Slice(efs, func(i, j int) bool { return fname(efs[i]) < fname(efs[j]) })
		for _, fn := range efs {
			ops := p.storeOpsOf(fn)
			hasIter := false
			for _, so := range ops {
				if so.op == "Iterator" {
					hasIter = true
				}
			}
			if !hasIter {
				continue
			}
			for _, l := range loopsOf(fn) {
				for b := range l.Body {
					for _, in := range b.Instrs {
						c, ok := in.(*ssa.Call)
						if !ok {
							continue
						}
						bi, isB := c.Call.Value.(*ssa.Builtin)
						if !isB || bi.Name() != "append" || len(c.Call.Args) < 2 {
							continue
						}
						r.Instance("R20.3")
						r.FuncsSeen[fname(fn)] = true
						construct := fname(fn) + " appended element"
						if p.decodedElement(c.Call.Args[1], l) {
							r.OK("R20.3", construct, "element decoded from the iterator value before being appended", p.instrPos(c))
						} else {
							r.Fail("R20.3", construct, "the bulk reader appends an element that was never decoded from the iterator value (zero records are returned / exported)", p.instrPos(c), nil)
						}
					}
				}
			}
		}
	}
}

func namedOf(t types.Type) *types.Named {
	t = derefAll(t)
	if nt, ok := t.(*types.Named); ok {
		return nt
	}
	return nil
}

// decodedElement: the appended slice literal's element derives from a local that is the
// target of an Unmarshal-like call inside the loop, or from a call result.
func (p *Prog) decodedElement(arg ssa.Value, l *Loop) bool {
	ok := false
	seen := map[ssa.Value]bool{}
	var rec func(v ssa.Value, d int)
	rec = func(v ssa.Value, d int) {
		if v == nil || seen[v] || d > 8 || ok {
			return
		}
		seen[v] = true
		switch x := v.(type) {
		case *ssa.Slice:
			rec(x.X, d+1)
		case *ssa.Alloc:
			// stores into the literal array, or Unmarshal(&alloc)
			for _, ref := range *x.Referrers() {
				switch rr := ref.(type) {
				case *ssa.IndexAddr:
					if rr.Referrers() != nil {
						for _, r2 := range *rr.Referrers() {
							if st, isSt := r2.(*ssa.Store); isSt {
								rec(st.Val, d+1)
							}
						}
					}
				case *ssa.Store:
					if rr.Addr == x {
						rec(rr.Val, d+1)
					}
				case ssa.CallInstruction:
					n := calleeShortName(rr.Common())
					if rr.Common().IsInvoke() {
						n = rr.Common().Method.Name()
					}
					if strings.Contains(n, "Unmarshal") {
						ok = true
					}
				case *ssa.MakeInterface:
					if rr.Referrers() != nil {
						for _, r3 := range *rr.Referrers() {
							if ci, isC := r3.(ssa.CallInstruction); isC {
								n := calleeShortName(ci.Common())
								if ci.Common().IsInvoke() {
									n = ci.Common().Method.Name()
								}
								if strings.Contains(n, "Unmarshal") {
									ok = true
								}
							}
						}
					}
				}
			}
		case *ssa.UnOp:
			rec(x.X, d+1)
		case *ssa.Call, *ssa.Extract:
			// value produced by a call inside the loop (MustUnmarshalX(cdc, iter.Value()), k.GetX(...))
			ok = true
		case *ssa.Phi:
			for _, e := range x.Edges {
				rec(e, d+1)
			}
		case *ssa.FieldAddr:
			rec(x.X, d+1)
		case *ssa.Field:
			rec(x.X, d+1)
		case *ssa.MakeInterface:
			rec(x.X, d+1)
		case *ssa.ChangeType:
			rec(x.X, d+1)
		case *ssa.Convert:
			rec(x.X, d+1)
		}
	}
	rec(arg, 0)
	return ok
}

// initGenesisOrder extracts the module names passed to (*module.Manager).SetOrderInitGenesis in app/.
func (p *Prog) initGenesisOrder() []string {
	var out []string
	for _, fn := range p.Funcs {
		if !strings.HasPrefix(fname(fn), "app.") {
			continue
		}
		for _, c := range calls(fn) {
			sc := c.Common().StaticCallee()
			if sc == nil || sc.Name() != "SetOrderInitGenesis" {
				continue
			}
			args := c.Common().Args
			if len(args) < 2 {
				continue
			}
			sl, ok := args[len(args)-1].(*ssa.Slice)
			if !ok {
				continue
			}
			arr, ok := sl.X.(*ssa.Alloc)
			if !ok {
				continue
			}
			type ent struct {
				idx int64
				val string
			}
			var ents []ent
			for _, ref := range *arr.Referrers() {
				ia, ok := ref.(*ssa.IndexAddr)
				if !ok || ia.Referrers() == nil {
					continue
				}
				ic, ok := ia.Index.(*ssa.Const)
				if !ok {
					continue
				}
				for _, r2 := range *ia.Referrers() {
					if st, ok := r2.(*ssa.Store); ok {
						if s, isS := constString(st.Val); isS {
							ents = append(ents, ent{ic.Int64(), s})
						}
					}
				}
			}
			sort.Slice(ents, func(i, j int) bool { return ents[i].idx < ents[j].idx })
			for _, e := range ents {
				out = append(out, e.val)
			}
			return out
		}
	}
	return out
}

func genTokens(name string) map[string]bool {
	out := map[string]bool{}
	for _, t := range camelTokens(name) {
		switch t {
		case "get", "set", "all", "last", "id", "ids", "data", "the", "of", "for", "by", "list", "gen", "genesis", "new", "wise", "mapping", "map", "records", "record":
			continue
		case "bidding":
			t = "bid"
		case "mm": // the repository's abbreviation of "market making"
			out["market"], out["making"] = true, true
			continue
		}
		if len(t) > 3 && strings.HasSuffix(t, "ies") {
			t = t[:len(t)-3] + "y"
		} else if len(t) > 2 && strings.HasSuffix(t, "s") && !strings.HasSuffix(t, "ss") {
			t = t[:len(t)-1]
		}
		out[t] = true
	}
	return out
}

func tokSubset(a, b map[string]bool) bool {
	for t := range a {
		if !b[t] {
			return false
		}
	}
	return true
}

// genesisNameAgreement (R20.7):
//
//	export: a field of a genesis document filled directly from a keeper reader Get<X> carries
//	        the name of that reader (LastPoolId <- GetLastPoolID, not GetLastPairID);
//	import: a field of a genesis record handed to a keeper function goes to a parameter of the
//	        same name where both names are decidable (item.Name -> name, item.Denom -> denom,
//	        id kinds as in the identifier-kind rule).
func genesisNameAgreement(p *Prog, r *Report, rule, m string, exportReach, initReach map[*ssa.Function]bool) {
	var efs []*ssa.Function
	for f := range exportReach {
		if moduleOf(f) == m {
			efs = append(efs, f)
		}
	}
	sort.Slice(efs, func(i, j int) bool { return fname(efs[i]) < fname(efs[j]) })
	for _, fn := range efs {
		for _, b := range fn.Blocks {
			for _, in := range b.Instrs {
				st, ok := in.(*ssa.Store)
				if !ok {
					continue
				}
				fa, ok := st.Addr.(*ssa.FieldAddr)
				if !ok {
					continue
				}
				tn := namedTypeName(fa.X.Type())
				if !strings.Contains(tn, "Genesis") {
					continue
				}
				field := fieldName(fa.X.Type(), fa.Field)
				os := p.Origins(st.Val)
				if len(os) != 1 || os[0].Kind != "call" || len(os[0].Path) != 0 {
					continue
				}
				ts := p.Callees(os[0].Call)
				if len(ts) == 0 || !isComdexFn(ts[0]) || !strings.HasPrefix(ts[0].Name(), "Get") || ts[0].Signature.Recv() == nil {
					continue
				}
				ft, gt := genTokens(field), genTokens(ts[0].Name())
				if len(ft) == 0 || len(gt) == 0 {
					continue
				}
				r.Instance(rule)
				r.FuncsSeen[fname(fn)] = true
				construct := fmt.Sprintf("module %s export %s.%s <- %s", m, tn, field, ts[0].Name())
				if tokSubset(ft, gt) || tokSubset(gt, ft) {
					r.OK(rule, construct, "field filled from the reader of the same name", p.instrPos(st))
				} else {
					r.Fail(rule, construct, fmt.Sprintf("the genesis field %s is filled from %s, a reader of something else: the exported document carries the wrong value under that name and the import restores it faithfully", field, ts[0].Name()), p.instrPos(st), nil)
				}
			}
		}
	}
	var ifs []*ssa.Function
	for f := range initReach {
		if moduleOf(f) == m && !strings.Contains(fnPkgPath(f), "/keeper") {
			ifs = append(ifs, f) // the InitGenesis functions themselves (x/<m>/genesis.go)
		}
	}
	for f := range initReach {
		if moduleOf(f) == m && strings.Contains(fnPkgPath(f), "/keeper") && strings.Contains(strings.ToLower(f.Name()), "genesis") {
			ifs = append(ifs, f)
		}
	}
	sort.Slice(ifs, func(i, j int) bool { return fname(ifs[i]) < fname(ifs[j]) })
	strKind := func(name string) string {
		den, nam := false, false
		for _, t := range camelTokens(name) {
			switch t {
			case "denom":
				den = true
			case "name":
				nam = true
			}
		}
		switch {
		case den && !nam:
			return "denom"
		case nam && !den:
			return "name"
		}
		return ""
	}
	for _, fn := range ifs {
		n := map[string]int{}
		for _, c := range calls(fn) {
			ts := p.Callees(c)
			if len(ts) == 0 || !isComdexFn(ts[0]) || ts[0].Signature.Recv() == nil || strings.HasSuffix(fnPkgPath(ts[0]), "/types") {
				continue
			}
			t := ts[0]
			args := callArgs(c)
			pk := paramKinds(t)
			for i, a := range args {
				if i >= t.Signature.Params().Len() {
					continue
				}
				pname := t.Signature.Params().At(i).Name()
				var want, have string
				switch {
				case isUint64(a.Type()) && i < len(pk) && pk[i] != "":
					want, have = pk[i], p.argKind(a)
				case a.Type().String() == "string":
					want = strKind(pname)
					for _, o := range p.Origins(a) {
						if len(o.Path) == 0 {
							have = ""
							break
						}
						k := strKind(o.Path[len(o.Path)-1])
						if k == "" || (have != "" && have != k) {
							have = ""
							break
						}
						have = k
					}
				}
				if want == "" || have == "" {
					continue
				}
				r.Instance(rule)
				r.FuncsSeen[fname(fn)] = true
				base := fmt.Sprintf("module %s import %s -> %s arg %d (%s)", m, fname(fn), t.Name(), i, pname)
				n[base]++
				construct := base
				if n[base] > 1 {
					construct = fmt.Sprintf("%s #%d", base, n[base])
				}
				if have == want || compatibleKinds(have, want) {
					r.OK(rule, construct, "a "+have+" goes to the "+want+" parameter", p.instrPos(c))
				} else {
					r.Fail(rule, construct, fmt.Sprintf("a %s of the genesis record is restored through the %s parameter of %s: the index / counter rebuilt at import differs from the exported chain's", have, want, t.Name()), p.instrPos(c), nil)
				}
			}
		}
	}
}
