package main

import (
	"fmt"
	"sort"
	"strings"

	"golang.org/x/tools/go/ssa"
)

func init() {
	register("C01", rulesC01)
	register("C02", rulesC02)
}

// vaultTwinSpec is shared by C01 (custody/totals) and C02 (supply/principal).
func vaultTwinSpec(p *Prog, rule string) *TwinSpec {
	vaultMod := modConst(p, "x/vault/types")
	updColl := p.MustFunc("x/vault/keeper.Keeper.UpdateCollateralLockedAmountLockerMapping")
	updMint := p.MustFunc("x/vault/keeper.Keeper.UpdateTokenMintedAmountLockerMapping")
	aggr := p.MustFunc("x/vault/keeper.Keeper.UpdateAppExtendedPairVaultMappingDataOnMsgCreate")
	aggrS := p.MustFunc("x/vault/keeper.Keeper.UpdateAppExtendedPairVaultMappingDataOnMsgCreateStableMintVault")
	del := p.MustFunc("x/vault/keeper.Keeper.DeleteVault")
	return &TwinSpec{
		Rule: rule,
		Classes: []EffectClass{
			{"debt-minted", func(e *BankEffect) bool { return e.Op == "Mint" && moduleName(e.From) == vaultMod }},
			{"debt-burnt", func(e *BankEffect) bool { return e.Op == "Burn" && moduleName(e.From) == vaultMod }},
			{"collateral-in", func(e *BankEffect) bool {
				return e.Op == "AccToMod" && moduleName(e.To) == vaultMod && p.coinRole(e.Coins) == "in"
			}},
			{"collateral-out", func(e *BankEffect) bool {
				return e.Op == "ModToAcc" && moduleName(e.From) == vaultMod && p.coinRole(e.Coins) == "in"
			}},
		},
		Updaters: []Updater{
			{Fn: updColl, AmtArg: 3, DirArg: 4, Plus: "collateral-in", Minus: "collateral-out"},
			{Fn: updMint, AmtArg: 3, DirArg: 4, Plus: "debt-minted", Minus: "debt-burnt"},
			{Fn: aggr, Aggr: true, Classes: []string{"debt-minted", "collateral-in"}},
			{Fn: aggrS, Aggr: true, Classes: []string{"debt-minted", "collateral-in"}},
		},
		Fields: []FieldRule{
			{"Vault", "AmountIn", "collateral-in", "collateral-out"},
			{"Vault", "AmountOut", "debt-minted", "debt-burnt"},
			{"StableMintVault", "AmountIn", "collateral-in", "collateral-out"},
			{"StableMintVault", "AmountOut", "debt-minted", "debt-burnt"},
		},
		Deleters:  map[*ssa.Function][]string{del: {"debt-burnt", "collateral-out"}},
		NeedStore: map[string]bool{"debt-minted": true, "debt-burnt": true, "collateral-in": true, "collateral-out": true},
	}
}

func vaultHandlers(p *Prog) []Entry {
	var hs []Entry
	for _, e := range p.MsgHandlers() {
		if e.Module == "vault" {
			hs = append(hs, e)
		}
	}
	return hs
}

// counterBalance: R01.1. On every success path of fn the number of vault-count
// increments minus decrements equals the number of vault creations minus deletions.
// The analysis is a forward data-flow over small integer sets.
type deltaSet map[int]bool

func (p *Prog) vaultCountDeltas(fn *ssa.Function, inc func(c ssa.CallInstruction) (int, bool), memo map[*ssa.Function]deltaSet, depth int) deltaSet {
	if d, ok := memo[fn]; ok {
		if d == nil {
			return deltaSet{0: true}
		}
		return d
	}
	memo[fn] = nil
	if len(fn.Blocks) == 0 || depth > 8 {
		memo[fn] = deltaSet{0: true}
		return memo[fn]
	}
	// per-block transfer: set of possible sums contributed by the block
	blockDelta := map[*ssa.BasicBlock]deltaSet{}
	for _, b := range fn.Blocks {
		cur := deltaSet{0: true}
		for _, in := range b.Instrs {
			c, ok := in.(ssa.CallInstruction)
			if !ok {
				continue
			}
			if _, isDefer := c.(*ssa.Defer); isDefer {
				continue
			}
			var add deltaSet
			if d, ok := inc(c); ok {
				add = deltaSet{d: true}
			} else {
				for _, t := range p.Callees(c) {
					if isComdexFn(t) && len(t.Blocks) > 0 {
						ds := p.vaultCountDeltas(t, inc, memo, depth+1)
						if add == nil {
							add = deltaSet{}
						}
						for k := range ds {
							add[k] = true
						}
					}
				}
				// closures passed as arguments (ApplyFuncIfNoError): they may run and commit, or fail and revert
				for _, a := range c.Common().Args {
					if fv := funcValue(a); fv != nil && isComdexFn(fv) {
						ds := p.vaultCountDeltas(fv, inc, memo, depth+1)
						if add == nil {
							add = deltaSet{}
						}
						for k := range ds {
							add[k] = true
						}
						add[0] = true
					}
				}
			}
			if add == nil {
				continue
			}
			nxt := deltaSet{}
			for a := range cur {
				for b2 := range add {
					s := a + b2
					if s > 3 {
						s = 3
					}
					if s < -3 {
						s = -3
					}
					nxt[s] = true
				}
			}
			cur = nxt
		}
		blockDelta[b] = cur
	}
	// forward propagation ignoring back edges (a loop body must itself be balanced)
	back := backEdges(fn)
	in := map[*ssa.BasicBlock]deltaSet{fn.Blocks[0]: {0: true}}
	out := deltaSet{}
	order := fn.DomPreorder()
	changed := true
	for iter := 0; changed && iter < 10; iter++ {
		changed = false
		for _, b := range order {
			src := in[b]
			if src == nil {
				continue
			}
			res := deltaSet{}
			for a := range src {
				for d := range blockDelta[b] {
					res[a+d] = true
				}
			}
			for i, s := range b.Succs {
				if back[Edge{b, i}] {
					continue
				}
				if in[s] == nil {
					in[s] = deltaSet{}
				}
				for k := range res {
					if !in[s][k] {
						in[s][k] = true
						changed = true
					}
				}
			}
		}
	}
	for _, rt := range returns(fn) {
		if exitKind(rt) == ExitError {
			continue
		}
		src := in[rt.Block()]
		for a := range src {
			for d := range blockDelta[rt.Block()] {
				out[a+d] = true
			}
		}
	}
	if len(out) == 0 {
		out[0] = true
	}
	memo[fn] = out
	return out
}

func rulesC01(p *Prog, r *Report) {
	r.Explanation = "Decides the bookkeeping shape behind 'vault custody, count and published totals match the open vaults' (not the sums themselves): (R01.1) on every success path of every unit that touches the vault counter, counter increments minus decrements equal vault creations minus deletions; (R01.2) in every vault message handler each movement of collateral into/out of vault custody and each mint/burn of debt is accompanied on the same path by the totals update of the matching direction and by the matching change of the vault record, and every booked amount is the very amount moved (expression identity with flow-sensitive resolution of locals); (R01.3) no handler uses a copy of a vault read before a call that may rewrite the vault (stale write-back / stale guard argument); (R01.4) the liquidation sweeps' per-vault units are proper all-or-nothing units (shared with C15)."
	r.Assumptions = []string{"unsolicited transfers to the custody account are outside the property", "amount equality is decided by expression identity; a re-computation of the same value by different code would be reported", "SDK runTx atomicity"}

	vaultCounterBalanceRule(p, r, "R01.1")
	setVault := p.MustFunc("x/vault/keeper.Keeper.SetVault")
	touches := p.NewMay(func(c ssa.CallInstruction, callee *ssa.Function) bool {
		return callee == p.MustFunc("x/vault/keeper.Keeper.SetLengthOfVault") || callee == p.MustFunc("x/vault/keeper.Keeper.SetIDForVault") || callee == p.MustFunc("x/vault/keeper.Keeper.DeleteVault")
	})

	// R01.2 ------------------------------------------------------------------------
	r.Rule("R01.2", "custody movement <=> totals update <=> vault record change, same amount (vault handlers)", 40)
	spec := vaultTwinSpec(p, "R01.2")
	for _, e := range vaultHandlers(p) {
		p.analyseTwins(r, spec, e.Fn)
	}

	// R01.3 ------------------------------------------------------------------------
	r.Rule("R01.3", "no stale copy of a vault is used after a call that may rewrite it", 5)
	getVault := p.MustFunc("x/vault/keeper.Keeper.GetVault")
	writerMay := p.NewMay(func(c ssa.CallInstruction, callee *ssa.Function) bool { return callee == setVault })
	verify := p.MustFunc("x/vault/keeper.Keeper.VerifyCollaterlizationRatio")
	updColl := p.MustFunc("x/vault/keeper.Keeper.UpdateCollateralLockedAmountLockerMapping")
	updMint := p.MustFunc("x/vault/keeper.Keeper.UpdateTokenMintedAmountLockerMapping")
	for _, e := range vaultHandlers(p) {
		uses := func(c ssa.CallInstruction) bool {
			return p.callIsFn(c, setVault, verify, updColl, updMint) || bankEffect(c) != nil
		}
		p.staleReads(r, "R01.3", e.Fn, "Vault", []*ssa.Function{getVault}, writerMay, setVault, uses)
	}

	// R01.5 settlement side: totals reduced outside the vault handlers ------------------------
	settlementTotals(p, r, "R01.5", true)
	vaultCreditOutsideHandlers(p, r, "R01.8")

	// R01.4 ------------------------------------------------------------------------
	unitContextRule(p, r, "R01.4", func(u WorkUnit) bool { return u.Closure != nil && touches.Fn(u.Closure) }, 2)
}

// unitContextRule: the closures selected by sel, passed to ApplyFuncIfNoError, use only
// their own sdk.Context parameter (shared with C15's R15.2).
func unitContextRule(p *Prog, r *Report, rule string, sel func(u WorkUnit) bool, floor int) {
	r.Rule(rule, "per-item units use only their own cache context (all-or-nothing step)", floor)
	for _, u := range p.WorkUnits() {
		if !sel(u) {
			continue
		}
		r.Instance(rule)
		r.FuncsSeen[fname(u.Closure)] = true
		if bad, pos := capturedOuterContext(p, u.Closure); bad != "" {
			r.Fail(rule, fname(u.Closure), "the unit uses the outer sdk.Context '"+bad+"' instead of its own cache-context parameter: a failed step leaves its partial writes (custody moved, record not updated)", pos, nil)
		} else {
			r.OK(rule, fname(u.Closure), "no sdk.Context captured from outside the unit", p.instrPos(u.Call))
		}
	}
}

// capturedOuterContext returns the name of an sdk.Context free variable bound outside the
// unit closure (and its first use), or "".
func capturedOuterContext(p *Prog, closure *ssa.Function) (string, string) {
	var nested []*ssa.Function
	var collect func(f *ssa.Function)
	collect = func(f *ssa.Function) {
		nested = append(nested, f)
		for _, a := range f.AnonFuncs {
			collect(a)
		}
	}
	collect(closure)
	inUnit := map[*ssa.Function]bool{}
	for _, f := range nested {
		inUnit[f] = true
	}
	for _, f := range nested {
		for _, fv := range f.FreeVars {
			t := fv.Type()
			if !isContextType(t) {
				continue
			}
			var v ssa.Value = fv
			for i := 0; i < 6; i++ {
				x, ok := v.(*ssa.FreeVar)
				if !ok {
					break
				}
				b := freeVarBinding(x)
				if b == nil {
					break
				}
				v = b
			}
			var definedIn *ssa.Function
			switch x := v.(type) {
			case *ssa.Parameter:
				definedIn = x.Parent()
			case ssa.Instruction:
				definedIn = x.Parent()
			}
			if definedIn == nil || !inUnit[definedIn] {
				pos := p.pos(closure.Pos())
				if refs := fv.Referrers(); refs != nil && len(*refs) > 0 {
					pos = p.instrPos((*refs)[0])
				}
				return fv.Name(), pos
			}
		}
	}
	return "", ""
}

func rulesC02(p *Prog, r *Report) {
	r.Explanation = "Decides the structural conditions of 'no unbacked stablecoin': (R02.1) in every vault handler that mints, what is handed to the user and to the collector are the minted amount or its stated split (user = minted - collector share, collector share derived from the minted amount and the draw-down fee); (R02.2) every burn retires exactly the recorded principal reduction and every mint records exactly the new principal (shared twin analysis with C01, classes debt-minted / debt-burnt); (R02.3) the vault module's debt is minted only inside those handlers; (R02.4) the stable-mint create/deposit siblings agree. It does not decide the supply identity as a number nor the cross-decimal conversion arithmetic."
	r.Assumptions = []string{"amount equality is expression identity with flow-sensitive resolution of locals", "SDK runTx atomicity"}
	vaultMod := modConst(p, "x/vault/types")
	collMod := modConst(p, "x/collector/types")

	// R02.2 (twin analysis restricted to the debt classes)
	r.Rule("R02.2", "mint records exactly the new principal; burn retires exactly the recorded reduction", 15)
	spec := vaultTwinSpec(p, "R02.2")
	var cls []EffectClass
	for _, c := range spec.Classes {
		if strings.HasPrefix(c.Name, "debt-") {
			cls = append(cls, c)
		}
	}
	spec.Classes = cls
	var ups []Updater
	for _, u := range spec.Updaters {
		if u.Aggr || u.Plus == "debt-minted" {
			ups = append(ups, u)
		}
	}
	spec.Updaters = ups
	var frs []FieldRule
	for _, f := range spec.Fields {
		if f.Field == "AmountOut" {
			frs = append(frs, f)
		}
	}
	spec.Fields = frs
	for _, e := range vaultHandlers(p) {
		p.analyseTwins(r, spec, e.Fn)
	}

	// R02.1 mint split ---------------------------------------------------------------
	r.Rule("R02.1", "user payout = minted or minted - collector share; collector share derives from the minted amount and DrawDownFee", 8)
	mintSites := map[*ssa.Function]bool{}
	for _, e := range vaultHandlers(p) {
		fn := e.Fn
		var minted []string
		var mintedVals []ssa.Value
		var collectorKeys []string
		type pay struct {
			be   *BankEffect
			amts []ssa.Value
		}
		var userPays []pay
		var collPays []pay
		for _, c := range calls(fn) {
			be := bankEffect(c)
			if be == nil {
				continue
			}
			amts, _ := p.coinParts(be.Coins)
			switch {
			case be.Op == "Mint" && moduleName(be.From) == vaultMod:
				mintSites[fn] = true
				for _, a := range amts {
					minted = append(minted, p.ExprKey(a))
					mintedVals = append(mintedVals, a)
				}
			case be.Op == "ModToAcc" && moduleName(be.From) == vaultMod && p.coinRole(be.Coins) == "out":
				userPays = append(userPays, pay{be, amts})
			case be.Op == "ModToMod" && moduleName(be.From) == vaultMod && moduleName(be.To) == collMod && p.coinRole(be.Coins) == "out":
				collPays = append(collPays, pay{be, amts})
				for _, a := range amts {
					collectorKeys = append(collectorKeys, p.ExprKey(a))
				}
			}
		}
		if len(minted) == 0 {
			continue
		}
		r.FuncsSeen[e.Name] = true
		n := 0
		for _, up := range userPays {
			for _, a := range up.amts {
				n++
				r.Instance("R02.1")
				construct := fmt.Sprintf("%s user payout #%d", e.Name, n)
				k := p.ExprKey(a)
				ok := false
				for _, m := range minted {
					if k == m {
						ok = true
					}
				}
				if !ok {
					if op, recv, x, isAS := addSubOf(a); isAS && op == "Sub" {
						rk, xk := p.ExprKey(recv), p.ExprKey(x)
						for _, m := range minted {
							if rk == m {
								for _, ck := range collectorKeys {
									if xk == ck {
										ok = true
									}
								}
							}
						}
					}
				}
				if ok {
					r.OK("R02.1", construct, "payout is the minted amount or minted minus the collector share", p.instrPos(up.be.Call))
				} else {
					r.Fail("R02.1", construct, fmt.Sprintf("the debt handed to the user (%s) is neither the minted amount %v nor minted minus the collector share %v: supply and recorded principal diverge", k, uniq(minted), uniq(collectorKeys)), p.instrPos(up.be.Call), nil)
				}
			}
		}
		m := 0
		for _, cp := range collPays {
			for _, a := range cp.amts {
				m++
				r.Instance("R02.1")
				construct := fmt.Sprintf("%s collector share #%d", e.Name, m)
				fromMint, fromFee := false, false
				mo := map[string]bool{}
				for _, mv := range mintedVals {
					for _, s := range p.OriginStrings(mv) {
						mo[s] = true
					}
				}
				for _, s := range p.OriginStrings(a) {
					if mo[s] {
						fromMint = true
					}
					if strings.HasSuffix(s, ".DrawDownFee") {
						fromFee = true
					}
				}
				if fromMint && fromFee {
					r.OK("R02.1", construct, "collector share derives from the minted amount and the draw-down fee", p.instrPos(cp.be.Call))
				} else {
					r.Fail("R02.1", construct, "the amount sent to the collector at mint time does not derive from the minted amount and the product's DrawDownFee", p.instrPos(cp.be.Call), nil)
				}
			}
		}
	}

	// R02.4 settlement burns: the minted total is reduced by exactly what is burnt
	settlementTotals(p, r, "R02.4", false)

	// R02.3 who mints ------------------------------------------------------------------
	r.Rule("R02.3", "vault-module debt is minted only inside the vault mint handlers", 4)
	handlerSet := map[*ssa.Function]bool{}
	for _, e := range vaultHandlers(p) {
		handlerSet[e.Fn] = true
	}
	for _, fn := range p.Funcs {
		if p.isAuxFn(fn) {
			continue
		}
		for _, c := range calls(fn) {
			be := bankEffect(c)
			if be == nil || be.Op != "Mint" || moduleName(be.From) != vaultMod {
				continue
			}
			r.Instance("R02.3")
			construct := fname(fn) + " MintCoins(" + vaultMod + ")"
			if handlerSet[fn] {
				r.OK("R02.3", construct, "mint site is inside a vault message handler covered by R02.1/R02.2", p.instrPos(c))
			} else {
				r.Fail("R02.3", construct, "debt is minted from the vault module outside the vault mint handlers (interest, fees and settlements must be paid from existing supply)", p.instrPos(c), nil)
			}
		}
	}
}

// settlementTotals: outside the vault message handlers (auction settlement, emergency shutdown)
// the published minted total is reduced by exactly an amount burnt in the same function (or by
// the recorded principal of a vault that the function deletes), and the collateral total by a
// recorded collateral amount, never by a message value.
func settlementTotals(p *Prog, r *Report, rule string, withCollateral bool) {
	r.Rule(rule, "auction settlement / shutdown: totals reduced by exactly what is burnt / by recorded amounts", 4)
	updColl := p.MustFunc("x/vault/keeper.Keeper.UpdateCollateralLockedAmountLockerMapping")
	updMint := p.MustFunc("x/vault/keeper.Keeper.UpdateTokenMintedAmountLockerMapping")
	handlers := map[*ssa.Function]bool{}
	for _, e := range vaultHandlers(p) {
		handlers[e.Fn] = true
	}
	var fns []*ssa.Function
	for _, fn := range p.Funcs {
		if !p.isAuxFn(fn) && !handlers[fn] && moduleOf(fn) != "vault" {
			fns = append(fns, fn)
		}
	}
	sort.Slice(fns, func(i, j int) bool { return fname(fns[i]) < fname(fns[j]) })
	recTypes := map[string]bool{"Vault": true, "LockedVault": true, "DutchAuction": true, "Auction": true, "StableMintVault": true}
	for _, fn := range fns {
		var burnt []string
		deletesVault := false
		for _, c := range calls(fn) {
			if be := bankEffect(c); be != nil && be.Op == "Burn" {
				burnt = append(burnt, p.amountKeys(be.Coins)...)
			}
			if p.callIs(c, "DeleteVault", "DeleteStableMintVault") {
				deletesVault = true
			}
		}
		n := 0
		for _, c := range calls(fn) {
			isMint := p.callIsFn(c, updMint)
			isColl := p.callIsFn(c, updColl)
			if !isMint && !(isColl && withCollateral) {
				continue
			}
			args := callArgs(c)
			if len(args) < 5 {
				continue
			}
			dir, isC := constBool(args[4])
			if !isC || dir {
				continue
			}
			n++
			r.Instance(rule)
			r.FuncsSeen[fname(fn)] = true
			x := args[3]
			if isMint {
				construct := fmt.Sprintf("%s minted total -= #%d", fname(fn), n)
				alts := altKeys(p, x)
				okBurn := allAltsIn(alts, burnt)
				okRecord := deletesVault && p.fromRecordFieldsLoose(x, map[string]bool{"Vault": true, "StableMintVault": true}, map[string]bool{"AmountOut": true})
				// wrapper: the amount is a parameter of this function; its callers must pass the burnt coin
				okParam := false
				for _, o := range p.DeepOrigins(x) {
					if pr, isP := o.Val.(*ssa.Parameter); isP && o.Kind == "param" && pr.Parent() == fn {
						okParam = true
						idx := paramIndex(pr)
						for _, cs := range p.CallSitesOf(fn) {
							cargs := cs.Common().Args
							if idx >= len(cargs) {
								okParam = false
								continue
							}
							var cb []string
							for _, c2 := range calls(cs.Parent()) {
								if be := bankEffect(c2); be != nil && be.Op == "Burn" {
									cb = append(cb, p.amountKeys(be.Coins)...)
								}
							}
							if !intersects(p.amountKeys(cargs[idx]), cb) {
								okParam = false
							}
						}
					}
				}
				// emergency shutdown registers the vault's debt for redemption instead of burning it
				registers := false
				for _, c2 := range calls(fn) {
					if p.callIs(c2, "SetAssetToAmount") {
						registers = true
					}
				}
				fromVaultRec := p.fromRecordFieldsLoose(x, map[string]bool{"Vault": true, "StableMintVault": true}, map[string]bool{"AmountOut": true})
				switch {
				case okBurn || okRecord || okParam:
					r.OK(rule, construct, "reduced by an amount burnt here (or the recorded principal of the deleted vault)", p.instrPos(c))
				case registers && fromVaultRec && !withCollateral:
					r.OK(rule, construct, "the recorded principal is registered for emergency redemption (esm AssetToAmount) instead of burnt", p.instrPos(c))
				case registers && fromVaultRec && withCollateral:
					r.Fail(rule, construct, "emergency shutdown moves the position's collateral out of vault custody and takes it off the published totals, but the position record is neither deleted nor zeroed: the record keeps claiming collateral that vault custody no longer holds", p.instrPos(c), nil)
				default:
					r.Fail(rule, construct, fmt.Sprintf("the published minted total is reduced by %v, which is not an amount burnt in this settlement %v: recorded principal and supply diverge", keysOf(p, x), uniq(burnt)), p.instrPos(c), nil)
				}
			} else {
				construct := fmt.Sprintf("%s collateral total -= #%d", fname(fn), n)
				fromRec := p.fromRecordFieldsLoose(x, recTypes, map[string]bool{"CollateralToken": true, "AmountIn": true, "OutflowTokenInitAmount": true, "CollateralToBeAuctioned": true})
				fromParam := false
				for _, o := range p.DeepOrigins(x) {
					if pr, isP := o.Val.(*ssa.Parameter); isP && o.Kind == "param" && pr.Parent() == fn && msgParam(fn) != pr {
						fromParam = true
					}
				}
				// what leaves the total is the whole seized collateral, or the seized collateral less
				// what the same function credits back to a vault (shutdown returns the unsold part)
				bad := ""
				if fromRec {
					bad = seizedLessReturned(p, fn, x)
				} else if fromParam {
					for _, o := range p.DeepOrigins(x) {
						pr, isP := o.Val.(*ssa.Parameter)
						if !isP || o.Kind != "param" || pr.Parent() != fn {
							continue
						}
						idx := paramIndex(pr)
						for _, cs := range p.CallSitesOf(fn) {
							if cargs := cs.Common().Args; idx < len(cargs) {
								if why := seizedLessReturned(p, cs.Parent(), cargs[idx]); why != "" {
									bad = fmt.Sprintf("%s (call at %s)", why, p.instrPos(cs))
								}
							}
						}
					}
				}
				if bad != "" {
					r.Fail(rule, construct, bad, p.instrPos(c), nil)
				} else if fromRec || fromParam {
					r.OK(rule, construct, "reduced by a recorded collateral amount", p.instrPos(c))
				} else {
					r.Fail(rule, construct, "the published collateral total is reduced by a value that does not come from the recorded collateral of the seized position", p.instrPos(c), nil)
				}
			}
		}
	}
}

// vaultCreditOutsideHandlers (R01.8): outside the vault message handlers a vault's recorded
// collateral is credited only by an amount that the same function moves into vault custody.
// Instances: stores Vault.AmountIn = old + X, and the AmountIn argument of CreateNewVault.
func vaultCreditOutsideHandlers(p *Prog, r *Report, rule string) {
	r.Rule(rule, "outside the vault handlers, recorded vault collateral is credited by exactly an amount moved into vault custody in the same function", 3)
	vaultMod := modConst(p, "x/vault/types")
	create := p.MustFunc("x/vault/keeper.Keeper.CreateNewVault")
	handlers := map[*ssa.Function]bool{}
	for _, e := range vaultHandlers(p) {
		handlers[e.Fn] = true
	}
	var fns []*ssa.Function
	for _, fn := range p.Funcs {
		if !p.isAuxFn(fn) && !handlers[fn] && len(fn.Blocks) > 0 {
			fns = append(fns, fn)
		}
	}
	sort.Slice(fns, func(i, j int) bool { return fname(fns[i]) < fname(fns[j]) })
	movedIn := func(fn *ssa.Function) []string {
		var out []string
		for _, c := range calls(fn) {
			if be := bankEffect(c); be != nil && (be.Op == "ModToMod" || be.Op == "AccToMod") && moduleName(be.To) == vaultMod {
				out = append(out, p.amountKeys(be.Coins)...)
			}
		}
		return out
	}
	for _, fn := range fns {
		type credit struct {
			v   ssa.Value
			pos string
			how string
		}
		var credits []credit
		for _, b := range fn.Blocks {
			for _, in := range b.Instrs {
				switch x := in.(type) {
				case *ssa.Store:
					base, path := addrBase(x.Addr)
					if len(path) == 0 || path[0] != "AmountIn" || namedTypeName(base.Type()) != "Vault" {
						continue
					}
					if op, _, amt, ok := addSubOf(x.Val); ok && op == "Add" {
						credits = append(credits, credit{amt, p.instrPos(x), "AmountIn +="})
					}
				case ssa.CallInstruction:
					if p.callIsFn(x, create) {
						if args := callArgs(x); len(args) >= 5 {
							credits = append(credits, credit{args[4], p.instrPos(x), "CreateNewVault AmountIn"})
						}
					}
				}
			}
		}
		if len(credits) == 0 {
			continue
		}
		moved := movedIn(fn)
		for i, cr := range credits {
			r.Instance(rule)
			r.FuncsSeen[fname(fn)] = true
			construct := fmt.Sprintf("%s %s #%d", fname(fn), cr.how, i+1)
			alts := altKeys(p, cr.v)
			if allAltsIn(alts, moved) {
				r.OK(rule, construct, "credited amount is an amount moved into vault custody here", cr.pos)
				continue
			}
			if fn == create && paramOnly(p, cr.v, fn) {
				r.OK(rule, construct, "CreateNewVault credits its AmountIn parameter; every call site is its own instance of this rule", cr.pos)
				continue
			}
			// a helper crediting its own parameter: every caller must move that amount in
			okParam := false
			for _, o := range p.DeepOrigins(cr.v) {
				pr, isP := o.Val.(*ssa.Parameter)
				if !isP || o.Kind != "param" || pr.Parent() != fn || len(o.Path) != 0 {
					okParam = false
					break
				}
				okParam = true
				idx := paramIndex(pr)
				sites := p.CallSitesOf(fn)
				if len(sites) == 0 {
					okParam = false
				}
				for _, cs := range sites {
					cargs := cs.Common().Args
					if idx >= len(cargs) || !allAltsIn(altKeys(p, cargs[idx]), movedIn(cs.Parent())) {
						okParam = false
					}
				}
				if !okParam {
					break
				}
			}
			if okParam {
				r.OK(rule, construct, "credited amount is a parameter; every caller moves that amount into vault custody", cr.pos)
				continue
			}
			r.Fail(rule, construct, fmt.Sprintf("the vault's recorded collateral is credited by %v, which is not an amount moved into vault custody in this function %v: records and custody diverge", keysOf(p, cr.v), uniq(moved)), cr.pos, nil)
		}
	}
}

// paramOnly: every origin of v is a whole parameter of fn.
func paramOnly(p *Prog, v ssa.Value, fn *ssa.Function) bool {
	os := p.DeepOrigins(v)
	if len(os) == 0 {
		return false
	}
	for _, o := range os {
		pr, isP := o.Val.(*ssa.Parameter)
		if !isP || o.Kind != "param" || pr.Parent() != fn || len(o.Path) != 0 {
			return false
		}
	}
	return true
}

// seizedLessReturned: x is a recorded seized-collateral amount, possibly less an amount that
// fn credits back to a vault; anything else subtracted from it is reported.
func seizedLessReturned(p *Prog, fn *ssa.Function, x ssa.Value) string {
	op, _, sub, ok := addSubOf(x)
	if !ok || op != "Sub" {
		return ""
	}
	credited := map[string]bool{}
	create := p.byName["x/vault/keeper.Keeper.CreateNewVault"]
	for _, b := range fn.Blocks {
		for _, in := range b.Instrs {
			switch y := in.(type) {
			case *ssa.Store:
				base, path := addrBase(y.Addr)
				if len(path) > 0 && path[0] == "AmountIn" && namedTypeName(base.Type()) == "Vault" {
					if op2, _, amt, ok2 := addSubOf(y.Val); ok2 && op2 == "Add" {
						credited[p.ExprKey(amt)] = true
					}
				}
			case ssa.CallInstruction:
				if create != nil && p.callIsFn(y, create) {
					if args := callArgs(y); len(args) >= 5 {
						credited[p.ExprKey(args[4])] = true
					}
				}
			}
		}
	}
	keys := []string{p.ExprKey(sub)}
	if strings.HasSuffix(sub.Type().String(), "types.Coin") {
		keys = append(keys, p.amountKeys(sub)...)
	}
	for _, k := range keys {
		if credited[k] {
			return ""
		}
	}
	return fmt.Sprintf("the published collateral total is reduced by the seized collateral less %v, but this function credits no vault with that amount: collateral that leaves the product (returned to the owner's account) stays in the published total", keys)
}

// vaultCounterBalanceRule: the vault length counter (which also bounds the liquidation
// sweeps' window) moves exactly with vault creation and deletion. Shared by C01 and C09.
func vaultCounterBalanceRule(p *Prog, r *Report, rule string) {
	// R01.1 ------------------------------------------------------------------------
	r.Rule(rule, "vault counter moves exactly with vault creation/deletion on every success path", 6)
	setLen := p.MustFunc("x/vault/keeper.Keeper.SetLengthOfVault")
	getLen := p.MustFunc("x/vault/keeper.Keeper.GetLengthOfVault")
	setVault := p.MustFunc("x/vault/keeper.Keeper.SetVault")
	setID := p.MustFunc("x/vault/keeper.Keeper.SetIDForVault")
	delVault := p.MustFunc("x/vault/keeper.Keeper.DeleteVault")
	_ = setVault
	// classify a SetLengthOfVault call by its argument: length+1 / length-1
	incOf := func(c ssa.CallInstruction) (int, bool) {
		if p.callIsFn(c, setLen) {
			args := callArgs(c)
			if len(args) >= 2 {
				if b, ok := args[1].(*ssa.BinOp); ok {
					if k, isC := b.Y.(*ssa.Const); isC && k.Value != nil && k.Value.ExactString() == "1" {
						fromGet := false
						for _, o := range p.Origins(b.X) {
							if o.Kind == "call" && p.callIsFn(o.Call, getLen) {
								fromGet = true
							}
						}
						if fromGet && b.Op.String() == "+" {
							return 1, true
						}
						if fromGet && b.Op.String() == "-" {
							return -1, true
						}
					}
				}
			}
			return 3, true // unrecognised counter write: never balanced
		}
		if p.callIsFn(c, setID) {
			return -1, true // a fresh vault id is consumed: one creation
		}
		if p.callIsFn(c, delVault) {
			return 1, true // one deletion
		}
		return 0, false
	}
	touches := p.NewMay(func(c ssa.CallInstruction, callee *ssa.Function) bool {
		return callee == setLen || callee == setID || callee == delVault
	})
	// roots: message handlers, hooks and work-unit closures that may touch the counter
	type root struct {
		fn   *ssa.Function
		name string
	}
	var roots []root
	unitClosure := map[*ssa.Function]bool{}
	for _, u := range p.WorkUnits() {
		if u.Closure != nil && touches.Fn(u.Closure) {
			unitClosure[u.Closure] = true
			roots = append(roots, root{u.Closure, "unit " + fname(u.Closure)})
		}
	}
	for _, e := range p.MsgHandlers() {
		if touches.Fn(e.Fn) {
			roots = append(roots, root{e.Fn, "msg " + e.Name})
		}
	}
	for _, e := range p.WasmHandlers() {
		if touches.Fn(e.Fn) && !strings.HasSuffix(e.Name, ".DispatchMsg") {
			roots = append(roots, root{e.Fn, "wasm " + e.Name})
		}
	}
	sort.Slice(roots, func(i, j int) bool { return roots[i].name < roots[j].name })
	for _, rt := range roots {
		r.Instance(rule)
		r.FuncsSeen[fname(rt.fn)] = true
		memo := map[*ssa.Function]deltaSet{}
		ds := p.vaultCountDeltas(rt.fn, incOf, memo, 0)
		var vals []int
		for k := range ds {
			vals = append(vals, k)
		}
		sort.Ints(vals)
		ok := len(vals) == 1 && vals[0] == 0
		if ok {
			r.OK(rule, rt.name, "counter delta equals creations minus deletions on every success path", p.pos(rt.fn.Pos()))
		} else {
			r.Fail(rule, rt.name, fmt.Sprintf("on some success path the vault counter moves differently from the number of vaults created/deleted (possible imbalances: %v; +n = counter too high)", vals), p.pos(rt.fn.Pos()), nil)
		}
	}

}
