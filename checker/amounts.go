package main

import (
	"fmt"
	"go/token"
	"go/types"
	"sort"
	"strings"

	"golang.org/x/tools/go/ssa"
)

// coinParts decomposes a Coins / Coin value into the amount values and denom values it
// is built from (through sdk.NewCoins, sdk.NewCoin, Coins{...} literals and comdex coin
// helpers). A coin that is not constructed locally (msg.Amount of type sdk.Coin, a stored
// Coin field) is returned as its own amount.
func (p *Prog) coinParts(coins ssa.Value) (amts []ssa.Value, denoms []ssa.Value) {
	seen := map[ssa.Value]bool{}
	var rec func(v ssa.Value, d int)
	rec = func(v ssa.Value, d int) {
		if v == nil || seen[v] || d > 8 {
			return
		}
		seen[v] = true
		for _, o := range p.Origins(v) {
			if o.Kind == "call" && len(o.Path) == 0 || (o.Kind == "call" && len(o.Path) == 1 && o.Path[0] == "[]") {
				sc := o.Call.Call.StaticCallee()
				name := ""
				if sc != nil {
					name = sc.Name()
				}
				args := callArgs(o.Call)
				switch {
				case name == "NewCoins":
					for _, a := range o.Call.Call.Args {
						rec(a, d+1)
					}
					continue
				case name == "NewCoin" && len(o.Call.Call.Args) == 2:
					denoms = append(denoms, o.Call.Call.Args[0])
					amts = append(amts, o.Call.Call.Args[1])
					continue
				case name == "NewInt64Coin" && len(o.Call.Call.Args) == 2:
					denoms = append(denoms, o.Call.Call.Args[0])
					amts = append(amts, o.Call.Call.Args[1])
					continue
				case name == "ReturnCoin" && len(args) == 3:
					amts = append(amts, args[2])
					continue
				case (name == "Add" || name == "Sub") && sc != nil && strings.Contains(fullName(sc), "types.Coin"):
					// coin arithmetic: the result is its own amount
					amts = append(amts, o.Val)
					continue
				}
			}
			if o.Kind == "alloc" && len(o.Path) == 0 {
				continue
			}
			// not constructed here: the coin value itself stands for its amount
			amts = append(amts, originValue(o, v))
		}
	}
	rec(coins, 0)
	return
}

func originValue(o Origin, fallback ssa.Value) ssa.Value {
	if len(o.Path) == 0 && o.Val != nil {
		return o.Val
	}
	return fallback
}

// ExprKey gives a canonical key of the expression computing v, such that two values with
// the same key are the same amount. Loads of locals are resolved through their reaching
// stores; anything that cannot be shown stable is keyed by instruction identity.
func (p *Prog) ExprKey(v ssa.Value) string {
	return p.exprKey(v, 0)
}

func idOf(v ssa.Value) string {
	if in, ok := v.(ssa.Instruction); ok {
		return fmt.Sprintf("%s@%s#%d", v.Name(), in.Parent().Name(), in.Block().Index)
	}
	return v.Name()
}

func (p *Prog) exprKey(v ssa.Value, d int) string {
	if d > 10 {
		return "deep:" + idOf(v)
	}
	switch x := v.(type) {
	case *ssa.Const:
		if x.Value == nil {
			return "nil"
		}
		return "c:" + x.Value.ExactString()
	case *ssa.Parameter:
		return "p:" + x.Name()
	case *ssa.Convert:
		return p.exprKey(x.X, d+1)
	case *ssa.ChangeType:
		return p.exprKey(x.X, d+1)
	case *ssa.MakeInterface:
		return p.exprKey(x.X, d+1)
	case *ssa.Field:
		return p.exprKey(x.X, d+1) + "." + fieldName(x.X.Type(), x.Field)
	case *ssa.Extract:
		return idOf(x.Tuple) + "#" + itoa(x.Index)
	case *ssa.BinOp:
		return "(" + p.exprKey(x.X, d+1) + x.Op.String() + p.exprKey(x.Y, d+1) + ")"
	case *ssa.Call:
		if n := calleeFullName(&x.Call); n != "" && isTransparentCallee(n) {
			var parts []string
			for _, a := range x.Call.Args {
				parts = append(parts, p.exprKey(a, d+1))
			}
			return short(n) + "(" + strings.Join(parts, ",") + ")"
		}
		return "call:" + idOf(x)
	case *ssa.UnOp:
		if x.Op != token.MUL {
			return x.Op.String() + p.exprKey(x.X, d+1)
		}
		// element of a slice that is not written in this function: stable
		if ia, ok := x.X.(*ssa.IndexAddr); ok {
			if _, isAlloc := ia.X.(*ssa.Alloc); !isAlloc && !elementStored(ia) {
				return "idx(" + p.exprKey(ia.X, d+1) + "," + p.exprKey(ia.Index, d+1) + ")"
			}
		}
		// load: resolve through the single reaching definition when there is one
		base, path := addrBase(x.X)
		switch b := base.(type) {
		case *ssa.Alloc:
			if defs, entry := reachingStores(b, path, x); !entry && len(defs) == 1 {
				dd := defs[0]
				rest := path
				if !dd.whole {
					rest = path[dd.depth:]
				}
				k := p.exprKey(dd.st.Val, d+1)
				if len(rest) > 0 {
					k += "." + strings.Join(rest, ".")
				}
				return k
			}
			return "load:" + idOf(x)
		case *ssa.Parameter:
			// field of a pointer parameter (the request): stable unless stored to in this function
			if !p.fieldStoredInFn(b, path) {
				return "p:" + b.Name() + "." + strings.Join(path, ".")
			}
			return "load:" + idOf(x)
		}
		return "load:" + idOf(x)
	case *ssa.Phi:
		return "phi:" + idOf(x)
	}
	return "v:" + idOf(v)
}

// addrBase peels FieldAddr chains: returns the root address value and the field path.
func addrBase(a ssa.Value) (ssa.Value, []string) {
	var path []string
	for {
		fa, ok := a.(*ssa.FieldAddr)
		if !ok {
			return a, path
		}
		path = append([]string{fieldName(fa.X.Type(), fa.Field)}, path...)
		a = fa.X
	}
}

func (p *Prog) fieldStoredInFn(base ssa.Value, path []string) bool {
	refs := base.Referrers()
	if refs == nil {
		return false
	}
	for _, ref := range *refs {
		if fa, ok := ref.(*ssa.FieldAddr); ok {
			if len(path) > 0 && fieldName(fa.X.Type(), fa.Field) == path[0] {
				if fa.Referrers() != nil {
					for _, r2 := range *fa.Referrers() {
						if st, ok := r2.(*ssa.Store); ok && st.Addr == fa {
							return true
						}
					}
				}
			}
		}
	}
	return false
}

// amountKeys returns the sorted distinct expression keys of the amounts of a coins value.
func (p *Prog) amountKeys(coins ssa.Value) []string {
	amts, _ := p.coinParts(coins)
	set := map[string]bool{}
	for _, a := range amts {
		set[p.ExprKey(a)] = true
	}
	var out []string
	for k := range set {
		out = append(out, k)
	}
	sort.Strings(out)
	return out
}

// fieldStores lists the stores into field `field` of local variables of named type typ in
// fn, with the stored value.
func fieldStores(fn *ssa.Function, typ, field string) []*ssa.Store {
	var out []*ssa.Store
	for _, b := range fn.Blocks {
		for _, in := range b.Instrs {
			st, ok := in.(*ssa.Store)
			if !ok {
				continue
			}
			fa, ok := st.Addr.(*ssa.FieldAddr)
			if !ok {
				continue
			}
			if namedTypeName(fa.X.Type()) == typ && fieldName(fa.X.Type(), fa.Field) == field {
				out = append(out, st)
			}
		}
	}
	return out
}

// addSubOf: v == recv.Add(x) / recv.Sub(x) (sdk math or Coin); returns op, receiver, operand.
func addSubOf(v ssa.Value) (op string, recv, x ssa.Value, ok bool) {
	c, isCall := v.(*ssa.Call)
	if !isCall {
		return "", nil, nil, false
	}
	sc := c.Call.StaticCallee()
	if sc == nil || len(c.Call.Args) != 2 {
		return "", nil, nil, false
	}
	if sc.Name() != "Add" && sc.Name() != "Sub" {
		return "", nil, nil, false
	}
	n := fullName(sc)
	if !(strings.HasPrefix(n, "cosmossdk.io/math.") || strings.Contains(n, "cosmos-sdk/types.Coin")) {
		return "", nil, nil, false
	}
	return sc.Name(), c.Call.Args[0], c.Call.Args[1], true
}

func isIntLike(t types.Type) bool {
	s := t.String()
	return strings.HasSuffix(s, "math.Int") || strings.HasSuffix(s, "types.Coin") || strings.HasSuffix(s, "math.LegacyDec")
}

// elementStored: some element of the same slice value is stored to in the function.
func elementStored(ia *ssa.IndexAddr) bool {
	refs := ia.X.Referrers()
	if refs == nil {
		return false
	}
	for _, ref := range *refs {
		if other, ok := ref.(*ssa.IndexAddr); ok && other.Referrers() != nil {
			for _, r2 := range *other.Referrers() {
				if st, ok := r2.(*ssa.Store); ok && st.Addr == other {
					return true
				}
			}
		}
	}
	return false
}
