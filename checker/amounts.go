package main

import (
	"fmt"
	"go/token"
	"go/types"
	"sort"
	"strings"

	"golang.org/x/tools/go/ssa"
)

// coinParts decomposes a Coins / Coin value into the amount values and denom values it
// is built from (through sdk.NewCoins, sdk.NewCoin, Coins{...} literals and comdex coin
// helpers). A coin that is not constructed locally (msg.Amount of type sdk.Coin, a stored
// Coin field) is returned as its own amount.
func (p *Prog) coinParts(coins ssa.Value) (amts []ssa.Value, denoms []ssa.Value) {
	seen := map[ssa.Value]bool{}
	var rec func(v ssa.Value, d int)
	rec = func(v ssa.Value, d int) {
		if v == nil || seen[v] || d > 10 {
			return
		}
		seen[v] = true
		switch x := v.(type) {
		case *ssa.Call:
			name := calleeShortName(&x.Call)
			full := calleeFullName(&x.Call)
			args := callArgs(x)
			switch {
			case name == "NewCoins":
				for _, a := range x.Call.Args {
					rec(a, d+1)
				}
				return
			case (name == "NewCoin" || name == "NewInt64Coin") && len(x.Call.Args) == 2:
				denoms = append(denoms, x.Call.Args[0])
				amts = append(amts, x.Call.Args[1])
				return
			case name == "ReturnCoin" && len(args) == 3:
				amts = append(amts, args[2])
				return
			case name == "Sort" && strings.Contains(full, "types.Coins") && len(x.Call.Args) == 1:
				rec(x.Call.Args[0], d+1)
				return
			}
			amts = append(amts, v)
		case *ssa.Slice:
			rec(x.X, d+1)
		case *ssa.Alloc:
			// array backing a variadic / composite literal: its element stores
			n := 0
			for _, ref := range *x.Referrers() {
				if ia, ok := ref.(*ssa.IndexAddr); ok && ia.Referrers() != nil {
					for _, r2 := range *ia.Referrers() {
						if st, ok := r2.(*ssa.Store); ok && st.Addr == ia {
							n++
							rec(st.Val, d+1)
						}
					}
				}
			}
			if n == 0 {
				amts = append(amts, v)
			}
		case *ssa.Phi:
			for _, e := range x.Edges {
				rec(e, d+1)
			}
		case *ssa.ChangeType:
			rec(x.X, d+1)
		case *ssa.MakeInterface:
			rec(x.X, d+1)
		case *ssa.UnOp:
			if x.Op == token.MUL {
				if a, ok := x.X.(*ssa.Alloc); ok {
					// a local Coin variable: its Amount field as it reaches this load
					isCoin := strings.HasSuffix(a.Type().(*types.Pointer).Elem().String(), "types.Coin")
					path := []string(nil)
					if isCoin {
						path = []string{"Amount"}
					}
					if defs, entry := reachingStores(a, path, x); !entry && len(defs) > 0 {
						for _, dd := range defs {
							if dd.whole {
								rec(dd.st.Val, d+1)
							} else {
								amts = append(amts, dd.st.Val) // coin.Amount = X
							}
						}
						return
					}
				}
			}
			amts = append(amts, v)
		default:
			amts = append(amts, v)
		}
	}
	rec(coins, 0)
	return
}

// ExprKey gives a canonical key of the expression computing v, such that two values with
// the same key are the same amount. Loads of locals are resolved through their reaching
// stores; anything that cannot be shown stable is keyed by instruction identity.
func (p *Prog) ExprKey(v ssa.Value) string {
	return p.exprKey(v, 0)
}

func idOf(v ssa.Value) string {
	if in, ok := v.(ssa.Instruction); ok {
		return fmt.Sprintf("%s@%s#%d", v.Name(), in.Parent().Name(), in.Block().Index)
	}
	return v.Name()
}

func (p *Prog) exprKey(v ssa.Value, d int) string {
	if d > 10 {
		return "deep:" + idOf(v)
	}
	switch x := v.(type) {
	case *ssa.Const:
		if x.Value == nil {
			return "nil"
		}
		return "c:" + x.Value.ExactString()
	case *ssa.Parameter:
		return "p:" + x.Name()
	case *ssa.Convert:
		return p.exprKey(x.X, d+1)
	case *ssa.ChangeType:
		return p.exprKey(x.X, d+1)
	case *ssa.MakeInterface:
		return p.exprKey(x.X, d+1)
	case *ssa.Field:
		return p.exprKey(x.X, d+1) + "." + fieldName(x.X.Type(), x.Field)
	case *ssa.Extract:
		return idOf(x.Tuple) + "#" + itoa(x.Index)
	case *ssa.BinOp:
		return "(" + p.exprKey(x.X, d+1) + x.Op.String() + p.exprKey(x.Y, d+1) + ")"
	case *ssa.Call:
		if n := calleeFullName(&x.Call); n != "" && isTransparentCallee(n) {
			var parts []string
			for _, a := range x.Call.Args {
				parts = append(parts, p.exprKey(a, d+1))
			}
			return short(n) + "(" + strings.Join(parts, ",") + ")"
		}
		return "call:" + idOf(x)
	case *ssa.UnOp:
		if x.Op != token.MUL {
			return x.Op.String() + p.exprKey(x.X, d+1)
		}
		// element of a slice that is not written in this function: stable
		if ia, ok := x.X.(*ssa.IndexAddr); ok {
			if _, isAlloc := ia.X.(*ssa.Alloc); !isAlloc && !elementStored(ia) {
				return "idx(" + p.exprKey(ia.X, d+1) + "," + p.exprKey(ia.Index, d+1) + ")"
			}
		}
		// load: resolve through the single reaching definition when there is one
		base, path := addrBase(x.X)
		switch b := base.(type) {
		case *ssa.Alloc:
			ids, partial, idsOK := reachingDefIDs(b, path, x)
			if defs, entry := reachingStores(b, path, x); !entry && len(defs) == 1 && !partial {
				dd := defs[0]
				rest := path
				if !dd.whole {
					rest = path[dd.depth:]
				}
				k := p.exprKey(dd.st.Val, d+1)
				if len(rest) > 0 {
					k += "." + strings.Join(rest, ".")
				}
				return k
			}
			if idsOK && len(ids) > 0 {
				// several definitions reach the load: loads of the same path with the same
				// reaching definitions read the same value
				return "ld:" + idOf(b) + "." + strings.Join(path, ".") + "@" + strings.Join(ids, ",")
			}
			return "load:" + idOf(x)
		case *ssa.Parameter:
			// field of a pointer parameter (the request): stable unless stored to in this function
			if !p.fieldStoredInFn(b, path) {
				return "p:" + b.Name() + "." + strings.Join(path, ".")
			}
			return "load:" + idOf(x)
		case *ssa.FreeVar:
			// variable captured by a closure (the per-item units): stable inside the closure
			// unless the closure itself stores to an overlapping path or passes its address on
			if !pathStoredVia(b, path) {
				return "fv:" + b.Name() + "." + strings.Join(path, ".")
			}
			return "load:" + idOf(x)
		}
		return "load:" + idOf(x)
	case *ssa.Phi:
		return "phi:" + idOf(x)
	}
	return "v:" + idOf(v)
}

// addrBase peels FieldAddr chains: returns the root address value and the field path.
func addrBase(a ssa.Value) (ssa.Value, []string) {
	var path []string
	for {
		fa, ok := a.(*ssa.FieldAddr)
		if !ok {
			return a, path
		}
		path = append([]string{fieldName(fa.X.Type(), fa.Field)}, path...)
		a = fa.X
	}
}

func (p *Prog) fieldStoredInFn(base ssa.Value, path []string) bool {
	refs := base.Referrers()
	if refs == nil {
		return false
	}
	for _, ref := range *refs {
		if fa, ok := ref.(*ssa.FieldAddr); ok {
			if len(path) > 0 && fieldName(fa.X.Type(), fa.Field) == path[0] {
				if fa.Referrers() != nil {
					for _, r2 := range *fa.Referrers() {
						if st, ok := r2.(*ssa.Store); ok && st.Addr == fa {
							return true
						}
					}
				}
			}
		}
	}
	return false
}

// coinAmountDef: a is a Coin loaded from a local (or a field of one) whose Amount field
// was last assigned on its own (coin.Amount = x; send(coin)): returns x. nil otherwise.
func coinAmountDef(a ssa.Value) ssa.Value {
	u, ok := a.(*ssa.UnOp)
	if !ok || u.Op != token.MUL {
		return nil
	}
	base, path := addrBase(u.X)
	al, ok := base.(*ssa.Alloc)
	if !ok {
		return nil
	}
	full := append(append([]string{}, path...), "Amount")
	defs, entry := reachingStores(al, full, u)
	if entry || len(defs) != 1 {
		return nil
	}
	dd := defs[0]
	if dd.whole || dd.depth != len(full) {
		return nil
	}
	return dd.st.Val
}

// pathStoredVia: some store in the function goes through base to a path overlapping the
// given one (prefix in either direction), or base itself is stored to / passed to a call.
func pathStoredVia(base ssa.Value, path []string) bool {
	var visit func(v ssa.Value, chain []string) bool
	visit = func(v ssa.Value, chain []string) bool {
		refs := v.Referrers()
		if refs == nil {
			return false
		}
		for _, ref := range *refs {
			switch x := ref.(type) {
			case *ssa.Store:
				if x.Addr == v {
					n := len(chain)
					if n > len(path) {
						n = len(path)
					}
					same := true
					for j := 0; j < n; j++ {
						if chain[j] != path[j] {
							same = false
						}
					}
					if same {
						return true
					}
				}
			case *ssa.FieldAddr:
				if x.X == v {
					if visit(x, append(append([]string{}, chain...), fieldName(x.X.Type(), x.Field))) {
						return true
					}
				}
			case ssa.CallInstruction:
				for _, a := range x.Common().Args {
					if a == v {
						return true
					}
				}
			}
		}
		return false
	}
	return visit(base, nil)
}

// amountKeys returns the sorted distinct expression keys of the amounts of a coins value.
func (p *Prog) amountKeys(coins ssa.Value) []string {
	amts, _ := p.coinParts(coins)
	set := map[string]bool{}
	for _, a := range amts {
		k := p.ExprKey(a)
		ts := a.Type().String()
		if strings.HasSuffix(ts, "types.Coin") {
			if av := coinAmountDef(a); av != nil {
				k = p.ExprKey(av) // the Coin's Amount field was assigned separately
			} else {
				k += ".Amount" // a whole Coin stands for its amount
			}
		}
		set[k] = true
	}
	var out []string
	for k := range set {
		out = append(out, k)
	}
	sort.Strings(out)
	return out
}

// fieldStores lists the stores into field `field` of local variables of named type typ in
// fn, with the stored value.
func fieldStores(fn *ssa.Function, typ, field string) []*ssa.Store {
	var out []*ssa.Store
	for _, b := range fn.Blocks {
		for _, in := range b.Instrs {
			st, ok := in.(*ssa.Store)
			if !ok {
				continue
			}
			fa, ok := st.Addr.(*ssa.FieldAddr)
			if !ok {
				continue
			}
			if namedTypeName(fa.X.Type()) == typ && fieldName(fa.X.Type(), fa.Field) == field {
				out = append(out, st)
			}
		}
	}
	return out
}

// addSubOf: v == recv.Add(x) / recv.Sub(x) (sdk math or Coin); returns op, receiver, operand.
func addSubOf(v ssa.Value) (op string, recv, x ssa.Value, ok bool) {
	c, isCall := v.(*ssa.Call)
	if !isCall {
		return "", nil, nil, false
	}
	sc := c.Call.StaticCallee()
	if sc == nil || len(c.Call.Args) != 2 {
		return "", nil, nil, false
	}
	if sc.Name() != "Add" && sc.Name() != "Sub" {
		return "", nil, nil, false
	}
	n := fullName(sc)
	if !(strings.HasPrefix(n, "cosmossdk.io/math.") || strings.Contains(n, "cosmos-sdk/types.Coin")) {
		return "", nil, nil, false
	}
	return sc.Name(), c.Call.Args[0], c.Call.Args[1], true
}

func isIntLike(t types.Type) bool {
	s := t.String()
	return strings.HasSuffix(s, "math.Int") || strings.HasSuffix(s, "types.Coin") || strings.HasSuffix(s, "math.LegacyDec")
}

// elementStored: some element of the same slice value is stored to in the function.
func elementStored(ia *ssa.IndexAddr) bool {
	refs := ia.X.Referrers()
	if refs == nil {
		return false
	}
	for _, ref := range *refs {
		if other, ok := ref.(*ssa.IndexAddr); ok && other.Referrers() != nil {
			for _, r2 := range *other.Referrers() {
				if st, ok := r2.(*ssa.Store); ok && st.Addr == other {
					return true
				}
			}
		}
	}
	return false
}
