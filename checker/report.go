package main

import (
	"encoding/json"
	"fmt"
	"os"
	"path/filepath"
	"sort"
	"strings"
	"time"
)

var verifDir = "/verif"

// analysisError aborts the run with exit 2: the analysis could not be carried out.
// It is never reported as a violation.
func analysisError(format string, a ...interface{}) {
	fmt.Printf("ANALYSIS-ERROR: "+format+"\n", a...)
	os.Exit(2)
}

// Finding is one violated obligation: rule + construct is its stable identity.
type Finding struct {
	Property  string   `json:"property"`
	Rule      string   `json:"rule"`
	Construct string   `json:"construct"`
	Message   string   `json:"message"`
	Pos       string   `json:"pos"`
	Witness   []string `json:"witness,omitempty"`
}

// Obligation is one (rule instance × clause) that was decided.
type Obligation struct {
	Rule      string `json:"rule"`
	Construct string `json:"construct"`
	Detail    string `json:"detail,omitempty"`
	Pos       string `json:"pos,omitempty"`
	OK        bool   `json:"ok"`
}

// Report collects what one property check covered.
type Report struct {
	Property    string
	Tier        string
	Seed        int64
	Start       time.Time
	Obligations []Obligation
	Findings    []Finding
	Rules       map[string]*RuleStat
	Notes       []string
	Info        map[string]interface{}
	Explanation string
	Assumptions []string
	Controls    []ControlResult
	FuncsSeen   map[string]bool
}

type RuleStat struct {
	Rule       string `json:"rule"`
	What       string `json:"what"`
	Instances  int    `json:"instances"`
	Floor      int    `json:"floor"`
	Discharged int    `json:"discharged"`
	Violated   int    `json:"violated"`
}

type ControlResult struct {
	Name     string `json:"name"`
	Status   string `json:"status"` // detected | MISSED | not-applicable | silent-ok (negative control)
	Expected string `json:"expected,omitempty"`
	Detail   string `json:"detail,omitempty"`
}

func NewReport(prop, tier string, seed int64) *Report {
	return &Report{Property: prop, Tier: tier, Seed: seed, Start: time.Now(), Rules: map[string]*RuleStat{}, Info: map[string]interface{}{}, FuncsSeen: map[string]bool{}}
}

// Rule declares a rule with its instance floor (a rule matching fewer instances than
// confirmed by hand must not pass vacuously).
func (r *Report) Rule(rule, what string, floor int) {
	if _, ok := r.Rules[rule]; !ok {
		r.Rules[rule] = &RuleStat{Rule: rule, What: what, Floor: floor}
	}
}

func (r *Report) stat(rule string) *RuleStat {
	s, ok := r.Rules[rule]
	if !ok {
		s = &RuleStat{Rule: rule}
		r.Rules[rule] = s
	}
	return s
}

// Instance counts one discovered rule instance (for the floor) without deciding it.
func (r *Report) Instance(rule string) { r.stat(rule).Instances++ }

// OK records a discharged obligation.
func (r *Report) OK(rule, construct, detail, pos string) {
	r.stat(rule).Discharged++
	r.Obligations = append(r.Obligations, Obligation{Rule: rule, Construct: construct, Detail: detail, Pos: pos, OK: true})
}

// Fail records a violated obligation.
func (r *Report) Fail(rule, construct, msg, pos string, witness []string) {
	for _, f := range r.Findings {
		if f.Rule == rule && f.Construct == construct {
			return // same construct reported once
		}
	}
	r.stat(rule).Violated++
	r.Obligations = append(r.Obligations, Obligation{Rule: rule, Construct: construct, Detail: msg, Pos: pos, OK: false})
	r.Findings = append(r.Findings, Finding{Property: r.Property, Rule: rule, Construct: construct, Message: msg, Pos: pos, Witness: witness})
}

func (r *Report) Note(format string, a ...interface{}) {
	r.Notes = append(r.Notes, fmt.Sprintf(format, a...))
}

// KnownFinding is an entry of /verif/known_findings.json.
type KnownFinding struct {
	Property  string `json:"property"`
	Rule      string `json:"rule"`
	Construct string `json:"construct"`
	Status    string `json:"status"` // known | fixed
	Commit    string `json:"commit,omitempty"`
	What      string `json:"what"`
}

func loadKnown() []KnownFinding {
	b, err := os.ReadFile(filepath.Join(verifDir, "known_findings.json"))
	if err != nil {
		return nil
	}
	var doc struct {
		Findings []KnownFinding `json:"findings"`
	}
	if err := json.Unmarshal(b, &doc); err != nil {
		analysisError("known_findings.json does not parse: %v", err)
	}
	return doc.Findings
}

// floorErrors lists the rules that matched fewer instances than their floor.
func (r *Report) floorErrors() []string {
	var out []string
	var names []string
	for n := range r.Rules {
		names = append(names, n)
	}
	sort.Strings(names)
	for _, n := range names {
		if s := r.Rules[n]; s.Instances < s.Floor {
			out = append(out, fmt.Sprintf("rule %s matched %d instances, floor is %d", n, s.Instances, s.Floor))
		}
	}
	return out
}

// Finish writes evidence and violation files, prints the verdict lines and returns the exit code.
func (r *Report) Finish(quiet bool) int {
	known := loadKnown()
	// floors
	var floorErrs []string
	var ruleNames []string
	for n := range r.Rules {
		ruleNames = append(ruleNames, n)
	}
	sort.Strings(ruleNames)
	for _, n := range ruleNames {
		s := r.Rules[n]
		if s.Instances < s.Floor {
			floorErrs = append(floorErrs, fmt.Sprintf("rule %s matched %d instances, floor is %d", n, s.Instances, s.Floor))
		}
	}
	sort.Slice(r.Findings, func(i, j int) bool {
		a, b := r.Findings[i], r.Findings[j]
		if a.Rule != b.Rule {
			return a.Rule < b.Rule
		}
		return a.Construct < b.Construct
	})
	var newF []Finding
	var knownHit []map[string]string
	matched := map[int]bool{}
	for _, f := range r.Findings {
		hit := -1
		for i, k := range known {
			if k.Status == "known" && k.Property == f.Property && k.Rule == f.Rule && k.Construct == f.Construct {
				hit = i
				break
			}
		}
		if hit >= 0 {
			matched[hit] = true
			if !quiet {
				fmt.Printf("KNOWN-FINDING: property=%s %s [%s %s] %s\n", f.Property, known[hit].What, f.Rule, f.Construct, f.Pos)
			}
			knownHit = append(knownHit, map[string]string{"rule": f.Rule, "construct": f.Construct, "what": known[hit].What, "pos": f.Pos})
		} else {
			newF = append(newF, f)
		}
	}
	var stale []string
	for i, k := range known {
		if k.Status == "known" && k.Property == r.Property && !matched[i] {
			stale = append(stale, k.Rule+" "+k.Construct)
		}
	}
	evDir := filepath.Join(verifDir, "evidence")
	if d := os.Getenv("VERIF_EVIDENCE_DIR"); d != "" {
		evDir = d // scratch runs against seeded changes must not overwrite the committed evidence
	}
	vdir := filepath.Join(evDir, "violations")
	os.MkdirAll(vdir, 0o755)
	// remove old violation files of this property
	if old, _ := filepath.Glob(filepath.Join(vdir, r.Property+"-*.json")); old != nil {
		for _, o := range old {
			os.Remove(o)
		}
	}
	var vpaths []string
	for i, f := range newF {
		path := filepath.Join(vdir, fmt.Sprintf("%s-%d.json", r.Property, i+1))
		b, _ := json.MarshalIndent(f, "", "  ")
		os.WriteFile(path, b, 0o644)
		vpaths = append(vpaths, path)
		if !quiet {
			fmt.Printf("%s: [%s] %s: %s\n", f.Pos, f.Rule, f.Construct, f.Message)
			for _, w := range f.Witness {
				fmt.Printf("    via %s\n", w)
			}
			fmt.Printf("VIOLATION property=%s replay=%s\n", f.Property, path)
		}
	}
	if want := os.Getenv("COMDEXLINT_OBL"); want != "" {
		for _, o := range r.Obligations {
			if o.Rule == want {
				fmt.Printf("OBL %v %s | %s | %s | %s\n", o.OK, o.Rule, o.Construct, o.Detail, o.Pos)
			}
		}
	}
	if os.Getenv("COMDEXLINT_EMIT_KNOWN") != "" {
		var ks []KnownFinding
		for _, f := range newF {
			ks = append(ks, KnownFinding{Property: f.Property, Rule: f.Rule, Construct: f.Construct, Status: "known", What: f.Pos + ": " + f.Message})
		}
		b, _ := json.MarshalIndent(ks, "", "  ")
		os.WriteFile(os.Getenv("COMDEXLINT_EMIT_KNOWN"), b, 0o644)
	}
	// evidence
	total, discharged := 0, 0
	distinct := map[string]bool{}
	var samples []Obligation
	perRule := map[string]int{}
	for _, o := range r.Obligations {
		total++
		if o.OK {
			discharged++
			if perRule[o.Rule] < 3 {
				samples = append(samples, o)
				perRule[o.Rule]++
			}
		}
		distinct[o.Rule+"|"+o.Construct+"|"+o.Detail] = true
	}
	for _, o := range r.Obligations {
		if !o.OK && len(samples) < 60 {
			samples = append(samples, o)
		}
	}
	var rules []*RuleStat
	for _, n := range ruleNames {
		rules = append(rules, r.Rules[n])
	}
	var funcs []string
	for f := range r.FuncsSeen {
		funcs = append(funcs, f)
	}
	sort.Strings(funcs)
	cov := map[string]interface{}{
		"explanation":         r.Explanation,
		"obligations":         total,
		"discharged":          discharged,
		"evaluations":         total,
		"distinct_nontrivial": len(distinct),
		"rule":                "one obligation = one (rule, construct, clause) decided on the SSA/CFG of /repo's current source; distinct = distinct (rule, construct, detail) triples; an obligation is non-trivial because it is only created for a discovered rule instance (effect site, guard, record accessor), never for a function without one",
		"samples":             samples,
		"rules":               rules,
		"functions_analysed":  len(funcs),
		"known_findings":      knownHit,
		"stale_known_entries": stale,
		"new_violations":      newF,
		"notes":               r.Notes,
		"exhaustive":          true,
	}
	if len(funcs) > 0 {
		n := len(funcs)
		if n > 40 {
			n = 40
		}
		cov["functions_sample"] = funcs[:n]
	}
	for k, v := range r.Info {
		cov[k] = v
	}
	if len(r.Controls) > 0 {
		cov["positive_controls"] = r.Controls
	}
	ev := map[string]interface{}{
		"property_id": r.Property,
		"tier":        r.Tier,
		"seed":        r.Seed,
		"level":       "other",
		"coverage":    cov,
		"assumptions": nonNil(r.Assumptions),
		"wall_s":      time.Since(r.Start).Seconds(),
		"violations":  len(newF),
	}
	b, _ := json.MarshalIndent(ev, "", " ")
	os.MkdirAll(evDir, 0o755)
	if err := os.WriteFile(filepath.Join(evDir, r.Property+".json"), b, 0o644); err != nil {
		analysisError("cannot write evidence: %v", err)
	}
	if len(floorErrs) > 0 {
		analysisError("%s", strings.Join(floorErrs, "; "))
	}
	if !quiet {
		for _, s := range rules {
			fmt.Printf("rule %-8s instances=%d (floor %d) discharged=%d violated=%d  %s\n", s.Rule, s.Instances, s.Floor, s.Discharged, s.Violated, s.What)
		}
		for _, c := range r.Controls {
			if c.Status == "MISSED" {
				fmt.Printf("CONTROL-MISSED %s: %s\n", c.Name, c.Detail)
			} else {
				fmt.Printf("control %s: %s\n", c.Name, c.Status)
			}
		}
		fmt.Printf("%s %s: %d obligations, %d discharged, %d known findings, %d new violations, %.1fs\n", r.Property, r.Tier, total, discharged, len(knownHit), len(newF), time.Since(r.Start).Seconds())
	}
	if len(newF) > 0 {
		return 1
	}
	return 0
}

func nonNil(s []string) []string {
	if s == nil {
		return []string{"interface calls resolve to comdex implementations", "cosmos-sdk bank / store / transaction atomicity semantics"}
	}
	return s
}
