package main

import (
	"go/constant"
	"go/token"
	"go/types"
	"strings"

	"golang.org/x/tools/go/ssa"
)

// Rel is a set of orderings between two operands X ? Y.
type Rel uint8

const (
	RLT  Rel = 1
	REQ  Rel = 2
	RGT  Rel = 4
	RLE      = RLT | REQ
	RGE      = RGT | REQ
	RNE      = RLT | RGT
	RANY     = RLT | REQ | RGT
)

func (r Rel) mirror() Rel {
	var m Rel
	if r&RLT != 0 {
		m |= RGT
	}
	if r&RGT != 0 {
		m |= RLT
	}
	if r&REQ != 0 {
		m |= REQ
	}
	return m
}

func (r Rel) subsetOf(s Rel) bool { return r&^s == 0 }

func (r Rel) String() string {
	switch r {
	case RLT:
		return "<"
	case REQ:
		return "=="
	case RGT:
		return ">"
	case RLE:
		return "<="
	case RGE:
		return ">="
	case RNE:
		return "!="
	case RANY:
		return "any"
	}
	return "none"
}

var relOfMethod = map[string]Rel{
	"LT": RLT, "LTE": RLE, "GT": RGT, "GTE": RGE, "Equal": REQ, "Equals": REQ,
	"IsLT": RLT, "IsLTE": RLE, "IsGT": RGT, "IsGTE": RGE, "IsEqual": REQ,
	"IsAllLT": RLT, "IsAllLTE": RLE, "IsAllGT": RGT, "IsAllGTE": RGE,
}

var relOfToken = map[token.Token]Rel{token.LSS: RLT, token.LEQ: RLE, token.GTR: RGT, token.GEQ: RGE, token.EQL: REQ, token.NEQ: RNE}

// isZeroValue: v is a numeric zero (sdk.ZeroInt(), sdk.ZeroDec(), NewInt(0), constant 0).
func isZeroValue(v ssa.Value) bool {
	switch x := v.(type) {
	case *ssa.Const:
		if x.Value == nil {
			return false
		}
		if x.Value.Kind() == constant.Int || x.Value.Kind() == constant.Float {
			return constant.Sign(x.Value) == 0
		}
	case *ssa.Call:
		if n := calleeShortName(&x.Call); n != "" {
			if n == "ZeroInt" || n == "ZeroDec" || n == "LegacyZeroDec" || n == "ZeroUint" {
				return true
			}
			if (n == "NewInt" || n == "NewDec" || n == "LegacyNewDec" || n == "NewIntFromUint64") && len(x.Call.Args) == 1 {
				return isZeroValue(x.Call.Args[0])
			}
		}
	case *ssa.Convert:
		return isZeroValue(x.X)
	}
	return false
}

// subOperands: v == a.Sub(b) (sdk math) or a - b.
func subOperands(v ssa.Value) (a, b ssa.Value, ok bool) {
	switch x := v.(type) {
	case *ssa.Call:
		if sc := x.Call.StaticCallee(); sc != nil && sc.Name() == "Sub" && strings.HasPrefix(fullName(sc), "cosmossdk.io/math.") && len(x.Call.Args) == 2 {
			return x.Call.Args[0], x.Call.Args[1], true
		}
	case *ssa.BinOp:
		if x.Op == token.SUB {
			return x.X, x.Y, true
		}
	}
	return nil, nil, false
}

// CmpRel classifies a condition as a comparison X ? Y and gives the set of orderings
// implied on its true and on its false edge. Sign tests on a difference are comparisons
// of the two terms; sign tests on a plain value compare it with zero (Y == nil).
func (p *Prog) CmpRel(cond ssa.Value) (x, y ssa.Value, onTrue, onFalse Rel, ok bool) {
	neg := false
	v := cond
	for {
		if u, isU := v.(*ssa.UnOp); isU && u.Op == token.NOT {
			neg = !neg
			v = u.X
			continue
		}
		break
	}
	var rel Rel
	switch c := v.(type) {
	case *ssa.BinOp:
		r, isCmp := relOfToken[c.Op]
		if !isCmp {
			return nil, nil, 0, 0, false
		}
		x, y, rel = c.X, c.Y, r
	case *ssa.Call:
		sc := c.Call.StaticCallee()
		if sc == nil {
			return nil, nil, 0, 0, false
		}
		sc = p.unwrap(sc) // method expressions (sdk.Dec.GT(a, b)) go through a $thunk
		n := sc.Name()
		args := c.Call.Args
		if r, isCmp := relOfMethod[n]; isCmp && len(args) == 2 {
			x, y, rel = args[0], args[1], r
		} else if len(args) == 1 && (n == "IsZero" || n == "IsPositive" || n == "IsNegative") {
			switch n {
			case "IsZero":
				rel = REQ
			case "IsPositive":
				rel = RGT
			case "IsNegative":
				rel = RLT
			}
			if a, b, isSub := subOperands(args[0]); isSub {
				x, y = a, b
			} else {
				x, y = args[0], nil
			}
		} else {
			return nil, nil, 0, 0, false
		}
	default:
		return nil, nil, 0, 0, false
	}
	// comparison of a difference with zero: a.Sub(b).LT(zero)  ==  a < b
	if y != nil && isZeroValue(y) {
		if a, b, isSub := subOperands(x); isSub {
			x, y = a, b
		}
	} else if y != nil && isZeroValue(x) {
		if a, b, isSub := subOperands(y); isSub {
			x, y = b, a // 0 ? a-b  ==  b ? a
		}
	}
	onTrue, onFalse = rel, RANY&^rel
	if neg {
		onTrue, onFalse = onFalse, onTrue
	}
	return x, y, onTrue, onFalse, true
}

var zeroConst ssa.Value = ssa.NewConst(constant.MakeInt64(0), types.Typ[types.Int])

// cmpGuard builds a guard whose pass edges imply  X req Y  for operands recognised by
// isX / isY (in either order).
func (p *Prog) cmpGuard(name string, isX, isY func(ssa.Value) bool, req Rel) *GuardSpec {
	return &GuardSpec{
		Name: name,
		Local: func(fn *ssa.Function, cond ssa.Value) (bool, bool) {
			x, y, onT, onF, ok := p.CmpRel(cond)
			if ok && x != nil && y == nil {
				// sign test on a plain value (v.IsPositive(), !v.IsZero(), ...): a comparison with zero
				y = zeroConst
			}
			if !ok || x == nil || y == nil {
				return false, false
			}
			switch {
			case isX(x) && isY(y):
			case isX(y) && isY(x):
				onT, onF = onT.mirror(), onF.mirror()
			default:
				return false, false
			}
			return onT.subsetOf(req), onF.subsetOf(req)
		},
	}
}

// originHasField: some deep origin of v is field `field` of a struct named typ ("" = any).
func (p *Prog) originHasField(v ssa.Value, typ, field string) bool {
	for _, o := range p.DeepOrigins(v) {
		if len(o.Path) == 0 || o.Path[len(o.Path)-1] != field {
			continue
		}
		if typ == "" || pathBaseTypeName(o) == typ {
			return true
		}
	}
	return false
}

func derefTuple(t types.Type, idx int) types.Type {
	if tup, ok := t.(*types.Tuple); ok {
		if idx < tup.Len() {
			return tup.At(idx).Type()
		}
		return nil
	}
	return t
}

// pathBaseTypeName: the named struct type that owns the last field of the origin's path.
func pathBaseTypeName(o Origin) string {
	if len(o.Path) == 0 {
		return ""
	}
	var cur types.Type
	if o.Kind == "call" {
		cur = derefTuple(o.Call.Type(), o.Index)
	} else {
		cur = o.Val.Type()
	}
	for i := 0; i < len(o.Path)-1 && cur != nil; i++ {
		cur = stepField(cur, o.Path[i])
	}
	if cur == nil {
		return ""
	}
	return namedTypeName(derefAll(cur))
}
