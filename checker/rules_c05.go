package main

import (
	"fmt"
	"go/token"
	"strings"

	"golang.org/x/tools/go/ssa"
	"sort"
)

func init() {
	register("C05", rulesC05)
	register("C06", rulesC06)
}

// roundDir classifies how a Dec value was turned into an Int: "UP" (Ceil / RoundUp),
// "DOWN" (Truncate*), "EXACT" (no Dec->Int conversion involved), "ROUND" (banker's /
// half-up rounding, direction unknown).
func (p *Prog) roundDir(v ssa.Value) string {
	seen := map[ssa.Value]bool{}
	var rec func(v ssa.Value, d int) string
	rec = func(v ssa.Value, d int) string {
		if v == nil || seen[v] || d > 12 {
			return "EXACT"
		}
		seen[v] = true
		c, ok := v.(*ssa.Call)
		if !ok {
			if ph, isPhi := v.(*ssa.Phi); isPhi {
				dir := ""
				for _, e := range ph.Edges {
					x := rec(e, d+1)
					if dir == "" {
						dir = x
					} else if dir != x {
						return "MIXED"
					}
				}
				return dir
			}
			return "EXACT"
		}
		n := calleeShortName(&c.Call)
		switch n {
		case "TruncateInt", "TruncateInt64", "TruncateDec":
			// Ceil().TruncateInt() is a ceiling
			if len(c.Call.Args) > 0 {
				if in, ok := c.Call.Args[0].(*ssa.Call); ok && calleeShortName(&in.Call) == "Ceil" {
					return "UP"
				}
			}
			return "DOWN"
		case "Ceil", "QuoRoundUp", "MulRoundUp", "QuoRoundupMut":
			return "UP"
		case "QuoTruncate", "MulTruncate", "QuoInt", "QuoInt64":
			return "DOWN"
		case "RoundInt", "RoundInt64", "Quo", "Mul":
			if n == "RoundInt" || n == "RoundInt64" {
				return "ROUND"
			}
		}
		return "EXACT"
	}
	return rec(v, 0)
}

// chainDirs collects the directions of every inexact Dec operation in the expression tree
// computing v (through locals of the enclosing closure).
func (p *Prog) chainDirs(v ssa.Value) map[string]string {
	out := map[string]string{}
	seen := map[ssa.Value]bool{}
	var rec func(v ssa.Value, d int)
	rec = func(v ssa.Value, d int) {
		if v == nil || seen[v] || d > 20 {
			return
		}
		seen[v] = true
		switch x := v.(type) {
		case *ssa.Call:
			n := calleeShortName(&x.Call)
			full := calleeFullName(&x.Call)
			if strings.HasPrefix(full, "cosmossdk.io/math.LegacyDec.") {
				switch n {
				case "TruncateInt", "TruncateDec", "QuoTruncate", "MulTruncate", "QuoInt", "QuoInt64", "TruncateInt64":
					out[p.instrPos(x)+" "+n] = "DOWN"
				case "Ceil", "QuoRoundUp", "MulRoundUp":
					out[p.instrPos(x)+" "+n] = "UP"
				case "Quo", "Mul", "RoundInt", "RoundInt64", "QuoMut", "MulMut":
					out[p.instrPos(x)+" "+n] = "ROUND"
				}
			}
			for _, a := range x.Call.Args {
				rec(a, d+1)
			}
		case *ssa.Phi:
			for _, e := range x.Edges {
				rec(e, d+1)
			}
		case *ssa.UnOp:
			if x.Op == token.MUL {
				if a, ok := x.X.(*ssa.Alloc); ok {
					for _, ref := range *a.Referrers() {
						if st, ok := ref.(*ssa.Store); ok && st.Addr == a {
							rec(st.Val, d+1)
						}
					}
					return
				}
			}
			rec(x.X, d+1)
		case *ssa.Extract:
			rec(x.Tuple, d+1)
		}
	}
	rec(v, 0)
	return out
}

// derivesFromCall: some deep origin chain of v passes a call with the given short name.
func (p *Prog) passesCall(v ssa.Value, name string) bool {
	seen := map[ssa.Value]bool{}
	found := false
	var rec func(v ssa.Value, d int)
	rec = func(v ssa.Value, d int) {
		if v == nil || seen[v] || d > 12 || found {
			return
		}
		seen[v] = true
		switch x := v.(type) {
		case *ssa.Call:
			if calleeShortName(&x.Call) == name {
				found = true
				return
			}
			for _, a := range x.Call.Args {
				rec(a, d+1)
			}
		case *ssa.Phi:
			for _, e := range x.Edges {
				rec(e, d+1)
			}
		case *ssa.UnOp:
			rec(x.X, d+1)
		case *ssa.Extract:
			rec(x.Tuple, d+1)
		}
	}
	rec(v, 0)
	return found
}

// phiAlternatives flattens a value into the alternatives merged by phis.
func phiAlternatives(v ssa.Value) []ssa.Value {
	var out []ssa.Value
	seen := map[ssa.Value]bool{}
	var rec func(v ssa.Value, d int)
	rec = func(v ssa.Value, d int) {
		if seen[v] {
			return
		}
		seen[v] = true
		if ph, ok := v.(*ssa.Phi); ok && d < 5 {
			for _, e := range ph.Edges {
				rec(e, d+1)
			}
			return
		}
		out = append(out, v)
	}
	rec(v, 0)
	return out
}

// valueAlts: phiAlternatives that also looks through extracted helpers of the same package:
// a helper's parameter stands for what its call sites pass, and a result extracted from a
// call of a same-package helper stands for what that helper returns.
func (p *Prog) valueAlts(v ssa.Value) []ssa.Value {
	var out []ssa.Value
	seen := map[ssa.Value]bool{}
	var rec func(v ssa.Value, d int)
	rec = func(v ssa.Value, d int) {
		if v == nil || seen[v] {
			return
		}
		seen[v] = true
		if d < 8 {
			switch x := v.(type) {
			case *ssa.Phi:
				for _, e := range x.Edges {
					rec(e, d+1)
				}
				return
			case *ssa.Parameter:
				if f := x.Parent(); f != nil && isComdexFn(f) {
					sites := p.CallSitesOf(f)
					idx := paramIndex(x)
					if len(sites) > 0 && idx >= 0 {
						okAll := true
						for _, cs := range sites {
							if cs.Parent() == nil || cs.Parent().Pkg != f.Pkg || idx >= len(cs.Common().Args) {
								okAll = false
							}
						}
						if okAll {
							for _, cs := range sites {
								rec(cs.Common().Args[idx], d+1)
							}
							return
						}
					}
				}
			case *ssa.Extract:
				if c, ok := x.Tuple.(*ssa.Call); ok {
					if sc := c.Call.StaticCallee(); sc != nil && isComdexFn(sc) && len(sc.Blocks) > 0 && c.Parent() != nil && sc.Pkg == c.Parent().Pkg {
						n := 0
						for _, rt := range returns(sc) {
							if x.Index < len(rt.Results) {
								rec(rt.Results[x.Index], d+1)
								n++
							}
						}
						if n > 0 {
							return
						}
					}
				}
			}
		}
		out = append(out, v)
	}
	rec(v, 0)
	return out
}

// withSamePkgHelpers: fn and the helpers of its own package it calls (two levels).
func (p *Prog) withSamePkgHelpers(fn *ssa.Function) []*ssa.Function {
	out := []*ssa.Function{fn}
	seen := map[*ssa.Function]bool{fn: true}
	for d := 0; d < 2; d++ {
		for _, f := range append([]*ssa.Function{}, out...) {
			for _, c := range calls(f) {
				if sc := c.Common().StaticCallee(); sc != nil && sc.Pkg == fn.Pkg && !seen[sc] && len(sc.Blocks) > 0 && sc.Object() != nil && !sc.Object().Exported() {
					seen[sc] = true
					out = append(out, sc)
				}
			}
		}
	}
	return out
}

func rulesC05(p *Prog, r *Report) {
	r.Explanation = "Thin claim. Decides only structural necessary conditions of 'matching conserves coins and respects limits': (R05.1) in amm.FillOrder the price-derived quote amount a buyer pays is rounded UP and the one a seller receives is rounded DOWN (so buyers never pay less than sellers receive and the dust is non-negative); (R05.2) the over-fill guard amt <= MatchableAmount precedes every mutation of the order; (R05.3) remaining-amount accumulators in the distribution loops decrease from themselves, not from the loop-invariant total (else later groups are handed more than is left); (R05.4) an order is kept as matched in the pro-rata distribution only if it is a buy or its share is worth a positive quote amount (a matched order receives something); (R05.5) in ApplyMatchResult the coins moved for an order are built from that order's paid/received amounts and the dust sent is the quoteCoinDiff returned by matching. Conservation over arbitrary books, the price search and pro-rata remainders are NOT decided."
	r.Assumptions = []string{"sdk math rounding primitives have their documented direction"}
	fill := p.MustFunc("x/liquidity/amm.FillOrder")

	// R05.1 ------------------------------------------------------------------------
	r.Rule("R05.1", "FillOrder: buyer's quote payment rounded UP, seller's quote receipt rounded DOWN", 2)
	var fillCalls []ssa.CallInstruction
	for _, f := range p.withSamePkgHelpers(fill) {
		fillCalls = append(fillCalls, calls(f)...)
	}
	for _, c := range fillCalls {
		call, ok := c.(*ssa.Call)
		if !ok {
			continue
		}
		name := ""
		if call.Call.IsInvoke() {
			name = call.Call.Method.Name()
		}
		want := ""
		switch name {
		case "SetPaidOfferCoinAmount":
			want = "UP"
		case "SetReceivedDemandCoinAmount":
			want = "DOWN"
		default:
			continue
		}
		r.FuncsSeen[fname(fill)] = true
		// argument: prev.Add(x); x is a phi of the per-direction values
		arg := call.Call.Args[0]
		if _, _, x, ok := addSubOf(arg); ok {
			arg = x
		}
		n := 0
		for _, alt := range p.valueAlts(arg) {
			if !p.passesCall(alt, "MulInt") {
				continue // the base-coin amount itself: exact
			}
			n++
			r.Instance("R05.1")
			construct := fmt.Sprintf("%s %s quote amount", fname(fill), name)
			got := p.roundDir(alt)
			if got == want {
				r.OK("R05.1", construct, "price-derived amount rounded "+want, p.instrPos(call))
			} else {
				r.Fail("R05.1", construct, fmt.Sprintf("the price-derived quote amount is rounded %s, must be %s: the rounding dust would be taken from the pool of matched coins instead of added to it", got, want), p.instrPos(call), nil)
			}
		}
		if n == 0 {
			r.Instance("R05.1")
			r.Fail("R05.1", fmt.Sprintf("%s %s quote amount", fname(fill), name), "no price-derived amount reaches this setter: cannot establish the rounding direction", p.instrPos(call), nil)
		}
	}

	// R05.2 ------------------------------------------------------------------------
	r.Rule("R05.2", "FillOrder mutates the order only behind amt <= MatchableAmount", 3)
	{
		var amtParam *ssa.Parameter
		for _, pr := range fill.Params {
			if pr.Name() == "amt" {
				amtParam = pr
			}
		}
		isAmt := func(v ssa.Value) bool { return v == amtParam }
		isMatchable := func(v ssa.Value) bool {
			c, ok := v.(*ssa.Call)
			return ok && calleeShortName(&c.Call) == "MatchableAmount"
		}
		g := p.cmpGuard("amt <= MatchableAmount", isAmt, isMatchable, RLE)
		for _, c := range fillCalls {
			call, ok := c.(*ssa.Call)
			if !ok || !call.Call.IsInvoke() || !strings.HasPrefix(call.Call.Method.Name(), "Set") {
				continue
			}
			r.Instance("R05.2")
			construct := fname(fill) + " " + call.Call.Method.Name()
			guarded, w := p.GuardedSite(g, call)
			if call.Parent() != fill {
				guarded, w = p.GuardedUp(g, call) // the setters sit in a helper FillOrder calls behind its guard
			}
			if ok, w := guarded, w; ok {
				r.OK("R05.2", construct, "mutation only behind the over-fill guard", p.instrPos(call))
			} else {
				r.Fail("R05.2", construct, "an order can be filled beyond its matchable amount: the mutation is reachable without amt <= MatchableAmount", p.instrPos(call), w)
			}
		}
	}

	// R05.3 ------------------------------------------------------------------------
	r.Rule("R05.3", "remaining-amount accumulators decrease from themselves", 2)
	for _, fn := range p.Funcs {
		if short(fnPkgPath(fn)) != "x/liquidity/amm" || p.isAuxFn(fn) {
			continue
		}
		for li, l := range loopsOf(fn) {
			for _, in := range l.Head.Instrs {
				ph, ok := in.(*ssa.Phi)
				if !ok || !strings.HasSuffix(ph.Type().String(), "math.Int") {
					continue
				}
				// in-loop values reaching the phi (through inner phis)
				for i, e := range ph.Edges {
					if !l.Body[l.Head.Preds[i]] {
						continue
					}
					for _, alt := range phiAlternatives(e) {
						op, recv, _, ok := addSubOf(alt)
						if !ok || op != "Sub" {
							continue
						}
						r.Instance("R05.3")
						r.FuncsSeen[fname(fn)] = true
						construct := fmt.Sprintf("%s loop#%d accumulator %s", fname(fn), li+1, ph.Comment)
						if isCarriedChain(recv, ph) || recv == ph {
							r.OK("R05.3", construct, "decreases from its own previous value", p.instrPos(alt.(ssa.Instruction)))
						} else if ri, isInstr := recv.(ssa.Instruction); !isInstr || !l.Body[ri.Block()] {
							r.Fail("R05.3", construct, "a remaining-amount accumulator is recomputed from the loop-invariant total instead of its own previous value: what earlier groups consumed is forgotten and later groups are handed more than is left (coins are not conserved)", p.instrPos(alt.(ssa.Instruction)), nil)
						} else {
							r.OK("R05.3", construct, "derived inside the iteration", p.instrPos(alt.(ssa.Instruction)))
						}
					}
				}
			}
		}
	}

	// R05.3b: on a path that hands out an amount (fills orders) the carried remaining amount must change
	{
		fillMay := p.NewMay(func(c ssa.CallInstruction, callee *ssa.Function) bool { return callee == fill })
		for _, fn := range p.Funcs {
			if short(fnPkgPath(fn)) != "x/liquidity/amm" || p.isAuxFn(fn) {
				continue
			}
			for li, l := range loopsOf(fn) {
				for _, in := range l.Head.Instrs {
					ph, ok := in.(*ssa.Phi)
					if !ok || !strings.HasSuffix(ph.Type().String(), "math.Int") {
						continue
					}
					// is it a decreasing accumulator at all (some in-loop Sub / zero assignment)?
					isAcc := false
					for i, e := range ph.Edges {
						if l.Body[l.Head.Preds[i]] {
							for _, alt := range phiAlternatives(e) {
								if op, _, _, ok := addSubOf(alt); ok && op == "Sub" {
									isAcc = true
								}
								if isZeroValue(alt) {
									isAcc = true
								}
							}
						}
					}
					if !isAcc {
						continue
					}
					// every merge inside the loop: an incoming edge carrying the UNCHANGED accumulator must not come
					// from a branch that filled orders
					for b := range l.Body {
						for _, in2 := range b.Instrs {
							mp, ok := in2.(*ssa.Phi)
							if !ok {
								break
							}
							involves := false
							for _, e := range mp.Edges {
								if e == ph {
									involves = true
								}
							}
							if !involves || (mp != ph && !flowsToPhi(mp, ph, l)) {
								continue
							}
							for i, e := range mp.Edges {
								if e != ph || !l.Body[b.Preds[i]] {
									continue
								}
								// walk back along the single-predecessor chain of that branch
								filled := false
								for cur := b.Preds[i]; cur != nil && l.Body[cur]; {
									for _, in3 := range cur.Instrs {
										if c, ok := in3.(ssa.CallInstruction); ok && fillMay.Call(c) {
											filled = true
										}
									}
									if len(cur.Preds) != 1 {
										break
									}
									cur = cur.Preds[0]
								}
								r.Instance("R05.3")
								construct := fmt.Sprintf("%s loop#%d accumulator %s unchanged on a branch", fname(fn), li+1, ph.Comment)
								if filled {
									r.Fail("R05.3", construct, "on a branch that fills orders the remaining-amount accumulator is carried over unchanged: the amount just handed out is offered again to the next group (more base coin is traded on this side than on the other)", p.instrPos(b.Preds[i].Instrs[len(b.Preds[i].Instrs)-1]), nil)
								} else {
									r.OK("R05.3", construct, "unchanged only on a branch that fills nothing", p.instrPos(b.Preds[i].Instrs[len(b.Preds[i].Instrs)-1]))
								}
							}
						}
					}
				}
			}
		}
	}

	// R05.6 the amm order handed to matching is capped by what the order still has in escrow
	r.Rule("R05.6", "the matching engine's view of a user order is built from OpenAmount and RemainingOfferCoin", 1)
	{
		fn := p.MustFunc("x/liquidity/types.NewUserOrder")
		r.FuncsSeen[fname(fn)] = true
		for _, c := range calls(fn) {
			if !p.callIs(c, "NewBaseOrder") {
				continue
			}
			args := c.Common().Args
			if len(args) < 4 {
				continue
			}
			r.Instance("R05.6")
			okAmt := p.fromRecordFieldsLoose(args[2], map[string]bool{"Order": true}, map[string]bool{"OpenAmount": true})
			okOffer := p.fromRecordFieldsLoose(args[3], map[string]bool{"Order": true}, map[string]bool{"RemainingOfferCoin": true}) && !p.fromRecordFieldsLoose(args[3], map[string]bool{"Order": true}, map[string]bool{"OfferCoin": true})
			if okAmt && okOffer {
				r.OK("R05.6", fname(fn)+" NewBaseOrder", "amount from OpenAmount, offer-coin cap from RemainingOfferCoin", p.instrPos(c))
			} else {
				r.Fail("R05.6", fname(fn)+" NewBaseOrder", fmt.Sprintf("the order given to the matching engine is not built from the stored OpenAmount (%v) and RemainingOfferCoin (%v): a partially filled order can be matched for more than it still has in escrow", okAmt, okOffer), p.instrPos(c), nil)
			}
		}
	}

	// R05.4 ------------------------------------------------------------------------
	r.Rule("R05.4", "an order stays in the matched set only if it is a buy or its share buys a positive quote amount", 1)
	{
		fn := p.MustFunc("x/liquidity/amm.DistributeOrderAmountToOrders")
		r.FuncsSeen[fname(fn)] = true
		// the append whose result feeds the recursive call's first argument
		var matchedAppend *ssa.Call
		for _, c := range calls(fn) {
			call, ok := c.(*ssa.Call)
			if !ok || call.Call.StaticCallee() != fn {
				continue
			}
			for _, alt := range phiAlternatives(call.Call.Args[0]) {
				if ac, ok := alt.(*ssa.Call); ok {
					if bi, ok := ac.Call.Value.(*ssa.Builtin); ok && bi.Name() == "append" {
						matchedAppend = ac
					}
				}
			}
		}
		r.Instance("R05.4")
		if matchedAppend == nil {
			r.Fail("R05.4", fname(fn)+" matched set", "cannot find the list of matched orders handed to the recursive distribution", p.pos(fn.Pos()), nil)
		} else {
			g := &GuardSpec{Name: "direction == Buy or positive quote value of the share", Local: func(f *ssa.Function, cond ssa.Value) (bool, bool) {
				a := p.Atom(cond)
				if a.IsCmp && (a.Op == "==" || a.Op == "!=") && a.X != nil {
					if c, ok := isCallNamed(a.X, "GetDirection"); ok && c != nil {
						eq := a.Op == "=="
						if a.Neg {
							eq = !eq
						}
						if eq {
							return true, false
						}
						return false, true
					}
				}
				if a.IsCmp && a.Op == "IsPositive" && a.Call != nil && p.passesCall(a.Call.Call.Args[0], "MulInt") && ownShare(p, f, a.Call.Call.Args[0]) {
					if a.Neg {
						return false, true
					}
					return true, false
				}
				return false, false
			}}
			if ok, w := p.GuardedSite(g, matchedAppend); ok {
				r.OK("R05.4", fname(fn)+" matched set", "an order is kept as matched only if it is a buy or its share is worth a positive quote amount", p.instrPos(matchedAppend))
			} else {
				r.Fail("R05.4", fname(fn)+" matched set", "a sell order can stay in the matched set although its share buys zero quote coins: it pays base coin and receives nothing", p.instrPos(matchedAppend), w)
			}
		}
	}

	// R05.5 ------------------------------------------------------------------------
	r.Rule("R05.5", "ApplyMatchResult moves the orders' own paid/received amounts and the matching dust", 4)
	{
		fn := p.MustFunc("x/liquidity/keeper.Keeper.ApplyMatchResult")
		r.FuncsSeen[fname(fn)] = true
		var diffParam *ssa.Parameter
		for _, pr := range fn.Params {
			if strings.Contains(strings.ToLower(pr.Name()), "diff") {
				diffParam = pr
			}
		}
		n := 0
		for _, vs := range p.virtualSites(fn, nil) { // a phase moved into a helper still counts
			if vs.call == nil {
				continue
			}
			c := vs.call
			if !p.callIs(c, "QueueSendCoins") {
				continue
			}
			args := callArgs(c)
			if len(args) < 3 {
				continue
			}
			n++
			r.Instance("R05.5")
			construct := fmt.Sprintf("%s queued transfer #%d", fname(fn), n)
			okAll := true
			amts, _ := p.coinParts(args[2])
			for _, a := range amts {
				good := false
				for _, o := range p.DeepOrigins(a) {
					if len(o.Path) > 0 {
						last := o.Path[len(o.Path)-1]
						if last == "PaidOfferCoinAmount" || last == "ReceivedDemandCoinAmount" {
							good = true
						}
					}
					if o.Kind == "param" && o.Val == diffParam {
						good = true
					}
				}
				if !good {
					okAll = false
				}
			}
			if okAll && len(amts) > 0 {
				r.OK("R05.5", construct, "amount is the order's paid / received amount or the matching dust", p.instrPos(c))
			} else {
				r.Fail("R05.5", construct, "coins moved while applying the match result are not the order's own PaidOfferCoinAmount / ReceivedDemandCoinAmount nor the quoteCoinDiff computed by matching", p.instrPos(c), nil)
			}
		}
	}

	// R05.7 counted at the price it is filled at -----------------------------------------------
	// Both sides of a batch are counted with MatchableAmount(order, p) and filled with
	// FillOrder(order, amt, p): a matching function that receives the price as a parameter
	// judges and fills every order at that very price. An amount judged at another price (the
	// order's own limit) is counted for one side and then not taken, or taken without being
	// counted, and the two sides no longer exchange the same base amount.
	r.Rule("R05.7", "amm: a function given the fill price judges (MatchableAmount) and fills (FillOrder) at that price only", 4)
	matchable := p.MustFunc("x/liquidity/amm.MatchableAmount")
	for _, fn := range p.Funcs {
		if fn.Pkg == nil || !strings.HasSuffix(fn.Pkg.Pkg.Path(), "x/liquidity/amm") || len(fn.Blocks) == 0 || fn == matchable {
			continue
		}
		type site struct {
			c     ssa.CallInstruction
			price ssa.Value
			what  string
		}
		var sites []site
		for _, c := range calls(fn) {
			sc := c.Common().StaticCallee()
			if sc == nil {
				continue
			}
			a := c.Common().Args
			switch {
			case sc == matchable && len(a) == 2:
				sites = append(sites, site{c, a[1], "MatchableAmount"})
			case sc.Pkg == matchable.Pkg && sc.Name() == "TotalMatchableAmount" && len(a) == 2:
				sites = append(sites, site{c, a[1], "TotalMatchableAmount"})
			case sc == fill && len(a) == 3:
				sites = append(sites, site{c, a[2], "FillOrder"})
			case sc.Pkg == matchable.Pkg && (sc.Name() == "FulfillOrder" || sc.Name() == "FulfillOrders") && len(a) == 2:
				sites = append(sites, site{c, a[1], sc.Name()})
			}
		}
		// the function's price parameter: a LegacyDec parameter handed to one of the sites
		var priceParam *ssa.Parameter
		for _, st := range sites {
			if pr, ok := st.price.(*ssa.Parameter); ok && pr.Parent() == fn {
				priceParam = pr
			}
		}
		if priceParam == nil {
			continue
		}
		for i, st := range sites {
			r.Instance("R05.7")
			r.FuncsSeen[fname(fn)] = true
			construct := fmt.Sprintf("%s -> %s #%d", fname(fn), st.what, i+1)
			if st.price == ssa.Value(priceParam) {
				r.OK("R05.7", construct, "at the function's own price parameter", p.instrPos(st.c))
			} else {
				r.Fail("R05.7", construct, fmt.Sprintf("the order is judged or filled at a price other than the fill price %s the function was given: what was counted for one side of the batch is not what is taken from it", priceParam.Name()), p.instrPos(st.c), nil)
			}
		}
	}

	// R05.7b: the same agreement where the fill price is a local or a captured variable (the
	// price-discovery loop of Match, the per-tick closure of MatchAtSinglePrice): inside one
	// function every amount is judged at a price it also fills at.
	for _, fn := range p.Funcs {
		if fn.Pkg == nil || !strings.HasSuffix(fn.Pkg.Pkg.Path(), "x/liquidity/amm") || len(fn.Blocks) == 0 || fn == matchable {
			continue
		}
		fillKeys := map[string]bool{}
		type js struct {
			c    ssa.CallInstruction
			key  string
			what string
		}
		var judges []js
		for _, c := range calls(fn) {
			sc := c.Common().StaticCallee()
			if sc == nil || sc.Pkg != matchable.Pkg {
				continue
			}
			a := c.Common().Args
			switch sc.Name() {
			case "FillOrder":
				if len(a) == 3 {
					fillKeys[p.ExprKey(a[2])] = true
				}
			case "FulfillOrder", "FulfillOrders":
				if len(a) == 2 {
					fillKeys[p.ExprKey(a[1])] = true
				}
			case "DistributeOrderAmountToTick", "DistributeOrderAmountToOrders":
				if len(a) == 3 {
					fillKeys[p.ExprKey(a[2])] = true
				}
			case "MatchableAmount", "TotalMatchableAmount":
				if len(a) == 2 {
					if _, isParam := a[1].(*ssa.Parameter); !isParam {
						judges = append(judges, js{c, p.ExprKey(a[1]), sc.Name()})
					}
				}
			}
		}
		if len(fillKeys) == 0 {
			continue
		}
		for i, j := range judges {
			r.Instance("R05.7")
			r.FuncsSeen[fname(fn)] = true
			construct := fmt.Sprintf("%s -> %s (local price) #%d", fname(fn), j.what, i+1)
			if fillKeys[j.key] {
				r.OK("R05.7", construct, "judged at a price the function fills at", p.instrPos(j.c))
			} else {
				r.Fail("R05.7", construct, "the amount is judged at a price the function does not fill at: what is counted for the tick is not what the fill can take, and the two sides of the batch no longer exchange the same base amount", p.instrPos(j.c), nil)
			}
		}
	}

	// R05.7c: a function that only COUNTS (no fill site) at a price it is given - the search for
	// the matchable amount at a candidate price - judges every tick at that parameter, also
	// inside its local closures (where the parameter is a captured variable).
	for _, fn := range p.Funcs {
		if fn.Pkg == nil || !strings.HasSuffix(fn.Pkg.Pkg.Path(), "x/liquidity/amm") || len(fn.Blocks) == 0 || fn == matchable || fn.Parent() != nil {
			continue
		}
		var priceParams []*ssa.Parameter
		for _, pr := range fn.Params {
			if strings.HasSuffix(pr.Type().String(), "math.LegacyDec") {
				priceParams = append(priceParams, pr)
			}
		}
		if len(priceParams) != 1 {
			continue
		}
		P := priceParams[0]
		fns := append([]*ssa.Function{fn}, fn.AnonFuncs...)
		hasFill := false
		type js struct {
			c   ssa.CallInstruction
			f   *ssa.Function
			arg ssa.Value
		}
		var judges []js
		for _, f := range fns {
			for _, c := range calls(f) {
				sc := c.Common().StaticCallee()
				if sc == nil || sc.Pkg != matchable.Pkg {
					continue
				}
				switch sc.Name() {
				case "FillOrder", "FulfillOrder", "FulfillOrders", "DistributeOrderAmountToTick", "DistributeOrderAmountToOrders":
					hasFill = true
				case "MatchableAmount", "TotalMatchableAmount":
					if a := c.Common().Args; len(a) == 2 && f != fn {
						judges = append(judges, js{c, f, a[1]})
					}
				}
			}
		}
		if hasFill || len(judges) == 0 {
			continue
		}
		isP := func(f *ssa.Function, v ssa.Value) bool {
			if v == ssa.Value(P) {
				return true
			}
			fv, ok := v.(*ssa.FreeVar)
			if !ok {
				if u, isU := v.(*ssa.UnOp); isU {
					fv, ok = u.X.(*ssa.FreeVar)
				}
			}
			if !ok {
				return false
			}
			// the binding of the free variable where the closure is made
			for _, b := range fn.Blocks {
				for _, in := range b.Instrs {
					mc, isMC := in.(*ssa.MakeClosure)
					if !isMC || mc.Fn != ssa.Value(f) {
						continue
					}
					for i, bv := range mc.Bindings {
						if i < len(f.FreeVars) && f.FreeVars[i] == fv {
							if bv == ssa.Value(P) {
								return true
							}
							if al, isA := bv.(*ssa.Alloc); isA {
								// a parameter spilled to a cell because a closure captures it
								for _, ref := range *al.Referrers() {
									if st, isSt := ref.(*ssa.Store); isSt && st.Addr == ssa.Value(al) && st.Val == ssa.Value(P) {
										return true
									}
								}
							}
						}
					}
				}
			}
			return false
		}
		for i, j := range judges {
			r.Instance("R05.7")
			r.FuncsSeen[fname(fn)] = true
			construct := fmt.Sprintf("%s closure judge #%d", fname(fn), i+1)
			if isP(j.f, j.arg) {
				r.OK("R05.7", construct, "judged at the price the function was asked about", p.instrPos(j.c))
			} else {
				r.Fail("R05.7", construct, "inside "+fname(fn)+" an amount is judged at another price than the one the function was asked about ("+P.Name()+"): the amount it reports for that price is not what matching at that price can take", p.instrPos(j.c), nil)
			}
		}
	}

	// R05.9 an order is skipped only when nothing of it is matchable -----------------------------
	// FulfillOrder fills whatever MatchableAmount says; the tick and group totals count that same
	// amount. The fill is reachable only behind `matchable > 0` - a stricter test (> 1) skips an
	// amount that was counted, a missing one fills a zero amount.
	r.Rule("R05.9", "FulfillOrder: the fill is guarded by matchable amount > 0 (against zero, strictly)", 1)
	{
		ff := p.MustFunc("x/liquidity/amm.FulfillOrder")
		isM := func(v ssa.Value) bool {
			c, ok := v.(*ssa.Call)
			return ok && c.Call.StaticCallee() == matchable
		}
		g := p.cmpGuard("matchable > 0", isM, isZeroValue, RGT)
		n := 0
		for _, f := range p.withSamePkgHelpers(ff) {
			for _, c := range calls(f) {
				if c.Common().StaticCallee() != fill {
					continue
				}
				n++
				r.Instance("R05.9")
				r.FuncsSeen[fname(ff)] = true
				construct := fmt.Sprintf("%s fill #%d", fname(ff), n)
				ok, w := p.GuardedSite(g, c)
				if !ok && f != ff {
					ok, w = p.GuardedUp(g, c)
				}
				if ok {
					r.OK("R05.9", construct, "only behind matchable > 0", p.instrPos(c))
				} else {
					r.Fail("R05.9", construct, "the order is not filled exactly when its matchable amount is positive (the test is missing, compares with another bound, or is not strict): an amount the tick totals counted is skipped, or a zero amount is filled", p.instrPos(c), w)
				}
			}
		}
	}

	// R05.8 one matchability criterion for both directions ----------------------------------------
	// MatchableAmount zeroes an amount whose quote value truncates to zero. The test sits on every
	// path to the return: a dust amount that one direction may not trade must not be counted for
	// the other direction either (nobody could take it).
	r.Rule("R05.8", "MatchableAmount: the zero-quote-value test is passed on every path to the return (both directions)", 1)
	{
		var dustOnAllPaths func(fn *ssa.Function, d int) bool
		dustOnAllPaths = func(fn *ssa.Function, d int) bool {
			if d > 2 || len(fn.Blocks) == 0 {
				return false
			}
			cut := map[*ssa.BasicBlock]bool{}
			for _, b := range fn.Blocks {
				if len(b.Instrs) == 0 {
					continue
				}
				if ifi, ok := b.Instrs[len(b.Instrs)-1].(*ssa.If); ok {
					isDust := func(v ssa.Value) bool {
						c, ok := v.(*ssa.Call)
						return ok && calleeShortName(&c.Call) == "IsZero" && len(c.Call.Args) == 1 &&
							(p.passesCall(c.Call.Args[0], "MulInt") || p.passesCall(c.Call.Args[0], "Mul"))
					}
					if isDust(ifi.Cond) {
						cut[b] = true
					} else if c, ok := ifi.Cond.(*ssa.Call); ok {
						// a predicate helper of the same package: `if isDustAmount(amt, price)`
						if sc := c.Call.StaticCallee(); sc != nil && sc.Pkg == fn.Pkg && len(sc.Blocks) > 0 {
							all, n := true, 0
							for _, rt := range returns(sc) {
								if len(rt.Results) != 1 || !isDust(rt.Results[0]) {
									all = false
								}
								n++
							}
							if all && n > 0 {
								cut[b] = true
							}
						}
					}
				}
				// a direction-specific helper of the same package that applies the test itself
				for _, in := range b.Instrs {
					if c, ok := in.(ssa.CallInstruction); ok {
						if sc := c.Common().StaticCallee(); sc != nil && sc.Pkg == fn.Pkg && sc != fn && dustOnAllPaths(sc, d+1) {
							cut[b] = true
						}
					}
				}
			}
			if len(cut) == 0 || cut[fn.Blocks[0]] && len(cut) == 0 {
				return false
			}
			seen, _ := reach(fn, nil, nil, cut)
			for _, b := range fn.Blocks {
				if len(b.Instrs) == 0 || !seen[b] || cut[b] {
					continue
				}
				if _, isRet := b.Instrs[len(b.Instrs)-1].(*ssa.Return); isRet {
					return false
				}
			}
			return true
		}
		r.Instance("R05.8")
		r.FuncsSeen[fname(matchable)] = true
		tests := []int{1}
		bypass := !dustOnAllPaths(matchable, 0)
		if len(tests) > 0 && !bypass {
			r.OK("R05.8", fname(matchable)+" dust test", "every path to the return passes the zero-quote-value test", p.pos(matchable.Pos()))
		} else {
			r.Fail("R05.8", fname(matchable)+" dust test", "MatchableAmount can return without the test that the amount is worth at least one quote unit: a dust amount is matchable in one direction only, is counted for that side and cannot be taken by the other", p.pos(matchable.Pos()), nil)
		}
	}
}

func rulesC06(p *Prog, r *Report) {
	r.Explanation = "Thin claim. Decides only structural necessary conditions of 'pool shares are fair': (R06.1) amm.Deposit rounds the minted share amount DOWN and the accepted coin amounts UP; (R06.2) amm.Withdraw rounds both withdrawn amounts DOWN and its first test is the last-share case pc == ps, which returns the reserves unchanged; (R06.3) ExecuteDepositRequest / ExecuteWithdrawRequest mint, accept, pay out and burn exactly the values returned by those two functions (and the request's own pool coin); (R06.4) in the amm package the branch for an empty reserve and the branch for a reserve whose ratio rounds to zero choose the same price bound. The fairness inequality, the 1e-17 bound and the ranged-pool price range are NOT decided."
	r.Assumptions = []string{"sdk math rounding primitives have their documented direction"}
	dep := p.MustFunc("x/liquidity/amm.Deposit")
	wd := p.MustFunc("x/liquidity/amm.Withdraw")

	storesToResult := func(fn *ssa.Function) map[string][]ssa.Value {
		// named results assigned inside the SafeMath closure (free variables) or directly
		out := map[string][]ssa.Value{}
		var fns []*ssa.Function
		fns = append(fns, fn)
		fns = append(fns, fn.AnonFuncs...)
		for _, f := range fns {
			for _, b := range f.Blocks {
				for _, in := range b.Instrs {
					st, ok := in.(*ssa.Store)
					if !ok {
						continue
					}
					switch a := st.Addr.(type) {
					case *ssa.FreeVar:
						out[a.Name()] = append(out[a.Name()], st.Val)
					case *ssa.Alloc:
						if a.Comment != "" {
							out[a.Comment] = append(out[a.Comment], st.Val)
						}
					}
				}
			}
		}
		return out
	}

	r.Rule("R06.1", "Deposit: shares DOWN, accepted coins UP", 3)
	{
		r.FuncsSeen[fname(dep)] = true
		st := storesToResult(dep)
		for _, w := range []struct{ name, want string }{{"pc", "DOWN"}, {"ax", "UP"}, {"ay", "UP"}} {
			n := 0
			for _, v := range st[w.name] {
				if isZeroValue(v) {
					continue
				}
				n++
				r.Instance("R06.1")
				construct := fmt.Sprintf("%s result %s", fname(dep), w.name)
				got := p.roundDir(v)
				if got == w.want && w.name == "pc" {
					// the minted share amount must be rounded DOWN at every inexact step of its computation
					for where, dir := range p.chainDirs(v) {
						if dir != "DOWN" {
							got = dir + " at " + where
						}
					}
				}
				if got == w.want {
					r.OK("R06.1", construct, "rounded "+w.want, p.pos(dep.Pos()))
				} else {
					r.Fail("R06.1", construct, fmt.Sprintf("rounded %s, must be %s: a depositor could mint shares at a better rate than the reserves per share (or pay in less than the shares are worth)", got, w.want), p.pos(dep.Pos()), nil)
				}
			}
			if n == 0 {
				r.Instance("R06.1")
				r.Fail("R06.1", fmt.Sprintf("%s result %s", fname(dep), w.name), "no computed assignment found for this result", p.pos(dep.Pos()), nil)
			}
		}
	}

	r.Rule("R06.2", "Withdraw: amounts DOWN; last-share branch first and returning the reserves", 3)
	{
		r.FuncsSeen[fname(wd)] = true
		st := storesToResult(wd)
		for _, name := range []string{"x", "y"} {
			for _, v := range st[name] {
				if isZeroValue(v) {
					continue
				}
				if paramName(v) != "" {
					continue // x = rx / y = ry : the last-share case, checked below
				}
				if u, isLoad := v.(*ssa.UnOp); isLoad && u.Op == token.MUL {
					self := ""
					switch a2 := u.X.(type) {
					case *ssa.Alloc:
						self = a2.Comment
					case *ssa.FreeVar:
						self = a2.Name()
					}
					if self == name {
						continue // "return x, y" with named results stores x into x
					}
				}
				r.Instance("R06.2")
				construct := fmt.Sprintf("%s result %s", fname(wd), name)
				got := p.roundDir(v)
				if got == "DOWN" {
					// what is paid out is rounded DOWN at every inexact step of its computation
					for where, dir := range p.chainDirs(v) {
						if dir != "DOWN" {
							got = dir + " at " + where
						}
					}
				}
				if got == "DOWN" {
					r.OK("R06.2", construct, "rounded DOWN", p.pos(wd.Pos()))
				} else {
					r.Fail("R06.2", construct, "rounded "+got+", must be DOWN: a withdrawal could take more than the shares' pro-rata part of the reserves", p.pos(wd.Pos()), nil)
				}
			}
		}
		// last-share branch: entry block ends with If on pc.Equal(ps); its true branch returns (rx, ry)
		r.Instance("R06.2")
		okLast := false
		if len(wd.Blocks) > 0 {
			if ifi, ok := wd.Blocks[0].Instrs[len(wd.Blocks[0].Instrs)-1].(*ssa.If); ok {
				a := p.Atom(ifi.Cond)
				if a.IsCmp && a.Op == "Equal" {
					nx, ny := paramName(a.X), paramName(a.Y)
					if (nx == "pc" && ny == "ps") || (nx == "ps" && ny == "pc") {
						// the successor taken when pc == ps returns rx, ry
						lastShare := wd.Blocks[0].Succs[0]
						if a.Neg {
							lastShare = wd.Blocks[0].Succs[1]
						}
						for _, in := range lastShare.Instrs {
							if rt, ok := in.(*ssa.Return); ok && len(rt.Results) == 2 {
								if paramName(rt.Results[0]) == "rx" && paramName(rt.Results[1]) == "ry" {
									okLast = true
								}
							}
						}
						// named results: loads of the result allocs stored from rx, ry
						if !okLast {
							sx, sy := false, false
							// the assignments x = rx, y = ry must sit in the taken branch of that test
							then := lastShare
							for _, in := range then.Instrs {
								if s2, ok := in.(*ssa.Store); ok {
									tgt := ""
									switch a2 := s2.Addr.(type) {
									case *ssa.Alloc:
										tgt = a2.Comment
									case *ssa.FreeVar:
										tgt = a2.Name()
									}
									if tgt == "x" && paramName(s2.Val) == "rx" {
										sx = true
									}
									if tgt == "y" && paramName(s2.Val) == "ry" {
										sy = true
									}
								}
							}
							okLast = sx && sy
						}
					}
				}
			}
		}
		if okLast {
			r.OK("R06.2", fname(wd)+" last share", "pc == ps is tested first and returns the whole reserves", p.pos(wd.Pos()))
		} else {
			r.Fail("R06.2", fname(wd)+" last share", "redeeming the last outstanding shares does not return the entire remaining reserves (the pc == ps case is missing, not first, or does not return rx, ry)", p.pos(wd.Pos()), nil)
		}
	}

	r.Rule("R06.3", "executors move exactly what amm.Deposit / amm.Withdraw returned", 4)
	{
		ed := p.MustFunc("x/liquidity/keeper.Keeper.ExecuteDepositRequest")
		ew := p.MustFunc("x/liquidity/keeper.Keeper.ExecuteWithdrawRequest")
		check := func(fn *ssa.Function, ammName string, wantIdx map[string][]int) {
			r.FuncsSeen[fname(fn)] = true
			fromAmm := func(v ssa.Value, idxs []int) bool {
				amts, _ := p.coinParts(v)
				if len(amts) == 0 {
					return false
				}
				for _, a := range amts {
					ok := false
					for _, o := range p.UpOrigins(p.DeepOrigins(a), 0) { // inside a settlement helper the amounts are parameters
						if o.Kind == "call" && calleeShortName(&o.Call.Call) == ammName {
							for _, i := range idxs {
								if o.Index == i {
									ok = true
								}
							}
						}
					}
					if !ok {
						return false
					}
				}
				return true
			}
			for _, vs := range p.virtualSites(fn, nil) {
				if vs.call == nil {
					continue
				}
				c := vs.call
				if be := bankEffect(c); be != nil && be.Op == "Mint" {
					r.Instance("R06.3")
					if fromAmm(be.Coins, wantIdx["mint"]) {
						r.OK("R06.3", fname(fn)+" minted shares", "are the share amount returned by amm."+ammName, p.instrPos(c))
					} else {
						r.Fail("R06.3", fname(fn)+" minted shares", "the pool coins minted are not the share amount computed by amm."+ammName, p.instrPos(c), nil)
					}
				}
				if p.callIs(c, "QueueSendCoins") {
					args := callArgs(c)
					if len(args) < 3 {
						continue
					}
					// transfers between escrow/reserve and the user
					if _, toReserve := isCallNamed(args[1], "GetReserveAddress"); toReserve || p.upIsCall(args[1], "GetReserveAddress") {
						r.Instance("R06.3")
						if fromAmm(args[2], wantIdx["accepted"]) {
							r.OK("R06.3", fname(fn)+" accepted coins", "are the accepted amounts returned by amm."+ammName, p.instrPos(c))
						} else {
							r.Fail("R06.3", fname(fn)+" accepted coins", "the coins moved into the reserve are not the accepted amounts computed by amm."+ammName, p.instrPos(c), nil)
						}
					}
					if _, fromReserve := isCallNamed(args[0], "GetReserveAddress"); fromReserve || p.upIsCall(args[0], "GetReserveAddress") {
						r.Instance("R06.3")
						if fromAmm(args[2], wantIdx["withdrawn"]) {
							r.OK("R06.3", fname(fn)+" withdrawn coins", "are the amounts returned by amm."+ammName, p.instrPos(c))
						} else {
							r.Fail("R06.3", fname(fn)+" withdrawn coins", "the coins paid out of the reserve are not the amounts computed by amm."+ammName, p.instrPos(c), nil)
						}
					}
				}
				if be := bankEffect(c); be != nil && be.Op == "Burn" {
					r.Instance("R06.3")
					if p.fromRecordFieldsLoose(be.Coins, map[string]bool{"WithdrawRequest": true}, map[string]bool{"PoolCoin": true}) || p.upFromRecordField(be.Coins, "WithdrawRequest", "PoolCoin") {
						r.OK("R06.3", fname(fn)+" burnt shares", "are the request's own pool coin", p.instrPos(c))
					} else {
						r.Fail("R06.3", fname(fn)+" burnt shares", "the pool coins burnt are not the withdrawn request's own pool coin", p.instrPos(c), nil)
					}
				}
			}
		}
		check(ed, "Deposit", map[string][]int{"mint": {2}, "accepted": {0, 1}})
		check(ew, "Withdraw", map[string][]int{"withdrawn": {0, 1}})
		// the withdraw math is given the withdraw fee rate, and every paying path burns the redeemed shares
		for _, c := range calls(ew) {
			call, ok := c.(*ssa.Call)
			if !ok || calleeShortName(&call.Call) != "Withdraw" || !strings.HasSuffix(calleeFullName(&call.Call), "amm.Withdraw") {
				continue
			}
			r.Instance("R06.3")
			args := call.Call.Args
			if len(args) == 5 && p.fromRecordFieldsLoose(args[4], map[string]bool{"GenericParams": true}, map[string]bool{"WithdrawFeeRate": true}) {
				r.OK("R06.3", fname(ew)+" fee rate", "amm.Withdraw is given the app's WithdrawFeeRate", p.instrPos(c))
			} else {
				r.Fail("R06.3", fname(ew)+" fee rate", "the fee rate handed to amm.Withdraw is not the app's WithdrawFeeRate: withdrawals return more (or less) than the pro-rata part reduced by the withdrawal fee", p.instrPos(c), nil)
			}
			if len(args) == 5 {
				okRes := true
				for i, want := range []string{"", "", "GetPoolCoinSupply"} {
					if want == "" {
						continue
					}
					hit := false
					for _, o := range p.Origins(args[i]) {
						if o.Kind == "call" && (p.callIs(o.Call, want) || p.isPoolCoinSupplyRead(o)) {
							hit = true
						}
					}
					if !hit {
						okRes = false
					}
				}
				r.Instance("R06.3")
				if okRes {
					r.OK("R06.3", fname(ew)+" supply argument", "share supply read from the bank supply of the pool coin", p.instrPos(c))
				} else {
					r.Fail("R06.3", fname(ew)+" supply argument", "the share supply handed to amm.Withdraw is not the pool coin supply", p.instrPos(c), nil)
				}
			}
		}
		{
			r.Instance("R06.3")
			burn := map[*ssa.BasicBlock]bool{}
			var pays []*ssa.BasicBlock
			for _, vs := range p.virtualSites(ew, nil) {
				if vs.call == nil {
					continue
				}
				c := vs.call
				if be := bankEffect(c); be != nil && be.Op == "Burn" && vs.must {
					burn[vs.anchor.Block()] = true
				}
				if p.callIs(c, "QueueSendCoins") {
					if a := callArgs(c); len(a) >= 3 {
						if _, fromReserve := isCallNamed(a[0], "GetReserveAddress"); fromReserve {
							pays = append(pays, vs.anchor.Block())
						} else if p.upIsCall(a[0], "GetReserveAddress") {
							pays = append(pays, vs.anchor.Block())
						}
					}
				}
			}
			bad := len(burn) == 0 || len(pays) == 0
			for _, pb := range pays {
				if burn[pb] {
					continue
				}
				seen, _ := reach(ew, pb, nil, burn)
				for _, t := range p.successTargets(nil, ew, 0) {
					if seen[t] {
						bad = true
					}
				}
			}
			if bad {
				r.Fail("R06.3", fname(ew)+" burns what it redeems", "a withdrawal can pay out reserves and succeed without burning the redeemed pool coins: reserves per outstanding share decrease", p.pos(ew.Pos()), nil)
			} else {
				r.OK("R06.3", fname(ew)+" burns what it redeems", "every success path that pays out reserves burns the redeemed shares", p.pos(ew.Pos()))
			}
		}
	}
	// R06.7 clip-and-recompute only on strict excess --------------------------------------------
	// Pool creation accepts all of x and the matching y; when that y exceeds the offer it accepts
	// all of y and recomputes x from it, rounded UP. The recomputation is entered only when the
	// computed amount strictly exceeds the offered one: at equality the round-up can yield more
	// than was offered of the other coin.
	r.Rule("R06.7", "amm: an accepted amount is recomputed (rounded up) from the other coin only when the first guess strictly exceeds the offer", 1)
	for _, fn := range p.Funcs {
		if fn.Pkg == nil || !strings.HasSuffix(fn.Pkg.Pkg.Path(), "x/liquidity/amm") || len(fn.Blocks) == 0 {
			continue
		}
		for _, b := range fn.Blocks {
			if len(b.Instrs) == 0 {
				continue
			}
			ifi, ok := b.Instrs[len(b.Instrs)-1].(*ssa.If)
			if !ok {
				continue
			}
			x, y, onT, _, isCmp := p.CmpRel(ifi.Cond)
			if !isCmp || x == nil || y == nil {
				continue
			}
			isOffered := func(v ssa.Value) bool {
				pr, ok := v.(*ssa.Parameter)
				return ok && pr.Parent() == fn && strings.HasSuffix(pr.Type().String(), "math.Int")
			}
			isComputed := func(v ssa.Value) bool { return p.passesCall(v, "Ceil") || p.passesCall(v, "TruncateInt") }
			switch {
			case isComputed(x) && isOffered(y):
			case isComputed(y) && isOffered(x):
				onT = onT.mirror()
			default:
				continue
			}
			// the taken branch recomputes an amount rounded up
			recompute := false
			for _, in := range b.Succs[0].Instrs {
				if c, ok := in.(*ssa.Call); ok && calleeShortName(&c.Call) == "Ceil" {
					recompute = true
				}
			}
			if !recompute || !onT.subsetOf(RGE) {
				continue
			}
			r.Instance("R06.7")
			r.FuncsSeen[fname(fn)] = true
			construct := fname(fn) + " clip and recompute"
			if onT.subsetOf(RGT) {
				r.OK("R06.7", construct, "entered only on strict excess", p.instrPos(ifi))
			} else {
				r.Fail("R06.7", construct, "the other coin's amount is recomputed (rounded up) also when the first guess EQUALS the offer: the rounded-up amount can exceed what was offered of that coin", p.instrPos(ifi), nil)
			}
		}
	}

	// R06.4 degenerate-reserve branches agree ---------------------------------------------------
	// Contradiction rule (sibling agreement) inside the amm package: where a value is chosen
	// on branches selected by "X is zero" and by "X / Y rounds to zero", both say that side X
	// of the pool is (effectively) empty, so they must choose the same value; otherwise the
	// ranged pool's price jumps from one end of its range to the other as a reserve shrinks.
	r.Rule("R06.4", "amm: branches selected by 'X is zero' and by 'X/Y rounds to zero' choose the same value", 2)
	for _, fn := range p.Funcs {
		if fn.Pkg == nil || !strings.HasSuffix(fn.Pkg.Pkg.Path(), "x/liquidity/amm") || len(fn.Blocks) == 0 {
			continue
		}
		type choice struct {
			val  ssa.Value
			cond *ssa.Call
			quo  bool
		}
		classify := func(cond ssa.Value) (subj ssa.Value, call *ssa.Call, quo, ok bool) {
			c, isC := cond.(*ssa.Call)
			if !isC || calleeShortName(&c.Call) != "IsZero" || len(c.Call.Args) != 1 {
				return nil, nil, false, false
			}
			subj = c.Call.Args[0]
			if q, isQ := subj.(*ssa.Call); isQ && (calleeShortName(&q.Call) == "Quo" || calleeShortName(&q.Call) == "QuoTruncate") && len(q.Call.Args) == 2 {
				return q.Call.Args[0], c, true, true
			}
			return subj, c, false, true
		}
		// one table of choices per merge point: the phi the branches feed, or the function's
		// result when every branch returns its value
		tables := map[string]map[ssa.Value][]choice{}
		add := func(key string, subj ssa.Value, ch choice) {
			if tables[key] == nil {
				tables[key] = map[ssa.Value][]choice{}
			}
			tables[key][subj] = append(tables[key][subj], ch)
		}
		for _, b := range fn.Blocks {
			for _, in := range b.Instrs {
				ph, ok := in.(*ssa.Phi)
				if !ok {
					continue
				}
				for i, e := range ph.Edges {
					for _, cond := range trueConditionsInto(b.Preds[i]) {
						if subj, call, quo, ok := classify(cond); ok {
							add("phi:"+idOf(ph), subj, choice{e, call, quo})
						}
					}
				}
			}
			// `case X.IsZero(): return v`
			if len(b.Instrs) > 0 {
				if rt, ok := b.Instrs[len(b.Instrs)-1].(*ssa.Return); ok && len(rt.Results) == 1 {
					for _, cond := range trueConditionsInto(b) {
						if subj, call, quo, ok := classify(cond); ok {
							add("return", subj, choice{rt.Results[0], call, quo})
						}
					}
				}
			}
		}
		var keys []string
		for k := range tables {
			keys = append(keys, k)
		}
		sort.Strings(keys)
		for _, k := range keys {
			for subj, cs := range tables[k] {
				hasPlain, hasQuo := false, false
				for _, c := range cs {
					if c.quo {
						hasQuo = true
					} else {
						hasPlain = true
					}
				}
				if !hasPlain || !hasQuo {
					continue
				}
				r.Instance("R06.4")
				r.FuncsSeen[fname(fn)] = true
				construct := fmt.Sprintf("%s value chosen when %s is (effectively) zero", fname(fn), valueName(subj))
				same := true
				for _, c := range cs[1:] {
					if c.val != cs[0].val {
						same = false
					}
				}
				if same {
					r.OK("R06.4", construct, "the exact and the rounded test choose the same value", p.instrPos(cs[0].cond))
				} else {
					r.Fail("R06.4", construct, "the branch for 'the reserve is zero' and the branch for 'its ratio to the other reserve rounds to zero' choose different values: an almost-empty side is priced at the opposite end of the range from an empty one", p.instrPos(cs[len(cs)-1].cond), nil)
				}
			}
		}
	}
	_ = token.ADD
}

// trueConditionsInto: the conditions whose TRUE edge leads into block b, looking through
// empty forwarding blocks and the `a || b` / `case a, b:` lowering (several If blocks whose
// true edges meet in b).
func trueConditionsInto(b *ssa.BasicBlock) []ssa.Value {
	var out []ssa.Value
	seen := map[*ssa.BasicBlock]bool{}
	var rec func(c *ssa.BasicBlock, d int)
	rec = func(c *ssa.BasicBlock, d int) {
		if seen[c] || d > 4 {
			return
		}
		seen[c] = true
		for _, pr := range c.Preds {
			if len(pr.Instrs) == 0 {
				continue
			}
			if ifi, ok := pr.Instrs[len(pr.Instrs)-1].(*ssa.If); ok {
				if pr.Succs[0] == c && pr.Succs[1] != c {
					out = append(out, ifi.Cond)
				}
				continue
			}
			if len(pr.Instrs) == 1 { // forwarding block (a jump only)
				rec(pr, d+1)
			}
		}
	}
	// b itself may be the block ending in the jump to the merge point
	if len(b.Instrs) > 0 {
		if ifi, ok := b.Instrs[len(b.Instrs)-1].(*ssa.If); ok {
			_ = ifi
			return nil
		}
	}
	rec(b, 0)
	return out
}

func valueName(v ssa.Value) string {
	if c, ok := v.(*ssa.Call); ok {
		if len(c.Call.Args) > 0 {
			return valueName(c.Call.Args[0]) + "." + calleeShortName(&c.Call) + "()"
		}
		return calleeShortName(&c.Call) + "()"
	}
	if v.Name() != "" {
		return v.Name()
	}
	return v.String()
}

// paramName: v is a parameter, or a load of the local a captured parameter was spilled to.
func paramName(v ssa.Value) string {
	switch x := v.(type) {
	case *ssa.Parameter:
		return x.Name()
	case *ssa.UnOp:
		if x.Op == token.MUL {
			if a, ok := x.X.(*ssa.Alloc); ok && a.Comment != "" {
				// spilled parameter: the alloc is initialised from the parameter of the same name
				for _, ref := range *a.Referrers() {
					if st, ok := ref.(*ssa.Store); ok && st.Addr == a {
						if pr, ok := st.Val.(*ssa.Parameter); ok && pr.Name() == a.Comment {
							return pr.Name()
						}
					}
				}
			}
		}
	}
	return ""
}

// flowsToPhi: merge phi mp feeds (possibly through further merges) the loop-carried phi ph.
func flowsToPhi(mp, ph *ssa.Phi, l *Loop) bool {
	seen := map[ssa.Value]bool{}
	var rec func(v ssa.Value, d int) bool
	rec = func(v ssa.Value, d int) bool {
		if v == nil || seen[v] || d > 8 {
			return false
		}
		seen[v] = true
		refs := v.Referrers()
		if refs == nil {
			return false
		}
		for _, ref := range *refs {
			if x, ok := ref.(*ssa.Phi); ok {
				if x == ph {
					return true
				}
				if rec(x, d+1) {
					return true
				}
			}
		}
		return false
	}
	return rec(mp, 0)
}

// ownShare: the integer multiplied by the price in v (price.MulInt(x)...) is not merely a
// parameter of the function (the group's total): it comes from a per-order lookup or a value
// computed in the loop.
func ownShare(p *Prog, f *ssa.Function, v ssa.Value) bool {
	var mul *ssa.Call
	seen := map[ssa.Value]bool{}
	var rec func(v ssa.Value, d int)
	rec = func(v ssa.Value, d int) {
		if v == nil || seen[v] || d > 12 || mul != nil {
			return
		}
		seen[v] = true
		switch x := v.(type) {
		case *ssa.Call:
			if calleeShortName(&x.Call) == "MulInt" {
				mul = x
				return
			}
			for _, a := range x.Call.Args {
				rec(a, d+1)
			}
		case *ssa.Phi:
			for _, e := range x.Edges {
				rec(e, d+1)
			}
		case *ssa.UnOp:
			rec(x.X, d+1)
		case *ssa.Extract:
			rec(x.Tuple, d+1)
		}
	}
	rec(v, 0)
	if mul == nil || len(mul.Call.Args) < 2 {
		return false
	}
	os := p.DeepOrigins(mul.Call.Args[1])
	if len(os) == 0 {
		return false
	}
	for _, o := range os {
		if pr, isP := o.Val.(*ssa.Parameter); isP && o.Kind == "param" && pr.Parent() == f && len(o.Path) == 0 {
			continue
		}
		if o.Kind == "const" {
			continue
		}
		return true
	}
	return false
}

// upFromRecordField: some origin of v, followed through helper parameters to the call sites,
// is field `field` of a record of type typ.
func (p *Prog) upFromRecordField(v ssa.Value, typ, field string) bool {
	amts, _ := p.coinParts(v)
	vals := amts
	if len(vals) == 0 {
		vals = []ssa.Value{v}
	}
	for _, a := range vals {
		for _, o := range p.UpOrigins(p.DeepOrigins(a), 0) {
			for i := range o.Path {
				if o.Path[i] == field {
					sub := o
					sub.Path = o.Path[:i+1]
					if pathBaseTypeName(sub) == typ {
						return true
					}
				}
			}
		}
	}
	return false
}

// upIsCall: v (followed through helper parameters) is the result of a call named name.
func (p *Prog) upIsCall(v ssa.Value, name string) bool {
	for _, o := range p.UpOrigins(p.Origins(v), 0) {
		if o.Kind == "call" && p.callIs(o.Call, name) {
			return true
		}
	}
	return false
}

// isPoolCoinSupplyRead: the origin is the bank supply of a pool's coin (GetPoolCoinSupply
// written out: bank.GetSupply(ctx, pool.PoolCoinDenom).Amount).
func (p *Prog) isPoolCoinSupplyRead(o Origin) bool {
	if o.Kind != "call" || !p.callIs(o.Call, "GetSupply") || len(o.Path) == 0 || o.Path[len(o.Path)-1] != "Amount" {
		return false
	}
	args := callArgs(o.Call)
	if len(args) < 2 {
		return false
	}
	for _, d := range p.Origins(args[1]) {
		if len(d.Path) > 0 && d.Path[len(d.Path)-1] == "PoolCoinDenom" {
			return true
		}
	}
	return false
}
