package main

import (
	"fmt"
	"go/token"
	"go/types"
	"sort"
	"strings"

	"golang.org/x/tools/go/ssa"
)

func init() { register("C08", rulesC08) }

// listRemovalRule: a store into a []uint64 id-list field whose value is a sub-slice of the
// same list must be the removal idiom append(ids[:i], ids[i+1:]...). A bare ids[:i]
// (or a wrong tail offset) silently drops the remaining ids.
func listRemovalRule(p *Prog, r *Report, rule string, modules map[string]bool, floor int) {
	r.Rule(rule, "id-list element removal keeps the other elements (append(ids[:i], ids[i+1:]...))", floor)
	for _, fn := range p.Funcs {
		if !modules[moduleOf(fn)] || p.isAuxFn(fn) || !strings.Contains(fnPkgPath(fn), "/keeper") {
			continue
		}
		n := 0
		for _, b := range fn.Blocks {
			for _, in := range b.Instrs {
				st, ok := in.(*ssa.Store)
				if !ok {
					continue
				}
				fa, ok := st.Addr.(*ssa.FieldAddr)
				if !ok {
					continue
				}
				sl, isSlice := fa.Type().(*types.Pointer).Elem().Underlying().(*types.Slice)
				if !isSlice {
					continue
				}
				if bt, ok := sl.Elem().Underlying().(*types.Basic); !ok || bt.Kind() != types.Uint64 {
					continue
				}
				field := fieldName(fa.X.Type(), fa.Field)
				sameField := func(v ssa.Value) bool {
					t, f, _, ok := fieldRead(v)
					return ok && f == field && t == namedTypeName(fa.X.Type())
				}
				// value: Slice(...) directly, or append(Slice(F,nil,i), Slice(F,i+1,nil)...)
				var head, tail *ssa.Slice
				direct := false
				switch v := st.Val.(type) {
				case *ssa.Slice:
					if sameField(v.X) {
						head, direct = v, true
					}
				case *ssa.Call:
					if bi, ok := v.Call.Value.(*ssa.Builtin); ok && bi.Name() == "append" && len(v.Call.Args) == 2 {
						h, ok1 := v.Call.Args[0].(*ssa.Slice)
						t, ok2 := v.Call.Args[1].(*ssa.Slice)
						if ok1 && sameField(h.X) {
							head = h
							if ok2 && sameField(t.X) {
								tail = t
							}
						}
					}
				}
				if head == nil || head.High == nil {
					continue
				}
				n++
				r.Instance(rule)
				r.FuncsSeen[fname(fn)] = true
				construct := fmt.Sprintf("%s remove from %s.%s #%d", fname(fn), namedTypeName(fa.X.Type()), field, n)
				okTail := false
				if !direct && tail != nil && tail.High == nil && tail.Low != nil {
					if bo, ok := tail.Low.(*ssa.BinOp); ok && bo.Op == token.ADD {
						if c, isC := bo.Y.(*ssa.Const); isC && c.Value != nil && c.Value.ExactString() == "1" && (bo.X == head.High || sameValue(bo.X, head.High)) {
							okTail = true
						}
					}
				}
				if okTail && head.Low == nil {
					r.OK(rule, construct, "removal keeps head and tail", p.instrPos(st))
				} else {
					r.Fail(rule, construct, "an element is removed from an id list by storing ids[:i] without re-appending ids[i+1:]: every id after the removed one is dropped from the list", p.instrPos(st), nil)
				}
			}
		}
	}
}

func rulesC08(p *Prog, r *Report) {
	r.Explanation = "Decides the structural part of 'lending books balance and borrowing is bounded by loan-to-value': (R08.0) the lend module's ratio check succeeds only through ratio <= threshold; (R08.1) every keeper function that books a new or larger borrow cannot succeed without a successful ratio check against the asset's (E)Ltv computed from the current borrow record, nor without the comparison loan <= pool balance; (R08.2) a lend withdrawal is reachable only through requested <= AvailableToBorrow and closing a lend only through 'no open borrow id'; (R08.3) every change of the published totals (UpdateLendStats / UpdateBorrowStats) is matched by a pool custody movement of the same direction and amount in the same function; (R08.4) id-list removals keep the other ids (the open-borrow list guards CloseLend); (R08.5) no stale borrow/lend copy is used after interest accrual rewrote the record. The totals identity as numbers and interest arithmetic are NOT decided."
	r.Assumptions = []string{"pool custody is the module account named by Pool.ModuleName", "amount equality is expression identity"}
	verify := p.MustFunc("x/lend/keeper.Keeper.VerifyCollateralizationRatio")
	calc := p.MustFunc("x/lend/keeper.Keeper.CalculateCollateralizationRatio")
	updLend := p.MustFunc("x/lend/keeper.Keeper.UpdateLendStats")
	updBorrow := p.MustFunc("x/lend/keeper.Keeper.UpdateBorrowStats")
	getBorrow := p.MustFunc("x/lend/keeper.Keeper.GetBorrow")
	setBorrow := p.MustFunc("x/lend/keeper.Keeper.SetBorrow")
	getLend := p.MustFunc("x/lend/keeper.Keeper.GetLend")
	setLend := p.MustFunc("x/lend/keeper.Keeper.SetLend")

	// R08.0 ------------------------------------------------------------------------
	r.Rule("R08.0", "lend VerifyCollateralizationRatio succeeds only through ratio <= threshold", 1)
	{
		var thr *ssa.Parameter
		for _, pr := range verify.Params {
			if strings.Contains(strings.ToLower(pr.Name()), "threshold") {
				thr = pr
			}
		}
		if thr == nil {
			analysisError("anchor unresolved: threshold parameter of lend VerifyCollateralizationRatio")
		}
		isRatio := func(v ssa.Value) bool {
			os := p.Origins(v)
			if len(os) == 0 {
				return false
			}
			for _, o := range os {
				if !(o.Kind == "call" && o.Index == 0 && p.callIsFn(o.Call, calc)) {
					return false
				}
			}
			return true
		}
		g := p.cmpGuard("ratio <= threshold", isRatio, func(v ssa.Value) bool { return v == thr }, RLE)
		r.Instance("R08.0")
		r.FuncsSeen[fname(verify)] = true
		if ok, blk, w := p.Guarded(g, verify, nil); ok {
			r.OK("R08.0", fname(verify), "every success exit implies debt/collateral <= threshold", p.pos(verify.Pos()))
		} else {
			pos := p.pos(verify.Pos())
			if blk != nil {
				pos = p.instrPos(blk.Instrs[len(blk.Instrs)-1])
			}
			r.Fail("R08.0", fname(verify), "the loan-to-value check can succeed although the ratio is not known to be <= the threshold", pos, w)
		}
	}

	// lend keeper functions reachable from lend message handlers
	var roots []*ssa.Function
	for _, e := range p.MsgHandlers() {
		if e.Module == "lend" {
			roots = append(roots, e.Fn)
		}
	}
	reach := p.Reachable(roots, func(f *ssa.Function) bool { return p.isAuxFn(f) })
	var fns []*ssa.Function
	for f := range reach {
		if moduleOf(f) == "lend" && strings.HasSuffix(fnPkgPath(f), "/keeper") {
			fns = append(fns, f)
		}
	}
	sort.Slice(fns, func(i, j int) bool { return fname(fns[i]) < fname(fns[j]) })

	isPoolMod := func(v ssa.Value) bool { return v != nil && p.originHasField(v, "Pool", "ModuleName") }
	dirOf := func(c ssa.CallInstruction, idx int) (bool, bool) {
		args := callArgs(c)
		if idx >= len(args) {
			return false, false
		}
		return constBool(args[idx])
	}
	// unexported bookkeeping helpers that only lend-keeper functions call are analysed inside
	// their callers (virtual inlining), not on their own
	inFns := map[*ssa.Function]bool{}
	for _, f := range fns {
		inFns[f] = true
	}
	isInlined := func(f *ssa.Function) bool {
		if f.Object() == nil || f.Object().Exported() || f.Parent() != nil {
			return false
		}
		sites := p.CallSitesOf(f)
		if len(sites) == 0 {
			return false
		}
		for _, cs := range sites {
			if cs.Parent() == nil || !inFns[cs.Parent()] {
				return false
			}
		}
		return true
	}
	type vcall struct {
		c  ssa.CallInstruction
		tr func(string) string
	}
	vstop := map[*ssa.Function]bool{}
	for _, f := range p.Funcs {
		if moduleOf(f) == "lend" && !isInlined(f) {
			vstop[f] = true
		}
	}
	vcalls := func(f *ssa.Function) []vcall {
		var out []vcall
		for _, vs := range p.virtualSites(f, vstop) {
			if vs.call != nil {
				out = append(out, vcall{vs.call, vs.tr})
			}
		}
		return out
	}

	// R08.1 ------------------------------------------------------------------------
	r.Rule("R08.1", "booking a new/larger borrow needs the LTV check (asset (E)Ltv) and loan <= pool balance", 4)
	crGuard := &GuardSpec{Name: "VerifyCollateralizationRatio(..., (E)Ltv) succeeded", CallPass: func(callee *ssa.Function, call ssa.CallInstruction) bool {
		if callee != verify {
			return false
		}
		args := callArgs(call)
		if len(args) < 6 {
			return false
		}
		if !(p.originHasField(args[5], "AssetRatesParams", "Ltv") || p.originHasField(args[5], "AssetRatesParams", "ELtv")) {
			return false
		}
		// enlarging an existing borrow: the debt checked is principal AND accrued interest (plus the
		// new amount); a check on the principal alone lets the position exceed its loan-to-value
		if p.fromRecordFieldsLoose(args[3], map[string]bool{"BorrowAsset": true}, map[string]bool{"AmountOut": true}) {
			if !p.fromRecordFieldsLoose(args[3], map[string]bool{"BorrowAsset": true}, map[string]bool{"InterestAccumulated": true}) {
				return false
			}
		}
		return true
	}}
	isBal := func(v ssa.Value) bool {
		for _, o := range p.DeepOrigins(v) {
			if o.Kind == "call" && p.callIs(o.Call, "ModuleBalance") {
				return true
			}
		}
		return false
	}
	liqGuard := p.cmpGuard("loan <= pool balance", func(v ssa.Value) bool { return !isBal(v) }, isBal, RLE)
	for _, fn := range fns {
		if isInlined(fn) {
			continue
		}
		var sites []ssa.CallInstruction
		for _, vc := range vcalls(fn) {
			c := vc.c
			if p.callIsFn(c, updBorrow) {
				if b, ok := dirOf(c, 4); ok && b {
					sites = append(sites, c)
				}
			}
		}
		if len(sites) == 0 {
			continue
		}
		r.FuncsSeen[fname(fn)] = true
		for _, g := range []*GuardSpec{crGuard, liqGuard} {
			r.Instance("R08.1")
			construct := fname(fn) + " needs " + g.Name
			if ok, blk, w := p.Guarded(g, fn, nil); ok {
				r.OK("R08.1", construct, "every success exit passes it", p.pos(fn.Pos()))
			} else {
				pos := p.pos(fn.Pos())
				if blk != nil {
					pos = p.instrPos(blk.Instrs[len(blk.Instrs)-1])
				}
				r.Fail("R08.1", construct, "a borrow can be booked and paid out without "+g.Name, pos, w)
			}
		}
	}

	// R08.2 ------------------------------------------------------------------------
	r.Rule("R08.2", "lend release bounded by AvailableToBorrow; CloseLend only without open borrow ids", 2)
	for _, fn := range fns {
		releases := false
		for _, c := range calls(fn) {
			if p.callIsFn(c, updLend) {
				if b, ok := dirOf(c, 4); ok && !b {
					releases = true
				}
			}
		}
		if !releases {
			continue
		}
		r.FuncsSeen[fname(fn)] = true
		// does the released amount come from a parameter (request) ?
		fromParam := false
		for _, c := range calls(fn) {
			if p.callIsFn(c, updLend) {
				args := callArgs(c)
				for _, o := range p.DeepOrigins(args[3]) {
					if o.Kind == "param" {
						fromParam = true
					}
				}
			}
		}
		r.Instance("R08.2")
		if fromParam {
			isAvail := func(v ssa.Value) bool { return p.originHasField(v, "LendAsset", "AvailableToBorrow") }
			isReq := func(v ssa.Value) bool {
				for _, o := range p.DeepOrigins(v) {
					if o.Kind == "param" {
						return true
					}
				}
				return false
			}
			g := p.cmpGuard("requested <= AvailableToBorrow", isReq, isAvail, RLE)
			may := p.NewMay(func(c ssa.CallInstruction, callee *ssa.Function) bool {
				if be := bankEffect(c); be != nil && be.Op == "ModToAcc" && isPoolMod(be.From) {
					return true
				}
				return false
			})
			ug := p.NewUnguarded(g, may)
			if bad, chain := ug.Fn(fn); bad {
				r.Fail("R08.2", fname(fn)+" bounded release", "underlying coins leave the pool for a requested amount that was not compared with the position's AvailableToBorrow: collateral pledged to an open borrow can be withdrawn", p.pos(fn.Pos()), chain)
			} else {
				r.OK("R08.2", fname(fn)+" bounded release", "release only through requested <= AvailableToBorrow (or via the guarded close)", p.pos(fn.Pos()))
			}
		} else {
			// closing: must pass the 'no open borrow' test
			g := &GuardSpec{Name: "BorrowId == nil", Local: func(f *ssa.Function, cond ssa.Value) (bool, bool) {
				e, neq, ok := nilCheck(cond)
				if !ok {
					return false, false
				}
				t, fld, _, isR := fieldRead(e)
				if !isR || fld != "BorrowId" || !strings.Contains(t, "Mapping") {
					return false, false
				}
				if neq {
					return false, true
				}
				return true, false
			}}
			if ok, blk, w := p.Guarded(g, fn, nil); ok {
				r.OK("R08.2", fname(fn)+" no open borrow", "every success exit passes BorrowId == nil", p.pos(fn.Pos()))
			} else {
				pos := p.pos(fn.Pos())
				if blk != nil {
					pos = p.instrPos(blk.Instrs[len(blk.Instrs)-1])
				}
				r.Fail("R08.2", fname(fn)+" no open borrow", "a lend position can be closed and its whole balance released without the open-borrow list having been found empty", pos, w)
			}
		}
	}

	// R08.3 ------------------------------------------------------------------------
	r.Rule("R08.3", "totals update <=> pool custody movement of the same direction and amount (same function)", 10)
	for _, fn := range fns {
		if isInlined(fn) {
			continue
		}
		var inAmts, outAmts []string
		hasIn, hasOut := false, false
		for _, vc := range vcalls(fn) {
			be := bankEffect(vc.c)
			if be == nil {
				continue
			}
			switch {
			case (be.Op == "AccToMod" || be.Op == "ModToMod") && isPoolMod(be.To):
				hasIn = true
				inAmts = append(inAmts, trAll(vc.tr, p.amountKeys(be.Coins))...)
			case (be.Op == "ModToAcc" || be.Op == "ModToMod") && isPoolMod(be.From):
				hasOut = true
				outAmts = append(outAmts, trAll(vc.tr, p.amountKeys(be.Coins))...)
			}
		}
		n := 0
		for _, vc := range vcalls(fn) {
			c := vc.c
			var dirIn bool
			var what string
			switch {
			case p.callIsFn(c, updLend):
				b, ok := dirOf(c, 4)
				if !ok {
					continue
				}
				dirIn, what = b, "UpdateLendStats"
			case p.callIsFn(c, updBorrow):
				b, ok := dirOf(c, 4)
				if !ok {
					continue
				}
				dirIn, what = !b, "UpdateBorrowStats" // a new borrow is a pool outflow
			default:
				continue
			}
			n++
			r.Instance("R08.3")
			r.FuncsSeen[fname(fn)] = true
			construct := fmt.Sprintf("%s %s #%d", fname(fn), what, n)
			args := callArgs(c)
			alts := trAlts(vc.tr, altKeys(p, args[3]))
			amts, has := outAmts, hasOut
			dir := "out of"
			if dirIn {
				amts, has, dir = inAmts, hasIn, "into"
			}
			// the borrow totals follow the recorded principal: the change applied to
			// BorrowAsset.AmountOut in this function (repayments carry interest on top), or the
			// whole recorded principal when the borrow is deleted
			if what == "UpdateBorrowStats" {
				rc := recordChangeKeys(p, fn, "BorrowAsset", "AmountOut")
				if len(rc) > 0 {
					// the function changes the recorded principal: the total must follow that
					// change, not the coins moved (a repayment also carries interest)
					amts = rc
				} else {
					amts = append([]string{}, amts...)
				}
				deletes := false
				for _, c2 := range calls(fn) {
					if p.callIs(c2, "DeleteBorrow") {
						deletes = true
					}
				}
				if deletes {
					for _, a := range alts {
						for _, k := range a {
							if strings.HasSuffix(k, ".AmountOut.Amount") {
								amts = append(amts, k)
							}
						}
					}
				}
			}
			switch {
			case !has:
				if lendNoCustodyOK[fname(fn)] != "" {
					r.Note("R08.3 exception %s: %s", construct, lendNoCustodyOK[fname(fn)])
					continue
				}
				r.Fail("R08.3", construct, "the published total is changed but the function moves no coins "+dir+" the pool custody", p.instrPos(c), nil)
			case !allAltsIn(alts, amts):
				r.Fail("R08.3", construct, fmt.Sprintf("the amount booked on the published total %v is neither an amount moved %s the pool nor the change applied to the position record %v", keysOf(p, args[3]), dir, uniq(amts)), p.instrPos(c), nil)
			default:
				r.OK("R08.3", construct, "booked amount is the amount moved "+dir+" the pool / applied to the record", p.instrPos(c))
			}
		}
	}

	// R08.3b the lend position's recorded deposit changes only by what moved in custody
	for _, fn := range fns {
		var inAmts, outAmts []string
		for _, c := range calls(fn) {
			be := bankEffect(c)
			if be == nil {
				continue
			}
			switch {
			case (be.Op == "AccToMod" || be.Op == "ModToMod") && isPoolMod(be.To):
				inAmts = append(inAmts, p.amountKeys(be.Coins)...)
			case (be.Op == "ModToAcc" || be.Op == "ModToMod") && isPoolMod(be.From):
				outAmts = append(outAmts, p.amountKeys(be.Coins)...)
			}
		}
		n := 0
		for _, b := range fn.Blocks {
			for _, in := range b.Instrs {
				st, ok := in.(*ssa.Store)
				if !ok {
					continue
				}
				base, path := addrBase(st.Addr)
				if namedTypeName(base.Type()) != "LendAsset" || len(path) == 0 || path[0] != "AmountIn" {
					continue
				}
				op, recv, x, isAS := addSubOf(st.Val)
				if !isAS {
					continue
				}
				if t, f, _, isR := fieldRead(recv); !(isR && (t == "LendAsset" || t == "Coin") && (f == "AmountIn" || f == "Amount")) {
					continue
				}
				n++
				r.Instance("R08.3")
				construct := fmt.Sprintf("%s LendAsset.AmountIn %s #%d", fname(fn), op, n)
				amts := inAmts
				if op == "Sub" {
					amts = outAmts
				}
				if allAltsIn(altKeys(p, x), amts) {
					r.OK("R08.3", construct, "recorded deposit changes by an amount moved in pool custody", p.instrPos(st))
				} else {
					r.Fail("R08.3", construct, fmt.Sprintf("the lend position's recorded deposit changes by %v, which is not an amount moved in pool custody %v", keysOf(p, x), uniq(amts)), p.instrPos(st), nil)
				}
			}
		}
	}

	// R08.4 ------------------------------------------------------------------------
	listRemovalRule(p, r, "R08.4", map[string]bool{"lend": true}, 3)

	// R08.5 ------------------------------------------------------------------------
	r.Rule("R08.5", "no stale borrow / lend copy is used after interest accrual rewrote the record", 6)
	wB := p.NewMay(func(c ssa.CallInstruction, callee *ssa.Function) bool { return callee == setBorrow })
	wL := p.NewMay(func(c ssa.CallInstruction, callee *ssa.Function) bool { return callee == setLend })
	for _, fn := range fns {
		usesB := func(c ssa.CallInstruction) bool {
			return p.callIsFn(c, verify, setBorrow, updBorrow) || bankEffect(c) != nil
		}
		usesL := func(c ssa.CallInstruction) bool {
			return p.callIsFn(c, setLend, updLend) || bankEffect(c) != nil
		}
		hasB, hasL := false, false
		for _, c := range calls(fn) {
			if p.callIsFn(c, getBorrow) {
				hasB = true
			}
			if p.callIsFn(c, getLend) {
				hasL = true
			}
		}
		if hasB {
			p.staleReads(r, "R08.5", fn, "BorrowAsset", []*ssa.Function{getBorrow}, wB, setBorrow, usesB)
		}
		if hasL {
			p.staleReads(r, "R08.5", fn, "LendAsset", []*ssa.Function{getLend}, wL, setLend, usesL)
		}
	}
}

// functions that legitimately change a published total without a pool custody movement
var lendNoCustodyOK = map[string]string{}

// recordChangeKeys: keys of the amounts x in stores  rec.<field>[.sub] = rec.<field>[.sub].Add/Sub(x)
// for records of type typ in fn.
func recordChangeKeys(p *Prog, fn *ssa.Function, typ, field string) []string {
	var out []string
	for _, b := range fn.Blocks {
		for _, in := range b.Instrs {
			st, ok := in.(*ssa.Store)
			if !ok {
				continue
			}
			base, path := addrBase(st.Addr)
			if len(path) == 0 || path[0] != field || namedTypeName(base.Type()) != typ {
				continue
			}
			if _, _, x, ok := addSubOf(st.Val); ok {
				for _, a := range altKeys(p, x) {
					out = append(out, a...)
				}
			}
		}
	}
	return out
}
