package main

// Positive / negative controls (thorough tier). Each is an in-memory mutant of a real
// /repo file. See controls.go.

func init() {
	// ---- C03 ----
	addControl(Control{Prop: "C03", Name: "create-floor-GTE-to-GT", File: "x/vault/keeper/msg_server.go",
		Find:    "if !msg.AmountOut.GTE(extendedPairVault.DebtFloor) {",
		Replace: "if !msg.AmountOut.GT(extendedPairVault.DebtFloor) {", Negative: true})
	addControl(Control{Prop: "C03", Name: "create-floor-inverted", File: "x/vault/keeper/msg_server.go",
		Find:    "if !msg.AmountOut.GTE(extendedPairVault.DebtFloor) {",
		Replace: "if !msg.AmountOut.LTE(extendedPairVault.DebtFloor) {", Rule: "R03.4", Contains: "MsgCreate"})
	addControl(Control{Prop: "C03", Name: "draw-ceiling-GTE-to-LT", File: "x/vault/keeper/msg_server.go",
		Find:    "\tcurrentMintedStatistics := tokenMintedStatistics.Add(msg.Amount)\n\n\tif currentMintedStatistics.GTE(extendedPairVault.DebtCeiling) {",
		Replace: "\tcurrentMintedStatistics := tokenMintedStatistics.Add(msg.Amount)\n\n\tif currentMintedStatistics.LT(extendedPairVault.DebtCeiling) {", Rule: "R03.3", Contains: "MsgDraw"})
	addControl(Control{Prop: "C03", Name: "create-ceiling-GT-to-GTE-stricter", File: "x/vault/keeper/msg_server.go",
		Find:    "if currentMintedStatistics.GT(extendedPairVault.DebtCeiling) {",
		Replace: "if currentMintedStatistics.GTE(extendedPairVault.DebtCeiling) {", Negative: true})
	addControl(Control{Prop: "C03", Name: "verify-LT-to-LTE-stricter", File: "x/vault/keeper/vault.go",
		Find:    "if collaterlizationRatio.LT(minCrRequired) && !statusEsm {",
		Replace: "if collaterlizationRatio.LTE(minCrRequired) && !statusEsm {", Negative: true})
	addControl(Control{Prop: "C03", Name: "verify-LT-to-GT", File: "x/vault/keeper/vault.go",
		Find:    "if collaterlizationRatio.LT(minCrRequired) && !statusEsm {",
		Replace: "if collaterlizationRatio.GT(minCrRequired) && !statusEsm {", Rule: "R03.0", Contains: "VerifyCollaterlizationRatio"})
	addControl(Control{Prop: "C03", Name: "withdraw-drop-ratio-check", File: "x/vault/keeper/msg_server.go",
		Find:    "\tif err := k.VerifyCollaterlizationRatio(ctx, extendedPairVault.Id, userVault.AmountIn, totalDebtCalculation, extendedPairVault.MinCr, status); err != nil {\n\t\treturn nil, err\n\t}",
		Replace: "\t_ = totalDebtCalculation", Rule: "R03.2", Contains: "MsgWithdraw"})
	addControl(Control{Prop: "C03", Name: "repay-drop-floor", File: "x/vault/keeper/msg_server.go",
		Find:    "\t\tif !updatedUserDebt.GTE(extendedPairVault.DebtFloor) {\n\t\t\treturn nil, types.ErrorAmountOutLessThanDebtFloor\n\t\t}",
		Replace: "", Rule: "R03.4", Contains: "MsgRepay"})
	addControl(Control{Prop: "C03", Name: "draw-ratio-with-wrong-minimum", File: "x/vault/keeper/msg_server.go",
		Find:    "if err := k.VerifyCollaterlizationRatio(ctx, extendedPairVault.Id, userVault.AmountIn, totalDebt, extendedPairVault.MinCr, status); err != nil {",
		Replace: "if err := k.VerifyCollaterlizationRatio(ctx, extendedPairVault.Id, userVault.AmountIn, totalDebt, sdk.ZeroDec(), status); err != nil {", Rule: "R03.1", Contains: "MsgDraw"})

	// ---- C12 ----
	addControl(Control{Prop: "C12", Name: "vault-withdraw-drop-owner-check", File: "x/vault/keeper/msg_server.go",
		Find:    "\tif userVault.Owner != msg.From {\n\t\treturn nil, types.ErrVaultAccessUnauthorised\n\t}\n\n\tif appMapping.Id != userVault.AppId {\n\t\treturn nil, types.ErrorInvalidAppMappingData\n\t}\n\tif extendedPairVault.Id != userVault.ExtendedPairVaultID {\n\t\treturn nil, types.ErrorInvalidExtendedPairMappingData\n\t}\n\n\ttotalDebt := userVault.AmountOut.Add(userVault.InterestAccumulated)\n\terr1 := k.rewards.CalculateVaultInterest(ctx, appMapping.Id, msg.ExtendedPairVaultId, msg.UserVaultId, totalDebt, userVault.BlockHeight, userVault.BlockTime.Unix())\n\tif err1 != nil {\n\t\treturn nil, err1\n\t}\n\tuserVault, found1 := k.GetVault(ctx, msg.UserVaultId)\n\tif !found1 {\n\t\treturn nil, types.ErrorVaultDoesNotExist\n\t}\n\tuserVault.AmountIn = userVault.AmountIn.Add(msg.Amount)",
		Replace: "\tif appMapping.Id != userVault.AppId {\n\t\treturn nil, types.ErrorInvalidAppMappingData\n\t}\n\tif extendedPairVault.Id != userVault.ExtendedPairVaultID {\n\t\treturn nil, types.ErrorInvalidExtendedPairMappingData\n\t}\n\n\ttotalDebt := userVault.AmountOut.Add(userVault.InterestAccumulated)\n\terr1 := k.rewards.CalculateVaultInterest(ctx, appMapping.Id, msg.ExtendedPairVaultId, msg.UserVaultId, totalDebt, userVault.BlockHeight, userVault.BlockTime.Unix())\n\tif err1 != nil {\n\t\treturn nil, err1\n\t}\n\tuserVault, found1 := k.GetVault(ctx, msg.UserVaultId)\n\tif !found1 {\n\t\treturn nil, types.ErrorVaultDoesNotExist\n\t}\n\tuserVault.AmountIn = userVault.AmountIn.Add(msg.Amount)",
		Rule: "R12.1", Contains: "MsgDeposit"})
	addControl(Control{Prop: "C12", Name: "lend-closeborrow-self-comparison", File: "x/lend/keeper/keeper.go",
		Find:    "\tif lendPos.Owner != borrowerAddr {\n\t\treturn types.ErrLendAccessUnauthorized\n\t}\n\n\tassetInPool, found := k.GetPool(ctx, pair.AssetOutPoolID)",
		Replace: "\tif lendPos.Owner != lendPos.Owner {\n\t\treturn types.ErrLendAccessUnauthorized\n\t}\n\n\tassetInPool, found := k.GetPool(ctx, pair.AssetOutPoolID)",
		Rule:    "R12.1", Contains: "LendAsset"})
	addControl(Control{Prop: "C12", Name: "wasm-drop-testnet-branch", File: "app/wasm/message_plugin.go",
		Find:    "\tif ctx.ChainID() == \"comdex-1\" {\n\t\tif contractAddr.String() != comdex1[1] {\n\t\t\treturn nil, nil, sdkerrors.ErrInvalidAddress\n\t\t}\n\t} else if ctx.ChainID() == \"comdex-test3\" {\n\t\tif contractAddr.String() != testnet3[1] {\n\t\t\treturn nil, nil, sdkerrors.ErrInvalidAddress\n\t\t}\n\t}\n\terr := AddAuctionParams(",
		Replace: "\tif ctx.ChainID() == \"comdex-1\" {\n\t\tif contractAddr.String() != comdex1[1] {\n\t\t\treturn nil, nil, sdkerrors.ErrInvalidAddress\n\t\t}\n\t}\n\terr := AddAuctionParams(",
		Rule:    "R12.2", Contains: "AddAuctionParams on comdex-test3"})
	addControl(Control{Prop: "C12", Name: "killswitch-inverted-admin", File: "x/esm/keeper/msg_server.go",
		Find: "if !m.keeper.Admin(ctx, msg.From) {", Replace: "if m.keeper.Admin(ctx, msg.From) {", Rule: "R12.3", Contains: "SetKillSwitchData"})
	addControl(Control{Prop: "C12", Name: "locker-withdraw-eq-inverted", File: "x/locker/keeper/msg_server.go",
		Find:    "\tif msg.Depositor != lockerData.Depositor {\n\t\treturn nil, types.ErrorUnauthorized\n\t}\n\n\tif lookupTableData.LockerIds == nil {",
		Replace: "\tif msg.Depositor == lockerData.Depositor {\n\t\treturn nil, types.ErrorUnauthorized\n\t}\n\n\tif lookupTableData.LockerIds == nil {",
		Rule:    "R12.1", Contains: "Locker"})

	// ---- C14 ----
	addControl(Control{Prop: "C14", Name: "locker-deposit-drop-breaker", File: "x/locker/keeper/msg_server.go",
		Find:    "\tklwsParams, _ := k.esm.GetKillSwitchData(ctx, msg.AppId)\n\tif klwsParams.BreakerEnable {\n\t\treturn nil, esmtypes.ErrCircuitBreakerEnabled\n\t}\n\tdepositor, err := sdk.AccAddressFromBech32(msg.Depositor)\n\tif err != nil {\n\t\treturn nil, err\n\t}\n\n\tasset, found := k.asset.GetAsset(ctx, msg.AssetId)\n\tif !found {\n\t\treturn nil, types.ErrorAssetDoesNotExist\n\t}\n\tappMapping, found := k.asset.GetApp(ctx, msg.AppId)\n\tif !found {\n\t\treturn nil, types.ErrorAppMappingDoesNotExist\n\t}\n\n\tlockerData, found := k.GetLocker(ctx, msg.LockerId)",
		Replace: "\tdepositor, err := sdk.AccAddressFromBech32(msg.Depositor)\n\tif err != nil {\n\t\treturn nil, err\n\t}\n\n\tasset, found := k.asset.GetAsset(ctx, msg.AssetId)\n\tif !found {\n\t\treturn nil, types.ErrorAssetDoesNotExist\n\t}\n\tappMapping, found := k.asset.GetApp(ctx, msg.AppId)\n\tif !found {\n\t\treturn nil, types.ErrorAppMappingDoesNotExist\n\t}\n\n\tlockerData, found := k.GetLocker(ctx, msg.LockerId)",
		Rule:    "R14.1", Contains: "MsgDepositAsset"})
	addControl(Control{Prop: "C14", Name: "v2-liquidate-vault-breaker-inverted", File: "x/liquidationsV2/keeper/liquidate.go",
		Find:    "if (found && esmStatus.Status) || klwsParams.BreakerEnable {",
		Replace: "if (found && esmStatus.Status) || !klwsParams.BreakerEnable {", Rule: "R14.2", Contains: "LiquidateIndividualVault"})
	addControl(Control{Prop: "C14", Name: "calcassetprice-caller-drops-error", File: "x/vault/keeper/vault.go",
		Find:    "\t\tassetInTotalPrice, err = k.oracle.CalcAssetPrice(ctx, assetInData.Id, amountIn)\n\t\tif err != nil {\n\t\t\treturn sdk.ZeroDec(), err\n\t\t}",
		Replace: "\t\tassetInTotalPrice, _ = k.oracle.CalcAssetPrice(ctx, assetInData.Id, amountIn)",
		Rule:    "R14.4", Contains: "CalculateCollateralizationRatio error of CalcAssetPrice"})
	addControl(Control{Prop: "C14", Name: "withdraw-cooloff-dropped", File: "x/vault/keeper/msg_server.go",
		Find:    "\tif ctx.BlockTime().After(esmStatus.EndTime) && status {\n\t\treturn nil, esmtypes.ErrCoolOffPeriodPassed\n\t}\n",
		Replace: "\t_ = status\n", Rule: "R14.3", Contains: "cool-off"})

	// ---- C15 ----
	addControl(Control{Prop: "C15", Name: "apply-write-unconditional", File: "types/utils.go",
		Find:    "\tif err == nil {\n\t\t// write state to the underlying multi-store\n\t\twriteCache()\n\t} else {\n\t\tctx.Logger().Error(err.Error())\n\t}",
		Replace: "\twriteCache()\n\tif err != nil {\n\t\tctx.Logger().Error(err.Error())\n\t}", Rule: "R15.1", Contains: "write-back"})
	addControl(Control{Prop: "C15", Name: "liquidity-endblock-outer-ctx", File: "x/liquidity/abci.go",
		Find:    "\t\t\t_ = utils.ApplyFuncIfNoError(ctx, func(ctx sdk.Context) error {\n\t\t\t\tparams, err := k.GetGenericParams(ctx, app.Id)",
		Replace: "\t\t\t_ = utils.ApplyFuncIfNoError(ctx, func(cctx sdk.Context) error {\n\t\t\t\tparams, err := k.GetGenericParams(cctx, app.Id)",
		Rule:    "R15.2", Contains: "EndBlocker$1"})
	addControl(Control{Prop: "C15", Name: "v2-vault-sweep-return-in-loop", File: "x/liquidationsV2/keeper/liquidate.go",
		Find:    "\t\t_ = utils.ApplyFuncIfNoError(ctx, func(ctx sdk.Context) error {\n\n\t\t\terr := k.LiquidateIndividualVault(ctx, vault.Id, \"\", false)",
		Replace: "\t\tif vault.Id == 0 {\n\t\t\treturn nil\n\t\t}\n\t\t_ = utils.ApplyFuncIfNoError(ctx, func(ctx sdk.Context) error {\n\n\t\t\terr := k.LiquidateIndividualVault(ctx, vault.Id, \"\", false)",
		Rule:    "R15.3", Contains: "LiquidateVaults loop"})
	addControl(Control{Prop: "C15", Name: "v2-slice-without-clamp", File: "x/liquidationsV2/keeper/liquidate.go",
		Find:    "\tif lengthOfVaults > len(totalVaults) {\n\t\t// the counter must never let the slice below run past the stored list\n\t\tlengthOfVaults = len(totalVaults)\n\t}\n",
		Replace: "", Rule: "R15.4", Contains: "liquidationsV2/keeper.Keeper.LiquidateVaults slice"})
	addControl(Control{Prop: "C15", Name: "market-hook-explicit-panic", File: "x/market/abci.go",
		Find:    "\t\tblock := bandKeeper.GetLastBlockHeight(ctx)\n",
		Replace: "\t\tblock := bandKeeper.GetLastBlockHeight(ctx)\n\t\tif block < 0 {\n\t\t\tpanic(\"negative height\")\n\t\t}\n", Rule: "R15.4", Contains: "explicit panic"})

	// ---- C16 ----
	addControl(Control{Prop: "C16", Name: "map-range-emits-events", File: "x/liquidity/keeper/pool.go",
		Find:    "\t\tfor _, pLiquidity := range poolLiquidityMap {\n\t\t\ttotalLiquidity = totalLiquidity.Add(pLiquidity)\n\t\t}",
		Replace: "\t\tfor pid, pLiquidity := range poolLiquidityMap {\n\t\t\ttotalLiquidity = totalLiquidity.Add(pLiquidity)\n\t\t\tk.SetPoolLiquidityInfo(ctx, pid)\n\t\t}", Rule: "R16.1", Contains: "TransferFundsForSwapFeeDistribution"})
	addControl(Control{Prop: "C16", Name: "map-range-last-writer", File: "x/liquidity/keeper/pool.go",
		Find:    "\t\tfor _, pLiquidity := range poolLiquidityMap {\n\t\t\ttotalLiquidity = totalLiquidity.Add(pLiquidity)\n\t\t}",
		Replace: "\t\tfor _, pLiquidity := range poolLiquidityMap {\n\t\t\ttotalLiquidity = pLiquidity\n\t\t}", Rule: "R16.1", Contains: "TransferFundsForSwapFeeDistribution"})
	addControl(Control{Prop: "C16", Name: "time-now-in-keeper", File: "x/locker/keeper/msg_server.go",
		Find:    "\t\t\tCreatedAt:          ctx.BlockTime(),",
		Replace: "\t\t\tCreatedAt:          time.Now(),", Rule: "R16.2", Contains: "wall-clock"})
	addControl(Control{Prop: "C16", Name: "existing-commutative-range-negative", File: "x/liquidity/amm/match.go",
		Find:    "\t\tquoteCoinDiff = quoteCoinDiff.Add(FillOrder(order, matchedAmt, price))",
		Replace: "\t\tdiff := FillOrder(order, matchedAmt, price)\n\t\tquoteCoinDiff = quoteCoinDiff.Add(diff)", Negative: true})
}
