package main

// Positive / negative controls (thorough tier). Each is an in-memory mutant of a real
// /repo file. See controls.go.

func init() {
	// ---- C03 ----
	addControl(Control{Prop: "C03", Name: "create-floor-GTE-to-GT", File: "x/vault/keeper/msg_server.go",
		Find:    "if !msg.AmountOut.GTE(extendedPairVault.DebtFloor) {",
		Replace: "if !msg.AmountOut.GT(extendedPairVault.DebtFloor) {", Negative: true})
	addControl(Control{Prop: "C03", Name: "create-floor-inverted", File: "x/vault/keeper/msg_server.go",
		Find:    "if !msg.AmountOut.GTE(extendedPairVault.DebtFloor) {",
		Replace: "if !msg.AmountOut.LTE(extendedPairVault.DebtFloor) {", Rule: "R03.4", Contains: "MsgCreate"})
	addControl(Control{Prop: "C03", Name: "draw-ceiling-GTE-to-LT", File: "x/vault/keeper/msg_server.go",
		Find:    "\tcurrentMintedStatistics := tokenMintedStatistics.Add(msg.Amount)\n\n\tif currentMintedStatistics.GTE(extendedPairVault.DebtCeiling) {",
		Replace: "\tcurrentMintedStatistics := tokenMintedStatistics.Add(msg.Amount)\n\n\tif currentMintedStatistics.LT(extendedPairVault.DebtCeiling) {", Rule: "R03.3", Contains: "MsgDraw"})
	addControl(Control{Prop: "C03", Name: "create-ceiling-GT-to-GTE-stricter", File: "x/vault/keeper/msg_server.go",
		Find:    "if currentMintedStatistics.GT(extendedPairVault.DebtCeiling) {",
		Replace: "if currentMintedStatistics.GTE(extendedPairVault.DebtCeiling) {", Negative: true})
	addControl(Control{Prop: "C03", Name: "verify-LT-to-LTE-stricter", File: "x/vault/keeper/vault.go",
		Find:    "if collaterlizationRatio.LT(minCrRequired) && !statusEsm {",
		Replace: "if collaterlizationRatio.LTE(minCrRequired) && !statusEsm {", Negative: true})
	addControl(Control{Prop: "C03", Name: "verify-LT-to-GT", File: "x/vault/keeper/vault.go",
		Find:    "if collaterlizationRatio.LT(minCrRequired) && !statusEsm {",
		Replace: "if collaterlizationRatio.GT(minCrRequired) && !statusEsm {", Rule: "R03.0", Contains: "VerifyCollaterlizationRatio"})
	addControl(Control{Prop: "C03", Name: "withdraw-drop-ratio-check", File: "x/vault/keeper/msg_server.go",
		Find:    "\tif err := k.VerifyCollaterlizationRatio(ctx, extendedPairVault.Id, userVault.AmountIn, totalDebtCalculation, extendedPairVault.MinCr, status); err != nil {\n\t\treturn nil, err\n\t}",
		Replace: "\t_ = totalDebtCalculation", Rule: "R03.2", Contains: "MsgWithdraw"})
	addControl(Control{Prop: "C03", Name: "repay-drop-floor", File: "x/vault/keeper/msg_server.go",
		Find:    "\t\tif !updatedUserDebt.GTE(extendedPairVault.DebtFloor) {\n\t\t\treturn nil, types.ErrorAmountOutLessThanDebtFloor\n\t\t}",
		Replace: "", Rule: "R03.4", Contains: "MsgRepay"})
	addControl(Control{Prop: "C03", Name: "draw-ratio-with-wrong-minimum", File: "x/vault/keeper/msg_server.go",
		Find:    "if err := k.VerifyCollaterlizationRatio(ctx, extendedPairVault.Id, userVault.AmountIn, totalDebt, extendedPairVault.MinCr, status); err != nil {",
		Replace: "if err := k.VerifyCollaterlizationRatio(ctx, extendedPairVault.Id, userVault.AmountIn, totalDebt, sdk.ZeroDec(), status); err != nil {", Rule: "R03.1", Contains: "MsgDraw"})

	// ---- C12 ----
	addControl(Control{Prop: "C12", Name: "vault-withdraw-drop-owner-check", File: "x/vault/keeper/msg_server.go",
		Find:    "\tif userVault.Owner != msg.From {\n\t\treturn nil, types.ErrVaultAccessUnauthorised\n\t}\n\n\tif appMapping.Id != userVault.AppId {\n\t\treturn nil, types.ErrorInvalidAppMappingData\n\t}\n\tif extendedPairVault.Id != userVault.ExtendedPairVaultID {\n\t\treturn nil, types.ErrorInvalidExtendedPairMappingData\n\t}\n\n\ttotalDebt := userVault.AmountOut.Add(userVault.InterestAccumulated)\n\terr1 := k.rewards.CalculateVaultInterest(ctx, appMapping.Id, msg.ExtendedPairVaultId, msg.UserVaultId, totalDebt, userVault.BlockHeight, userVault.BlockTime.Unix())\n\tif err1 != nil {\n\t\treturn nil, err1\n\t}\n\tuserVault, found1 := k.GetVault(ctx, msg.UserVaultId)\n\tif !found1 {\n\t\treturn nil, types.ErrorVaultDoesNotExist\n\t}\n\tuserVault.AmountIn = userVault.AmountIn.Add(msg.Amount)",
		Replace: "\tif appMapping.Id != userVault.AppId {\n\t\treturn nil, types.ErrorInvalidAppMappingData\n\t}\n\tif extendedPairVault.Id != userVault.ExtendedPairVaultID {\n\t\treturn nil, types.ErrorInvalidExtendedPairMappingData\n\t}\n\n\ttotalDebt := userVault.AmountOut.Add(userVault.InterestAccumulated)\n\terr1 := k.rewards.CalculateVaultInterest(ctx, appMapping.Id, msg.ExtendedPairVaultId, msg.UserVaultId, totalDebt, userVault.BlockHeight, userVault.BlockTime.Unix())\n\tif err1 != nil {\n\t\treturn nil, err1\n\t}\n\tuserVault, found1 := k.GetVault(ctx, msg.UserVaultId)\n\tif !found1 {\n\t\treturn nil, types.ErrorVaultDoesNotExist\n\t}\n\tuserVault.AmountIn = userVault.AmountIn.Add(msg.Amount)",
		Rule:    "R12.1", Contains: "MsgDeposit"})
	addControl(Control{Prop: "C12", Name: "lend-closeborrow-self-comparison", File: "x/lend/keeper/keeper.go",
		Find: "\tif lendPos.Owner != borrowerAddr {", Replace: "\tif lendPos.Owner != lendPos.Owner {", Nth: 3,
		Rule: "R12.1", Contains: "LendAsset"})
	addControl(Control{Prop: "C12", Name: "wasm-drop-testnet-branch", File: "app/wasm/message_plugin.go",
		Find:    "\t} else if ctx.ChainID() == \"comdex-test3\" {\n\t\tif contractAddr.String() != testnet3[0] {\n\t\t\treturn nil, nil, sdkerrors.ErrInvalidAddress\n\t\t}\n\t}\n\terr := MsgAddAuctionParams(",
		Replace: "\t}\n\terr := MsgAddAuctionParams(",
		Rule:    "R12.2", Contains: "AddAuctionParams on comdex-test3"})
	addControl(Control{Prop: "C12", Name: "killswitch-inverted-admin", File: "x/esm/keeper/msg_server.go",
		Find: "if !m.keeper.Admin(ctx, msg.From) {", Replace: "if m.keeper.Admin(ctx, msg.From) {", Rule: "R12.3", Contains: "SetKillSwitchData"})
	addControl(Control{Prop: "C12", Name: "locker-withdraw-eq-inverted", File: "x/locker/keeper/msg_server.go",
		Find: "\tif msg.Depositor != lockerData.Depositor {", Replace: "\tif msg.Depositor == lockerData.Depositor {", Nth: 2,
		Rule: "R12.1", Contains: "Locker"})

	// ---- C14 ----
	addControl(Control{Prop: "C14", Name: "locker-deposit-drop-breaker", File: "x/locker/keeper/msg_server.go",
		Find:    "\tklwsParams, _ := k.esm.GetKillSwitchData(ctx, msg.AppId)\n\tif klwsParams.BreakerEnable {\n\t\treturn nil, esmtypes.ErrCircuitBreakerEnabled\n\t}\n",
		Replace: "", Nth: 2, Rule: "R14.1", Contains: "MsgDepositAsset"})
	addControl(Control{Prop: "C14", Name: "v2-liquidate-vault-breaker-inverted", File: "x/liquidationsV2/keeper/liquidate.go",
		Find:    "if (found && esmStatus.Status) || klwsParams.BreakerEnable {",
		Replace: "if (found && esmStatus.Status) || !klwsParams.BreakerEnable {", Rule: "R14.2", Contains: "LiquidateIndividualVault"})
	addControl(Control{Prop: "C14", Name: "calcassetprice-caller-drops-error", File: "x/vault/keeper/vault.go",
		Find:    "\t\tassetInTotalPrice, err = k.oracle.CalcAssetPrice(ctx, assetInData.Id, amountIn)\n\t\tif err != nil {\n\t\t\treturn sdk.ZeroDec(), err\n\t\t}",
		Replace: "\t\tassetInTotalPrice, _ = k.oracle.CalcAssetPrice(ctx, assetInData.Id, amountIn)",
		Rule:    "R14.4", Contains: "CalculateCollateralizationRatio error of CalcAssetPrice"})
	addControl(Control{Prop: "C14", Name: "withdraw-cooloff-dropped", File: "x/vault/keeper/msg_server.go",
		Find:    "\tif ctx.BlockTime().After(esmStatus.EndTime) && status {\n\t\treturn nil, esmtypes.ErrCoolOffPeriodPassed\n\t}\n",
		Replace: "\t_ = status\n", Rule: "R14.3", Contains: "cool-off"})

	// ---- C15 ----
	addControl(Control{Prop: "C15", Name: "apply-write-unconditional", File: "types/utils.go",
		Find:    "\tif err == nil {\n\t\t// write state to the underlying multi-store\n\t\twriteCache()\n\t} else {\n\t\tctx.Logger().Error(err.Error())\n\t}",
		Replace: "\twriteCache()\n\tif err != nil {\n\t\tctx.Logger().Error(err.Error())\n\t}", Rule: "R15.1", Contains: "write-back"})
	addControl(Control{Prop: "C15", Name: "liquidity-endblock-outer-ctx", File: "x/liquidity/abci.go",
		Find:    "\t\t\t_ = utils.ApplyFuncIfNoError(ctx, func(ctx sdk.Context) error {\n\t\t\t\tparams, err := k.GetGenericParams(ctx, app.Id)",
		Replace: "\t\t\t_ = utils.ApplyFuncIfNoError(ctx, func(cctx sdk.Context) error {\n\t\t\t\tparams, err := k.GetGenericParams(cctx, app.Id)",
		Rule:    "R15.2", Contains: "EndBlocker$1"})
	addControl(Control{Prop: "C15", Name: "v2-vault-sweep-return-in-loop", File: "x/liquidationsV2/keeper/liquidate.go",
		Find:    "\t\t_ = utils.ApplyFuncIfNoError(ctx, func(ctx sdk.Context) error {\n\n\t\t\terr := k.LiquidateIndividualVault(ctx, vault.Id, \"\", false)",
		Replace: "\t\tif vault.Id == 0 {\n\t\t\treturn nil\n\t\t}\n\t\t_ = utils.ApplyFuncIfNoError(ctx, func(ctx sdk.Context) error {\n\n\t\t\terr := k.LiquidateIndividualVault(ctx, vault.Id, \"\", false)",
		Rule:    "R15.3", Contains: "LiquidateVaults loop"})
	addControl(Control{Prop: "C15", Name: "v2-slice-without-clamp", File: "x/liquidationsV2/keeper/liquidate.go",
		Find:    "\tif lengthOfVaults > len(totalVaults) {\n\t\t// the counter must never let the slice below run past the stored list\n\t\tlengthOfVaults = len(totalVaults)\n\t}\n",
		Replace: "", Rule: "R15.4", Contains: "liquidationsV2/keeper.Keeper.LiquidateVaults slice"})
	addControl(Control{Prop: "C15", Name: "market-hook-explicit-panic", File: "x/market/abci.go",
		Find:    "\t\tblock := bandKeeper.GetLastBlockHeight(ctx)\n",
		Replace: "\t\tblock := bandKeeper.GetLastBlockHeight(ctx)\n\t\tif block < 0 {\n\t\t\tpanic(\"negative height\")\n\t\t}\n", Rule: "R15.4", Contains: "explicit panic"})

	// ---- C16 ----
	addControl(Control{Prop: "C16", Name: "map-range-emits-events", File: "x/liquidity/keeper/pool.go",
		Find:    "\t\tfor _, pLiquidity := range poolLiquidityMap {\n\t\t\ttotalLiquidity = totalLiquidity.Add(pLiquidity)\n\t\t}",
		Replace: "\t\tfor pid, pLiquidity := range poolLiquidityMap {\n\t\t\ttotalLiquidity = totalLiquidity.Add(pLiquidity)\n\t\t\t_ = pid\n\t\t\t_ = k.Logger(ctx)\n\t\t}", Rule: "R16.1", Contains: "TransferFundsForSwapFeeDistribution"})
	addControl(Control{Prop: "C16", Name: "map-range-last-writer", File: "x/liquidity/keeper/pool.go",
		Find:    "\t\tfor _, pLiquidity := range poolLiquidityMap {\n\t\t\ttotalLiquidity = totalLiquidity.Add(pLiquidity)\n\t\t}",
		Replace: "\t\tfor _, pLiquidity := range poolLiquidityMap {\n\t\t\ttotalLiquidity = pLiquidity\n\t\t}", Rule: "R16.1", Contains: "TransferFundsForSwapFeeDistribution"})
	addControl(Control{Prop: "C16", Name: "time-now-in-keeper", File: "x/auction/keeper/surplus.go",
		Find: "auction.BidEndTime = ctx.BlockTime().Add(", Replace: "auction.BidEndTime = time.Now().Add(",
		Rule: "R16.2", Contains: "wall-clock"})
	addControl(Control{Prop: "C16", Name: "existing-commutative-range-negative", File: "x/liquidity/amm/match.go",
		Find:    "\t\tquoteCoinDiff = quoteCoinDiff.Add(FillOrder(order, matchedAmt, price))",
		Replace: "\t\tdiff := FillOrder(order, matchedAmt, price)\n\t\tquoteCoinDiff = quoteCoinDiff.Add(diff)", Negative: true})

	// ---- C01 ----
	addControl(Control{Prop: "C01", Name: "close-drop-counter-decrement", File: "x/vault/keeper/msg_server.go",
		Find: "\tlength := k.GetLengthOfVault(ctx)\n\tk.SetLengthOfVault(ctx, length-1)\n", Replace: "", Rule: "R01.1", Contains: "MsgClose"})
	addControl(Control{Prop: "C01", Name: "withdraw-totals-direction-flipped", File: "x/vault/keeper/msg_server.go",
		Find: "k.UpdateCollateralLockedAmountLockerMapping(ctx, appExtendedPairVaultData.AppId, appExtendedPairVaultData.ExtendedPairId, msg.Amount, false)", Replace: "k.UpdateCollateralLockedAmountLockerMapping(ctx, appExtendedPairVaultData.AppId, appExtendedPairVaultData.ExtendedPairId, msg.Amount, true)", Nth: 1,
		Rule: "R01.2", Contains: "MsgWithdraw"})
	addControl(Control{Prop: "C01", Name: "deposit-drop-reload", File: "x/vault/keeper/msg_server.go",
		Find:    "\tuserVault, found1 := k.GetVault(ctx, msg.UserVaultId)\n\tif !found1 {\n\t\treturn nil, types.ErrorVaultDoesNotExist\n\t}\n\tuserVault.AmountIn = userVault.AmountIn.Add(msg.Amount)",
		Replace: "\tuserVault.AmountIn = userVault.AmountIn.Add(msg.Amount)", Rule: "R01.3", Contains: "MsgDeposit"})
	// ---- C02 ----
	addControl(Control{Prop: "C02", Name: "draw-user-gets-full-amount-in-fee-branch", File: "x/vault/keeper/msg_server.go",
		Find: "\t\tamountToUser := msg.Amount.Sub(collectorShare)", Replace: "\t\tamountToUser := msg.Amount.Add(collectorShare.Sub(collectorShare))", Rule: "R02.1", Contains: "MsgDraw"})
	addControl(Control{Prop: "C02", Name: "mint-added-to-close", File: "x/vault/keeper/vault.go",
		Find: "func (k Keeper) DeleteVault(ctx sdk.Context, id uint64) {\n", Replace: "func (k Keeper) DeleteVault(ctx sdk.Context, id uint64) {\n\t_ = k.bank.MintCoins(ctx, types.ModuleName, sdk.NewCoins())\n", Rule: "R02.3", Contains: "DeleteVault"})
	// ---- C04 ----
	addControl(Control{Prop: "C04", Name: "deposit-drop-escrow-send", File: "x/liquidity/keeper/pool.go",
		Find: "\tif err := k.bankKeeper.SendCoins(ctx, msg.GetDepositor(), types.GlobalEscrowAddress, msg.DepositCoins); err != nil {\n\t\treturn types.DepositRequest{}, err\n\t}\n", Replace: "", Rule: "R04.1", Contains: "Deposit"})
	addControl(Control{Prop: "C04", Name: "withdraw-drop-disable", File: "x/liquidity/keeper/pool.go",
		Find: "\tif req.PoolCoin.Amount.Equal(ps) {\n\t\tk.MarkPoolAsDisabled(ctx, pool)\n\t}\n", Replace: "", Rule: "R04.4", Contains: "disable on zero supply"})
	addControl(Control{Prop: "C04", Name: "finish-deposit-drop-guard", File: "x/liquidity/keeper/pool.go",
		Find: "\tif req.Status != types.RequestStatusNotExecuted { // sanity check\n\t\treturn nil\n\t}\n\n\trefundingCoins := req.DepositCoins.Sub(req.AcceptedCoins...)", Replace: "\trefundingCoins := req.DepositCoins.Sub(req.AcceptedCoins...)", Rule: "R04.2", Contains: "FinishDepositRequest"})
	// ---- C05 ----
	addControl(Control{Prop: "C05", Name: "buyer-pays-truncated", File: "x/liquidity/amm/match.go",
		Find: "paid = price.MulInt(amt).Ceil().TruncateInt()", Replace: "paid = price.MulInt(amt).TruncateInt()", Rule: "R05.1", Contains: "SetPaidOfferCoinAmount"})
	addControl(Control{Prop: "C05", Name: "seller-receives-ceil", File: "x/liquidity/amm/match.go",
		Find: "received = price.MulInt(amt).TruncateInt()", Replace: "received = price.MulInt(amt).Ceil().TruncateInt()", Rule: "R05.1", Contains: "SetReceivedDemandCoinAmount"})
	addControl(Control{Prop: "C05", Name: "overfill-guard-dropped", File: "x/liquidity/amm/match.go",
		Find: "\tif amt.GT(matchableAmt) {\n\t\tpanic(fmt.Errorf(\"cannot match more than open amount; %s > %s\", amt, matchableAmt))\n\t}\n", Replace: "\t_ = matchableAmt\n\t_ = fmt.Sprint()\n", Rule: "R05.2", Contains: "FillOrder"})
	// ---- C05 (late rules) ----
	addControl(Control{Prop: "C05", Name: "matchable-per-direction-helpers", File: "x/liquidity/amm/util.go",
		Find:    "\tcase Sell:\n\t\tmatchableAmt = order.GetOpenAmount()\n\t}\n\tif price.MulInt(matchableAmt).TruncateInt().IsZero() {\n\t\tmatchableAmt = zeroInt\n\t}\n\treturn\n}",
		Replace: "\tcase Sell:\n\t\tmatchableAmt = order.GetOpenAmount()\n\t}\n\treturn dustToZeroZZ(matchableAmt, price)\n}\n\nfunc dustToZeroZZ(amt sdkmath.Int, price sdkmath.LegacyDec) sdkmath.Int {\n\tif price.MulInt(amt).TruncateInt().IsZero() {\n\t\treturn zeroInt\n\t}\n\treturn amt\n}", Negative: true})
	addControl(Control{Prop: "C05", Name: "fulfill-judged-at-limit-price", File: "x/liquidity/amm/match.go",
		Find:    "\tquoteCoinDiff = sdkmath.ZeroInt()\n\tmatchableAmt := MatchableAmount(order, price)\n\tif matchableAmt.IsPositive() {",
		Replace: "\tquoteCoinDiff = sdkmath.ZeroInt()\n\tmatchableAmt := MatchableAmount(order, order.GetPrice())\n\tif matchableAmt.IsPositive() {", Rule: "R05.7", Contains: "FulfillOrder"})
	// ---- C06 ----
	addControl(Control{Prop: "C06", Name: "deposit-accepted-truncated", File: "x/liquidity/amm/pool.go",
		Find: "ax = rx.Mul(mintProportion).Ceil().TruncateInt()", Replace: "ax = rx.Mul(mintProportion).TruncateInt()", Rule: "R06.1", Contains: "result ax"})
	addControl(Control{Prop: "C06", Name: "withdraw-last-share-dropped", File: "x/liquidity/amm/pool.go",
		Find: "\tif pc.Equal(ps) {\n\t\t// Redeeming the last pool coin - give all remaining rx and ry.\n\t\tx = rx\n\t\ty = ry\n\t\treturn\n\t}\n", Replace: "", Rule: "R06.2", Contains: "last share"})
	// ---- C07 ----
	addControl(Control{Prop: "C07", Name: "finishorder-drop-refund", File: "x/liquidity/keeper/swap.go",
		Find: "\t\tif err := k.bankKeeper.SendCoins(ctx, pair.GetEscrowAddress(), order.GetOrderer(), sdk.NewCoins(refundCoin)); err != nil {\n\t\t\treturn err\n\t\t}\n", Replace: "\t\t_ = refundCoin\n", Rule: "R07.2", Contains: "FinishOrder"})
	addControl(Control{Prop: "C07", Name: "cancel-extra-rejection", File: "x/liquidity/keeper/swap.go",
		Find: "\tpair, _ := k.GetPair(ctx, msg.AppId, msg.PairId)\n\tif order.BatchId == pair.CurrentBatchId {", Replace: "\tif order.OpenAmount.IsZero() {\n\t\treturn types.Order{}, types.ErrAlreadyCanceled\n\t}\n\tpair, _ := k.GetPair(ctx, msg.AppId, msg.PairId)\n\tif order.BatchId == pair.CurrentBatchId {", Rule: "R07.5", Contains: "rejection"})
	addControl(Control{Prop: "C07", Name: "getorder-args-reswapped", File: "x/liquidity/keeper/swap.go",
		Find: "order, found := k.GetOrder(ctx, appID, pair.Id, orderID)", Replace: "order, found := k.GetOrder(ctx, pair.Id, appID, orderID)", Rule: "R07.6", Contains: "cancelMMOrder"})
	// ---- C08 ----
	addControl(Control{Prop: "C08", Name: "draw-drop-ltv-check", File: "x/lend/keeper/keeper.go",
		Find: "\terr = k.VerifyCollateralizationRatio(ctx, borrowPos.AmountIn.Amount, assetIn, borrowPos.AmountOut.Amount.Add(borrowPos.InterestAccumulated.TruncateInt()).Add(amount.Amount), assetOut, assetRatesStatsLtv)\n\tif err != nil {\n\t\treturn err\n\t}\n", Replace: "\t_ = assetRatesStatsLtv\n\t_ = assetIn\n", Rule: "R08.1", Contains: "DrawAsset"})
	addControl(Control{Prop: "C08", Name: "ratio-GT-to-GTE-stricter", File: "x/lend/keeper/rates.go",
		Find: "if collateralizationRatio.GT(liquidationThreshold) {", Replace: "if collateralizationRatio.GTE(liquidationThreshold) {", Negative: true})
	addControl(Control{Prop: "C08", Name: "ratio-GT-to-LT", File: "x/lend/keeper/rates.go",
		Find: "if collateralizationRatio.GT(liquidationThreshold) {", Replace: "if collateralizationRatio.LT(liquidationThreshold) {", Rule: "R08.0", Contains: "VerifyCollateralizationRatio"})
	// ---- C09 ----
	addControl(Control{Prop: "C09", Name: "v2-vault-LT-to-LTE", File: "x/liquidationsV2/keeper/liquidate.go",
		Find: "\tif collateralizationRatio.LT(liqRatio) {", Replace: "\tif collateralizationRatio.LTE(liqRatio) {", Rule: "R09.1", Contains: "LiquidateIndividualVault"})
	addControl(Control{Prop: "C09", Name: "v2-borrow-sweep-drop-key", File: "x/liquidationsV2/keeper/liquidate.go",
		Find: "\tliquidationOffsetHolder.AppId = offsetCounterId\n\tk.SetLiquidationOffsetHolder(ctx, types.VaultLiquidationsOffsetPrefix, liquidationOffsetHolder)\n\n\treturn nil\n}\n\nfunc (k Keeper) LiquidateIndividualBorrow(", Replace: "\tk.SetLiquidationOffsetHolder(ctx, types.VaultLiquidationsOffsetPrefix, liquidationOffsetHolder)\n\n\treturn nil\n}\n\nfunc (k Keeper) LiquidateIndividualBorrow(", Rule: "R09.3", Contains: "LiquidateBorrows offset key"})
	// ---- C06 ----
	addControl(Control{Prop: "C06", Name: "translation-cases-reordered", File: "x/liquidity/amm/pool.go",
		Find:    "\tcase rxDec.Quo(ryDec).IsZero(): // y asset single pool\n\t\tsqrtP = sqrtM\n\tcase ryDec.Quo(rxDec).IsZero(): // x asset single pool\n\t\tsqrtP = sqrtL\n",
		Replace: "\tcase ryDec.Quo(rxDec).IsZero(): // x asset single pool\n\t\tsqrtP = sqrtL\n\tcase rxDec.Quo(ryDec).IsZero(): // y asset single pool\n\t\tsqrtP = sqrtM\n", Negative: true})
	addControl(Control{Prop: "C06", Name: "translation-x-single-wrong-bound", File: "x/liquidity/amm/pool.go",
		Find:    "\tcase ryDec.Quo(rxDec).IsZero(): // x asset single pool\n\t\tsqrtP = sqrtL\n",
		Replace: "\tcase ryDec.Quo(rxDec).IsZero(): // x asset single pool\n\t\tsqrtP = sqrtM\n", Rule: "R06.4", Contains: "DeriveTranslation"})
	// ---- C09 (late rules) ----
	addControl(Control{Prop: "C09", Name: "lend-delete-LTE-form", File: "x/liquidationsV2/keeper/liquidate.go",
		Find:    "\tif !lendPos.AmountIn.Amount.GT(sdk.ZeroInt()) {",
		Replace: "\tif lendPos.AmountIn.Amount.LTE(sdk.ZeroInt()) {", Negative: true})
	addControl(Control{Prop: "C09", Name: "lend-delete-ispositive-form", File: "x/liquidationsV2/keeper/liquidate.go",
		Find:    "\tif !lendPos.AmountIn.Amount.GT(sdk.ZeroInt()) {",
		Replace: "\tif !lendPos.AmountIn.Amount.IsPositive() {", Negative: true})
	addControl(Control{Prop: "C09", Name: "lend-delete-under-GTE", File: "x/liquidationsV2/keeper/liquidate.go",
		Find:    "\tif !lendPos.AmountIn.Amount.GT(sdk.ZeroInt()) {",
		Replace: "\tif lendPos.AmountIn.Amount.GTE(sdk.ZeroInt()) {", Rule: "R09.9", Contains: "UpdateLockedBorrows"})
	addControl(Control{Prop: "C09", Name: "v2-borrow-sweep-key-via-locals", File: "x/liquidationsV2/keeper/liquidate.go",
		Find:    "\tliquidationOffsetHolder, found := k.GetLiquidationOffsetHolder(ctx, types.VaultLiquidationsOffsetPrefix, offsetCounterId)\n\tif !found {\n\t\tliquidationOffsetHolder = types.NewLiquidationOffsetHolder(0)\n\t}\n\tborrowIDs := borrows",
		Replace: "\tcursorPrefix := types.VaultLiquidationsOffsetPrefix\n\tliquidationOffsetHolder, found := k.GetLiquidationOffsetHolder(ctx, cursorPrefix, offsetCounterId)\n\tif !found {\n\t\tliquidationOffsetHolder = types.NewLiquidationOffsetHolder(0)\n\t}\n\tborrowIDs := borrows", Negative: true})
	addControl(Control{Prop: "C06", Name: "executor-checks-status-itself", File: "x/liquidity/keeper/pool.go",
		Find:    "func (k Keeper) ExecuteDepositRequest(ctx sdk.Context, req types.DepositRequest) error {\n",
		Replace: "func (k Keeper) ExecuteDepositRequest(ctx sdk.Context, req types.DepositRequest) error {\n\tif req.Status != types.RequestStatusNotExecuted {\n\t\treturn nil\n\t}\n", Negative: true})
	addControl(Control{Prop: "C06", Name: "withdraw-denom-test-inverted", File: "x/liquidity/keeper/pool.go",
		Find:    "\tif msg.PoolCoin.Denom != pool.PoolCoinDenom {",
		Replace: "\tif msg.PoolCoin.Denom == pool.PoolCoinDenom {", Rule: "R06.5", Contains: "Withdraw"})
	// ---- C19 (late rules) ----
	addControl(Control{Prop: "C19", Name: "side-selection-by-base-field-correct", File: "x/liquidity/keeper/rewards.go",
		Find:    "\t\tif pair.QuoteCoinDenom == asset.Denom {\n\t\t\tassetAmount = quoteCoin.Amount\n\t\t} else {\n\t\t\tassetAmount = baseCoin.Amount\n\t\t}\n\t\tvalue, _ := k.CalcAssetPrice(ctx, asset.Id, assetAmount)\n\t\tvalue = value.Mul(sdkmath.LegacyNewDec(2)) // multiplying the calculated value of sigle asset with 2, since we have 50-50 pools.\n\t\tlpAddresses",
		Replace: "\t\tif pair.BaseCoinDenom != asset.Denom {\n\t\t\tassetAmount = quoteCoin.Amount\n\t\t} else {\n\t\t\tassetAmount = baseCoin.Amount\n\t\t}\n\t\tvalue, _ := k.CalcAssetPrice(ctx, asset.Id, assetAmount)\n\t\tvalue = value.Mul(sdkmath.LegacyNewDec(2)) // multiplying the calculated value of sigle asset with 2, since we have 50-50 pools.\n\t\tlpAddresses", Negative: true})
	addControl(Control{Prop: "C19", Name: "split-extra-unit-by-i-lt-r", File: "x/rewards/keeper/utils.go",
		Find:    "\t\tzp := totalEpochs - (totalAmount % totalEpochs)\n\t\tpp := totalAmount / totalEpochs\n\t\tfor i := uint64(0); i < totalEpochs; i++ {\n\t\t\tif i >= zp {",
		Replace: "\t\tzp := totalAmount % totalEpochs\n\t\tpp := totalAmount / totalEpochs\n\t\tfor i := uint64(0); i < totalEpochs; i++ {\n\t\t\tif i < zp {", Negative: true})
	addControl(Control{Prop: "C19", Name: "split-extra-unit-i-lte-r", File: "x/rewards/keeper/utils.go",
		Find:    "\t\tzp := totalEpochs - (totalAmount % totalEpochs)\n\t\tpp := totalAmount / totalEpochs\n\t\tfor i := uint64(0); i < totalEpochs; i++ {\n\t\t\tif i >= zp {",
		Replace: "\t\tzp := totalAmount % totalEpochs\n\t\tpp := totalAmount / totalEpochs\n\t\tfor i := uint64(0); i < totalEpochs; i++ {\n\t\t\tif i <= zp {", Rule: "R19.8", Contains: "SplitTotalAmountPerEpoch"})
	// ---- C10 ----
	addControl(Control{Prop: "C10", Name: "v2-elapsed-via-local", File: "x/auctionsV2/keeper/auctions.go",
		Find:    "\ttimeElapsed := ctx.BlockTime().Sub(dutchAuction.StartTime)",
		Replace: "\troundStart := dutchAuction.StartTime\n\ttimeElapsed := ctx.BlockTime().Sub(roundStart)", Negative: true})
	addControl(Control{Prop: "C10", Name: "v2-elapsed-in-helper", File: "x/auctionsV2/keeper/auctions.go",
		Find:    "\ttimeElapsed := ctx.BlockTime().Sub(dutchAuction.StartTime)",
		Replace: "\ttimeElapsed := elapsedSinceZZ(ctx, dutchAuction.StartTime)", Negative: true,
		Append: "\nfunc elapsedSinceZZ(ctx sdk.Context, start time.Time) time.Duration {\n\treturn ctx.BlockTime().Sub(start)\n}\n"})
	addControl(Control{Prop: "C10", Name: "v2-elapsed-from-end-time", File: "x/auctionsV2/keeper/auctions.go",
		Find:    "\ttimeElapsed := ctx.BlockTime().Sub(dutchAuction.StartTime)",
		Replace: "\ttimeElapsed := ctx.BlockTime().Sub(dutchAuction.EndTime)", Rule: "R10.10", Contains: "UpdateDutchAuction"})
	addControl(Control{Prop: "C10", Name: "v1-close-penalty-via-local", File: "x/auction/keeper/dutch.go",
		Find:    "\tpenaltyCoin.Amount = dutchAuction.InflowTokenTargetAmount.Amount.Sub(burnToken.Amount)",
		Replace: "\tcollected := dutchAuction.InflowTokenTargetAmount.Amount\n\tpenaltyCoin.Amount = collected.Sub(burnToken.Amount)", Negative: true})
	addControl(Control{Prop: "C10", Name: "v1-close-penalty-whole-inflow", File: "x/auction/keeper/dutch.go",
		Find:    "\tpenaltyCoin.Amount = dutchAuction.InflowTokenTargetAmount.Amount.Sub(burnToken.Amount)",
		Replace: "\tpenaltyCoin.Amount = dutchAuction.InflowTokenTargetAmount.Amount", Rule: "R10.11", Contains: "CloseDutchAuction"})
	addControl(Control{Prop: "C10", Name: "v1-close-drop-netfee", File: "x/auction/keeper/dutch.go",
		Find: "\terr = k.collector.SetNetFeeCollectedData(ctx, dutchAuction.AppId, dutchAuction.AssetInId, penaltyCoin.Amount)\n\tif err != nil {\n\t\treturn err\n\t}\n", Replace: "", Nth: 1, Rule: "R10.3", Contains: "net-fee increase"})
	// ---- C11 ----
	addControl(Control{Prop: "C11", Name: "surplus-refund-to-new-bidder", File: "x/auction/keeper/surplus.go",
		Find: "err = k.bank.SendCoinsFromModuleToAccount(ctx, auctiontypes.ModuleName, auction.Bidder, sdk.NewCoins(auction.Bid))", Replace: "err = k.bank.SendCoinsFromModuleToAccount(ctx, auctiontypes.ModuleName, bidder, sdk.NewCoins(auction.Bid))", Rule: "R11.2", Contains: "PlaceSurplusAuctionBid"})
	addControl(Control{Prop: "C11", Name: "surplus-bidfactor-LT-to-LTE-stricter", File: "x/auction/keeper/surplus.go",
		Find: "if bid.Amount.LT(minBidAmount) {", Replace: "if bid.Amount.LTE(minBidAmount) {", Negative: true})
	addControl(Control{Prop: "C11", Name: "withdraw-limit-drop-bound", File: "x/auctionsV2/keeper/bid.go",
		Find: "\tif amount.Amount.GT(userLimitBid.DebtToken.Amount) {\n\t\treturn types.ErrorMaxBidAmount\n\t}\n", Replace: "", Rule: "R11.4", Contains: "requested amount"})
	// ---- C13 ----
	addControl(Control{Prop: "C13", Name: "locker-withdraw-drop-total-update", File: "x/locker/keeper/msg_server.go",
		Find: "\tk.UpdateAmountLockerMapping(ctx, lookupTableData.AppId, asset.Id, msg.Amount, false)\n", Replace: "\tk.UpdateAmountLockerMapping(ctx, lookupTableData.AppId, asset.Id, msg.Amount, true)\n", Rule: "R13.1", Contains: "MsgWithdrawAsset"})
	addControl(Control{Prop: "C13", Name: "savings-drop-decrease", File: "x/collector/keeper/collector.go",
		Find: "\t\t\t\terr = k.DecreaseNetFeeCollectedData(ctx, appID, lockerData.AssetDepositId, newReward)\n\t\t\t\tif err != nil {\n\t\t\t\t\tcontinue\n\t\t\t\t}\n", Replace: "", Rule: "R13.2", Contains: "LockerIterateRewards"})
	// ---- C17 ----
	addControl(Control{Prop: "C17", Name: "activate-on-append-unconditionally", File: "x/market/keeper/oracle.go",
		Find: "\t\t\t\ttwa.PriceValue = append(twa.PriceValue, rate)\n\t\t\t\ttwa.CurrentIndex = twa.CurrentIndex + 1\n", Replace: "\t\t\t\ttwa.PriceValue = append(twa.PriceValue, rate)\n\t\t\t\ttwa.IsPriceActive = true\n\t\t\t\ttwa.CurrentIndex = twa.CurrentIndex + 1\n", Rule: "R17.2", Contains: "activation"})
	addControl(Control{Prop: "C17", Name: "latest-price-without-active", File: "x/market/keeper/oracle.go",
		Find: "\tif found && twa.IsPriceActive {\n\t\treturn twa.PriceValue[twa.CurrentIndex], nil", Replace: "\tif found {\n\t\treturn twa.PriceValue[twa.CurrentIndex], nil", Rule: "R17.1", Contains: "GetLatestPrice"})
	// ---- C19 ----
	addControl(Control{Prop: "C19", Name: "drop-total-cap", File: "x/rewards/keeper/distribution.go",
		Find: "\tif totalDistributionCoinsCalculated.Amount.GT(coinToDistribute.Amount) {\n\t\treturn sdk.NewCoin(coinToDistribute.Denom, sdk.NewInt(0)), types.ErrInvalidCalculatedAMount\n\t}\n", Replace: "", Rule: "R19.1", Contains: "doDistributionSends"})
	addControl(Control{Prop: "C19", Name: "drop-availability-check", File: "x/rewards/keeper/gauge.go",
		Find: "\t\t\tif availableDeposits.LT(sdk.NewIntFromUint64(amountToDistribute)) {\n\t\t\t\tcontinue\n\t\t\t}\n", Replace: "\t\t\t_ = availableDeposits\n", Rule: "R19.2", Contains: "cap"})
	// ---- C20 ----
	addControl(Control{Prop: "C20", Name: "collector-reader-without-unmarshal", File: "x/collector/keeper/collector.go",
		Find: "\t\tvar fee types.AppAssetIdToFeeCollectedData\n\t\tk.cdc.MustUnmarshal(iter.Value(), &fee)\n", Replace: "\t\tvar fee types.AppAssetIdToFeeCollectedData\n", Rule: "R20.3", Contains: "GetAllNetFeeCollectedData"})
	addControl(Control{Prop: "C20", Name: "auctionsv2-ignore-counter", File: "x/auctionsV2/genesis.go",
		Find: "k.SetAuctionID(ctx, genState.AuctionId)", Replace: "k.SetAuctionID(ctx, 0)", Rule: "R20.2", Contains: "GenesisState.AuctionId"})

	// ---- repository-wide rules (generic.go, recordlink.go) ----
	addControl(Control{Prop: "C01", Name: "esm-restart-credits-initial-collateral", File: "x/auction/keeper/dutch.go",
		Find: "vaultData.AmountIn = vaultData.AmountIn.Add(dutchAuction.OutflowTokenCurrentAmount.Amount)", Replace: "vaultData.AmountIn = vaultData.AmountIn.Add(dutchAuction.OutflowTokenInitAmount.Amount)",
		Rule: "R01.8", Contains: "RestartDutchAuctions"})
	addControl(Control{Prop: "C01", Name: "stable-withdraw-link-check-loosened", File: "x/vault/keeper/msg_server.go",
		Find: "\tif extendedPairVault.Id != stableVault.ExtendedPairVaultID {", Replace: "\tif extendedPairVault.AppId != stableVault.AppId {", Nth: 2,
		Rule: "R01.9", Contains: "MsgWithdrawStableMint StableMintVault.ExtendedPairVaultID"})
	addControl(Control{Prop: "C03", Name: "draw-link-check-dropped", File: "x/vault/keeper/msg_server.go",
		Find: "\tif extendedPairVault.Id != userVault.ExtendedPairVaultID {\n\t\treturn nil, types.ErrorInvalidExtendedPairMappingData\n\t}\n", Replace: "", Nth: 3,
		Rule: "R03.8", Contains: "Vault.ExtendedPairVaultID"})
	addControl(Control{Prop: "C01", Name: "vault-loaded-under-pair-id", File: "x/vault/keeper/msg_server.go",
		Find: "userVault, found := k.GetVault(ctx, msg.UserVaultId)", Replace: "userVault, found := k.GetVault(ctx, msg.ExtendedPairVaultId)", Nth: 1,
		Rule: "R01.6", Contains: "GetVault arg 1"})
	addControl(Control{Prop: "C08", Name: "repay-books-payment-not-principal-change", File: "x/lend/keeper/keeper.go",
		Find: "k.UpdateBorrowStats(ctx, pair, borrowPos.IsStableBorrow, amtToSubFromBorrowPos, false)", Replace: "k.UpdateBorrowStats(ctx, pair, borrowPos.IsStableBorrow, payment.Amount, false)",
		Rule: "R08.3", Contains: "RepayAsset UpdateBorrowStats"})
	addControl(Control{Prop: "C08", Name: "deposit-drop-lend-reload", File: "x/lend/keeper/keeper.go",
		Find: "\tlendPos, _ = k.GetLend(ctx, lendID)\n", Replace: "", Nth: 1,
		Rule: "R08.7", Contains: "stale LendAsset"})
	addControl(Control{Prop: "C13", Name: "surplus-fees-booked-under-bid-asset", File: "x/auction/keeper/surplus.go",
		Find: "surplusAuction.AssetOutId, surplusAuction.SellToken.Amount)", Replace: "surplusAuction.AssetInId, surplusAuction.SellToken.Amount)", Nth: 1,
		Rule: "R13.6", Contains: "closeSurplusAuction -> SetNetFeeCollectedData"})
	addControl(Control{Prop: "C13", Name: "locker-link-check-dropped", File: "x/locker/keeper/msg_server.go",
		Find: "\tif appMapping.Id != lockerData.AppId {\n\t\treturn nil, types.ErrorAppMappingDoesNotExist\n\t}\n", Replace: "", Nth: 1,
		Rule: "R13.7", Contains: "Locker.AppId"})
	addControl(Control{Prop: "C14", Name: "auction-breaker-under-asset-id", File: "x/auction/abci.go",
		Find: "esmKeeper.GetKillSwitchData(ctx, data.AppId)", Replace: "esmKeeper.GetKillSwitchData(ctx, data.AssetId)",
		Rule: "R14.7", Contains: "GetKillSwitchData arg 1"})
	addControl(Control{Prop: "C14", Name: "lend-ratio-price-failure-succeeds", File: "x/lend/keeper/rates.go",
		Find: "\ttotalOut, err := k.Market.CalcAssetPrice(ctx, assetOut.Id, amountOut)\n\tif err != nil {\n\t\treturn sdk.ZeroDec(), err\n\t}", Replace: "\ttotalOut, err := k.Market.CalcAssetPrice(ctx, assetOut.Id, amountOut)\n\tif err != nil {\n\t\treturn sdk.ZeroDec(), nil\n\t}",
		Rule: "R14.4", Contains: "failure branch succeeds"})

	// behaviour-preserving refactorings (negative controls): the checks must stay silent
	addControl(Control{Prop: "C01", Name: "draw-link-checks-extracted-into-helper", File: "x/vault/keeper/msg_server.go",
		Find:    "\tif appMapping.Id != userVault.AppId {\n\t\treturn nil, types.ErrorInvalidAppMappingData\n\t}\n\tif extendedPairVault.Id != userVault.ExtendedPairVaultID {\n\t\treturn nil, types.ErrorInvalidExtendedPairMappingData\n\t}\n",
		Replace: "\tif err := checkVaultLinks(appMapping.Id, extendedPairVault.Id, userVault); err != nil {\n\t\treturn nil, err\n\t}\n", Nth: 3, Negative: true,
		Append: "\nfunc checkVaultLinks(appID, extendedPairID uint64, v types.Vault) error {\n\tif appID != v.AppId {\n\t\treturn types.ErrorInvalidAppMappingData\n\t}\n\tif extendedPairID != v.ExtendedPairVaultID {\n\t\treturn types.ErrorInvalidExtendedPairMappingData\n\t}\n\treturn nil\n}\n"})
	addControl(Control{Prop: "C03", Name: "draw-link-checks-extracted-into-helper", File: "x/vault/keeper/msg_server.go",
		Find:    "\tif appMapping.Id != userVault.AppId {\n\t\treturn nil, types.ErrorInvalidAppMappingData\n\t}\n\tif extendedPairVault.Id != userVault.ExtendedPairVaultID {\n\t\treturn nil, types.ErrorInvalidExtendedPairMappingData\n\t}\n",
		Replace: "\tif err := checkVaultLinks2(appMapping.Id, extendedPairVault.Id, userVault); err != nil {\n\t\treturn nil, err\n\t}\n", Nth: 3, Negative: true,
		Append: "\nfunc checkVaultLinks2(appID uint64, pairID uint64, v types.Vault) error {\n\tswitch {\n\tcase appID != v.AppId:\n\t\treturn types.ErrorInvalidAppMappingData\n\tcase pairID != v.ExtendedPairVaultID:\n\t\treturn types.ErrorInvalidExtendedPairMappingData\n\t}\n\treturn nil\n}\n"})

	// ---- rules added after the third round of seeded changes ----
	addControl(Control{Prop: "C03", Name: "debt-valued-with-collateral-decimals", File: "x/vault/keeper/vault.go",
		Find: "denominator := sdk.NewDecFromInt(assetOutData.Decimals)", Replace: "denominator := sdk.NewDecFromInt(assetInData.Decimals)", Nth: 2,
		Rule: "R03.9", Contains: "CalculateCollateralizationRatio"})
	addControl(Control{Prop: "C09", Name: "v2-emode-threshold-from-eltv", File: "x/liquidationsV2/keeper/liquidate.go",
		Find: "LiquidationThreshold = liqThreshold.ELiquidationThreshold", Replace: "LiquidationThreshold = liqThreshold.ELtv",
		Rule: "R09.1", Contains: "LiquidateIndividualBorrow"})
	addControl(Control{Prop: "C11", Name: "v1-surplus-bid-step-truncated", File: "x/auction/keeper/surplus.go",
		Find: "change := auction.BidFactor.MulInt(auction.Bid.Amount).Ceil().TruncateInt()", Replace: "change := auction.BidFactor.MulInt(auction.Bid.Amount).TruncateInt()",
		Rule: "R11.8", Contains: "bid step"})
	addControl(Control{Prop: "C11", Name: "cancel-total-reduced-by-net-amount", File: "x/auctionsV2/keeper/bid.go",
		Find: "protocolData.BidValue = protocolData.BidValue.Sub(amount)\n\terr = k.SetLimitBidProtocolData(ctx, protocolData)\n\tif err != nil {\n\t\treturn err\n\t}\n\n\treturn nil\n}\n\nfunc (k Keeper) WithdrawLimitAuctionBid(", Replace: "_ = amount\n\tprotocolData.BidValue = protocolData.BidValue.Sub(userLimitBid.DebtToken.Amount)\n\terr = k.SetLimitBidProtocolData(ctx, protocolData)\n\tif err != nil {\n\t\treturn err\n\t}\n\n\treturn nil\n}\n\nfunc (k Keeper) WithdrawLimitAuctionBid(",
		Rule: "R11.5", Contains: "CancelLimitAuctionBid"})
	addControl(Control{Prop: "C15", Name: "surplus-start-failure-returns-success", File: "x/auction/keeper/surplus.go",
		Find: "\t\terr = k.StartSurplusAuction(ctx, sellToken, buyToken, collector.BidFactor, appID, assetID, assetBuyID, assetSellID)\n\t\tif err != nil {\n\t\t\treturn status, err\n\t\t}", Replace: "\t\terr = k.StartSurplusAuction(ctx, sellToken, buyToken, collector.BidFactor, appID, assetID, assetBuyID, assetSellID)\n\t\tif err != nil {\n\t\t\treturn auctiontypes.NoAuction, nil\n\t\t}",
		Rule: "R15.6", Contains: "checkStatusOfNetFeesCollectedAndStartSurplusAuction"})
	addControl(Control{Prop: "C20", Name: "liquidity-export-pool-counter-from-pair-counter", File: "x/liquidity/keeper/genesis.go",
		Find: "LastPoolId:               k.GetLastPoolID(ctx, app.Id),", Replace: "LastPoolId:               k.GetLastPairID(ctx, app.Id),",
		Rule: "R20.7", Contains: "LastPoolId <- GetLastPairID"})
	addControl(Control{Prop: "C20", Name: "asset-import-name-index-from-denom", File: "x/asset/genesis.go",
		Find: "k.SetAssetForName(ctx, item.Name, item.Id)", Replace: "k.SetAssetForName(ctx, item.Denom, item.Id)",
		Rule: "R20.7", Contains: "SetAssetForName arg 1"})
	// ---- C18 ----
	addControl(Control{Prop: "C18", Name: "negative-elapsed-test-inverted", File: "x/rewards/keeper/iter.go",
		Find: "if secondsElapsed < types.Int64Zero {", Replace: "if secondsElapsed > types.Int64Zero {",
		Rule: "R18.1", Contains: "CalculationOfRewards"})
	addControl(Control{Prop: "C18", Name: "negative-elapsed-LT-to-LTE-stricter", File: "x/rewards/keeper/iter.go",
		Find: "if secondsElapsed < types.Int64Zero {", Replace: "if secondsElapsed <= types.Int64Zero {", Negative: true})
	addControl(Control{Prop: "C18", Name: "locker-time-base-not-refreshed", File: "x/rewards/keeper/rewards.go",
		Find: "\t\tlockerData.BlockTime = ctx.BlockTime()\n", Replace: "", Nth: 2,
		Rule: "R18.2", Contains: "CalculateLockerRewards"})
	addControl(Control{Prop: "C18", Name: "locker-carry-not-reduced-by-paid-units", File: "x/rewards/keeper/rewards.go",
		Find: "lockerRewardsTracker.RewardsAccumulated = lockerRewardsTracker.RewardsAccumulated.Sub(newRewardDec)", Replace: "lockerRewardsTracker.RewardsAccumulated = lockerRewardsTracker.RewardsAccumulated.Sub(newRewardDec.Sub(newRewardDec))",
		Rule: "R18.3", Contains: "CalculateLockerRewards"})
}
