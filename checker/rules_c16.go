package main

import (
	"fmt"
	"go/constant"
	"go/token"
	"go/types"
	"sort"
	"strings"

	"golang.org/x/tools/go/ssa"
)

func init() { register("C16", rulesC16) }

// entryReachable: comdex functions reachable from message handlers, hooks, wasm handlers
// and genesis, not descending into auxiliary (generated / cli / simulation) code.
func (p *Prog) entryReachable() map[*ssa.Function]bool {
	var roots []*ssa.Function
	for _, e := range p.AllEntries() {
		roots = append(roots, e.Fn)
	}
	// ante handlers and the app-level begin/end blockers are consensus code as well
	for _, f := range p.Funcs {
		n := fname(f)
		if strings.HasPrefix(n, "app.App.BeginBlocker") || strings.HasPrefix(n, "app.App.EndBlocker") || strings.HasPrefix(n, "app.App.InitChainer") {
			roots = append(roots, f)
		}
		// contract bindings (messages and queries), ante decorators, IBC callbacks
		if f.Parent() == nil && f.Synthetic == "" && !p.isAuxFn(f) {
			if strings.HasPrefix(n, "app/wasm.") || strings.HasPrefix(n, "app/decorators.") || strings.HasPrefix(n, "app.NewAnteHandler") {
				roots = append(roots, f)
			}
			if strings.HasPrefix(n, "x/") && strings.Contains(n, ".IBCModule.On") || strings.Contains(n, ".AppModule.On") {
				roots = append(roots, f)
			}
		}
	}
	return p.Reachable(roots, func(f *ssa.Function) bool { return p.isAuxFn(f) })
}

var commutativeAdders = map[string]bool{
	"cosmossdk.io/math.Int.Add": true, "cosmossdk.io/math.LegacyDec.Add": true, "cosmossdk.io/math.Uint.Add": true,
	"github.com/cosmos/cosmos-sdk/types.Coins.Add": true, "github.com/cosmos/cosmos-sdk/types.Coin.Add": true,
	"github.com/cosmos/cosmos-sdk/types.DecCoins.Add": true, "github.com/cosmos/cosmos-sdk/types.DecCoin.Add": true,
	"cosmossdk.io/math.MaxInt": true, "cosmossdk.io/math.MinInt": true, "cosmossdk.io/math.LegacyMaxDec": true, "cosmossdk.io/math.LegacyMinDec": true,
	"cosmossdk.io/math.Int.AddRaw": true,
}

// bannedCall classifies a call that makes consensus code depend on something other than
// the block sequence.
func bannedCall(c ssa.CallInstruction) string {
	sc := c.Common().StaticCallee()
	if sc == nil {
		return ""
	}
	n := fullName(sc)
	switch {
	case n == "time.Now" || n == "time.Since" || n == "time.Until":
		return "wall-clock time (" + n + ")"
	case strings.HasPrefix(n, "math/rand.") && sc.Signature.Recv() == nil && n != "math/rand.New" && n != "math/rand.NewSource":
		return "global pseudo-random source (" + n + ")"
	case strings.HasPrefix(n, "math/rand/v2.") && sc.Signature.Recv() == nil && !strings.HasPrefix(n, "math/rand/v2.New"):
		return "global pseudo-random source (" + n + ")"
	case strings.HasPrefix(n, "crypto/rand."):
		return "cryptographic randomness (" + n + ")"
	case n == "os.Getenv" || n == "os.Environ" || n == "os.LookupEnv" || n == "os.Hostname" || n == "os.Getpid" || n == "os.Getwd":
		return "process environment (" + n + ")"
	case n == "runtime.NumGoroutine" || n == "runtime.NumCPU" || n == "runtime.GOMAXPROCS" || n == "runtime.ReadMemStats":
		return "runtime introspection (" + n + ")"
	case n == "golang.org/x/exp/maps.Keys" || n == "golang.org/x/exp/maps.Values" || n == "maps.Keys" || n == "maps.Values" || n == "reflect.Value.MapKeys" || n == "reflect.Value.MapRange":
		return "unordered map key/value extraction (" + n + ")"
	}
	// %p in a constant format string
	if strings.HasPrefix(n, "fmt.") {
		for _, a := range c.Common().Args {
			if k, ok := a.(*ssa.Const); ok && k.Value != nil && k.Value.Kind() == constant.String && strings.Contains(constant.StringVal(k.Value), "%p") {
				return "pointer formatting (%p)"
			}
		}
	}
	return ""
}

// pureEnough: a comdex function that neither takes a context/keeper nor (transitively)
// touches the store, the bank, events or package-level variables.
type purity struct {
	p    *Prog
	memo map[*ssa.Function]int
	why  map[*ssa.Function]string
}

func (pu *purity) fn(f *ssa.Function) bool {
	switch pu.memo[f] {
	case 1:
		return true // recursion: assume pure, any impurity shows up on the other path
	case 2:
		return true
	case 3:
		return false
	}
	pu.memo[f] = 1
	ok := pu.compute(f)
	if !ok && pu.why != nil && pu.why[f] == "" {
		pu.why[f] = "?"
	}
	if ok {
		pu.memo[f] = 2
	} else {
		pu.memo[f] = 3
	}
	return ok
}

func (pu *purity) compute(f *ssa.Function) bool {
	if !isComdexFn(f) {
		n := fullName(f)
		pu.why[f] = "external function not on the pure list"
		return isTransparentCallee(n) || strings.HasPrefix(n, "strconv.") || strings.HasPrefix(n, "strings.") || strings.HasPrefix(n, "math.") || strings.HasPrefix(n, "sort.") || strings.HasPrefix(n, "fmt.") || strings.HasPrefix(n, "errors.") || strings.HasPrefix(n, "bytes.")
	}
	if len(f.Blocks) == 0 {
		return false
	}
	for _, pr := range f.Params {
		if isContextType(pr.Type()) {
			pu.why[f] = "takes sdk.Context"
			return false
		}
	}
	for _, b := range f.Blocks {
		for _, in := range b.Instrs {
			switch x := in.(type) {
			case *ssa.Store:
				if _, isG := x.Addr.(*ssa.Global); isG {
					return false
				}
			case *ssa.Go, *ssa.Select, *ssa.Send:
				return false
			case ssa.CallInstruction:
				cc := x.Common()
				if _, isB := cc.Value.(*ssa.Builtin); isB {
					continue
				}
				if bannedCall(x) != "" {
					return false
				}
				if _, _, isKV := kvOp(x); isKV || bankEffect(x) != nil {
					return false
				}
				ts := pu.p.Callees(x)
				if len(ts) == 0 {
					pu.why[f] = "unresolved call at " + pu.p.instrPos(x)
					return false
				}
				for _, t := range ts {
					if !pu.fn(t) {
						pu.why[f] = "calls " + short(fullName(t)) + " (" + pu.why[t] + ")"
						return false
					}
				}
			}
		}
	}
	return true
}

func rulesC16(p *Prog, r *Report) {
	r.Explanation = "Decides the source-level necessary conditions of determinism over all code reachable from message handlers, block hooks, wasm handlers, genesis and the app-level block functions: (R16.1) every range over a map has an order-independent body (only commutative exact accumulation, writes keyed by the loop key, pure calls on loop variables, appends that are sorted afterwards; no early exit, no context/keeper call, no float accumulation); (R16.2) no wall clock, global/crypto randomness, environment, goroutines, channels, select, %p or unordered map-key extraction. It does not cover nondeterminism inside dependencies (cosmos-sdk, wasmvm), reflection, or cross-architecture floating point."
	r.Assumptions = []string{"dependencies outside the repository are deterministic", "store iteration is ordered (SDK KVStore)", "call graph: static + interface calls resolved to comdex types + closures passed as arguments"}
	reach := p.entryReachable()
	var fns []*ssa.Function
	for f := range reach {
		fns = append(fns, f)
	}
	sort.Slice(fns, func(i, j int) bool { return fname(fns[i]) < fname(fns[j]) })
	r.Info["reachable_functions"] = len(fns)

	r.Rule("R16.1", "every reachable range over a map has an order-independent body", 2)
	r.Rule("R16.2", "no wall clock, randomness, environment, goroutine, channel, select, %p, unordered key extraction in reachable code", 1200)
	pu := &purity{p: p, memo: map[*ssa.Function]int{}, why: map[*ssa.Function]string{}}
	nCalls := 0
	for _, f := range fns {
		r.FuncsSeen[fname(f)] = true
		r.Instance("R16.2") // one instance per function scanned
		clean := true
		for _, b := range f.Blocks {
			for _, in := range b.Instrs {
				switch x := in.(type) {
				case *ssa.Go:
					r.Fail("R16.2", fname(f)+" go statement", "goroutine started in consensus code: scheduling order can influence state", p.instrPos(x), nil)
					clean = false
				case *ssa.Select:
					r.Fail("R16.2", fname(f)+" select", "select in consensus code: ready-case choice is random", p.instrPos(x), nil)
					clean = false
				case *ssa.Send:
					r.Fail("R16.2", fname(f)+" channel send", "channel communication in consensus code", p.instrPos(x), nil)
					clean = false
				case *ssa.MakeChan:
					r.Fail("R16.2", fname(f)+" make(chan)", "channel created in consensus code", p.instrPos(x), nil)
					clean = false
				case *ssa.UnOp:
					if x.Op == token.ARROW {
						r.Fail("R16.2", fname(f)+" channel receive", "channel communication in consensus code", p.instrPos(x), nil)
						clean = false
					}
				case *ssa.Convert:
					if bt, ok := x.Type().Underlying().(*types.Basic); ok && bt.Kind() == types.Uintptr {
						if _, isPtr := x.X.Type().Underlying().(*types.Pointer); isPtr {
							r.Fail("R16.2", fname(f)+" pointer to integer", "address of a heap object converted to an integer", p.instrPos(x), nil)
							clean = false
						}
						if bt2, ok := x.X.Type().Underlying().(*types.Basic); ok && bt2.Kind() == types.UnsafePointer {
							r.Fail("R16.2", fname(f)+" pointer to integer", "unsafe.Pointer converted to an integer", p.instrPos(x), nil)
							clean = false
						}
					}
				case ssa.CallInstruction:
					nCalls++
					if why := bannedCall(x); why != "" {
						// telemetry measurements are not consensus state
						if isTelemetryArg(x) {
							continue
						}
						r.Fail("R16.2", fmt.Sprintf("%s uses %s", fname(f), why), "consensus code depends on "+why, p.instrPos(x), nil)
						clean = false
					}
				case *ssa.Range:
					if _, isMap := x.X.Type().Underlying().(*types.Map); !isMap {
						continue
					}
					r.Instance("R16.1")
					construct := fmt.Sprintf("%s range over map #%d", fname(f), mapRangeOrdinal(f, x))
					if why, pos := mapRangeOrderDependent(p, pu, f, x); why == "" {
						r.OK("R16.1", construct, "body is order-independent", p.instrPos(x))
					} else {
						r.Fail("R16.1", construct, "iteration over a map whose body depends on iteration order: "+why, pos, nil)
					}
				}
			}
		}
		if clean {
			r.stat("R16.2").Discharged++
		}
	}
	r.Obligations = append(r.Obligations, Obligation{Rule: "R16.2", Construct: fmt.Sprintf("%d reachable functions, %d call sites scanned", len(fns), nCalls), Detail: "no banned construct", OK: true})
	r.Info["call_sites_scanned"] = nCalls
	// informational: float arithmetic sites
	var floats []string
	for _, f := range fns {
		for _, c := range calls(f) {
			if sc := c.Common().StaticCallee(); sc != nil {
				n := fullName(sc)
				if n == "math.Pow" || n == "math.Floor" || n == "math.Ceil" || n == "math.Exp" || n == "math.Log" {
					floats = append(floats, p.instrPos(c)+" "+n+" in "+fname(f))
				}
			}
		}
	}
	sort.Strings(floats)
	r.Info["float_math_sites_informational"] = floats
}

// isTelemetryArg: the banned call's value only feeds a telemetry call (metrics are not state).
func isTelemetryArg(c ssa.CallInstruction) bool {
	v, ok := c.(ssa.Value)
	if !ok || v.Referrers() == nil {
		return false
	}
	refs := *v.Referrers()
	if len(refs) == 0 {
		return false
	}
	for _, ref := range refs {
		rc, ok := ref.(ssa.CallInstruction)
		if !ok {
			return false
		}
		sc := rc.Common().StaticCallee()
		if sc == nil || !strings.Contains(fullName(sc), "/telemetry.") {
			return false
		}
	}
	return true
}

func mapRangeOrdinal(f *ssa.Function, rg *ssa.Range) int {
	n := 0
	for _, b := range f.Blocks {
		for _, in := range b.Instrs {
			if x, ok := in.(*ssa.Range); ok {
				if _, isMap := x.X.Type().Underlying().(*types.Map); isMap {
					n++
					if x == rg {
						return n
					}
				}
			}
		}
	}
	return n
}

// mapRangeOrderDependent returns "" when the loop body is order-independent, else the reason.
func mapRangeOrderDependent(p *Prog, pu *purity, f *ssa.Function, rg *ssa.Range) (string, string) {
	// find the Next and the loop
	var next *ssa.Next
	for _, ref := range *rg.Referrers() {
		if n, ok := ref.(*ssa.Next); ok {
			next = n
		}
	}
	if next == nil {
		return "", ""
	}
	var loop *Loop
	for _, l := range loopsOf(f) {
		if l.Head == next.Block() {
			loop = l
		}
	}
	if loop == nil {
		return "cannot identify the loop of the range", p.instrPos(rg)
	}
	// key value of the iteration
	var keyVal ssa.Value
	for _, ref := range *next.Referrers() {
		if ex, ok := ref.(*ssa.Extract); ok && ex.Index == 1 {
			keyVal = ex
		}
	}
	inLoop := func(v ssa.Value) bool {
		if in, ok := v.(ssa.Instruction); ok {
			return loop.Body[in.Block()]
		}
		return false
	}
	// early exits
	for b := range loop.Body {
		if b == loop.Head {
			continue
		}
		for _, s := range b.Succs {
			if !loop.Body[s] {
				pos := p.instrPos(b.Instrs[len(b.Instrs)-1])
				return "the loop is left early (break/return): which element is seen first depends on map order", pos
			}
		}
	}
	// loop-carried phis in the header
	carried := map[ssa.Value]bool{}
	for _, in := range loop.Head.Instrs {
		if ph, ok := in.(*ssa.Phi); ok {
			carried[ph] = true
		}
	}
	// also phis in body blocks merging carried values
	dependsOnCarried := func(v ssa.Value) bool {
		seen := map[ssa.Value]bool{}
		var rec func(v ssa.Value) bool
		rec = func(v ssa.Value) bool {
			if seen[v] {
				return false
			}
			seen[v] = true
			if carried[v] {
				return true
			}
			in, ok := v.(ssa.Instruction)
			if !ok || !loop.Body[in.Block()] {
				return false
			}
			for _, op := range in.Operands(nil) {
				if *op != nil && rec(*op) {
					return true
				}
			}
			return false
		}
		return rec(v)
	}
	// each carried phi: in-loop incoming edges must be phi.Add(x) with x independent of carried state
	for _, in := range loop.Head.Instrs {
		ph, ok := in.(*ssa.Phi)
		if !ok {
			continue
		}
		for i, e := range ph.Edges {
			if !loop.Body[loop.Head.Preds[i]] {
				continue // entry edge
			}
			if why := accumOK(p, ph, e, carried, dependsOnCarried, inLoop, 0); why != "" {
				pos := p.instrPos(rg)
				if ei, ok := e.(ssa.Instruction); ok {
					pos = p.instrPos(ei)
				}
				return why, pos
			}
		}
	}
	// instructions of the body
	for b := range loop.Body {
		for _, in := range b.Instrs {
			switch x := in.(type) {
			case *ssa.Store:
				// stores to locals allocated inside the loop are fine
				if a, ok := x.Addr.(*ssa.Alloc); ok && loop.Body[a.Block()] {
					continue
				}
				if fa, ok := x.Addr.(*ssa.FieldAddr); ok {
					if a, ok := fa.X.(*ssa.Alloc); ok && loop.Body[a.Block()] {
						continue
					}
				}
				// accumulation through memory: *a = (*a).Add(x)
				if why := memAccumOK(p, x, dependsOnCarried); why != "" {
					return why, p.instrPos(x)
				}
			case *ssa.MapUpdate:
				if keyVal == nil || !(x.Key == keyVal) {
					if !derivedOnlyFromKey(x.Key, keyVal, loop) {
						return "a map is updated under a key other than the loop key (last writer wins in map order)", p.instrPos(x)
					}
				}
			case *ssa.Panic:
				return "panic inside the loop: which element triggers it first depends on map order", p.instrPos(x)
			case ssa.CallInstruction:
				cc := x.Common()
				if bi, isB := cc.Value.(*ssa.Builtin); isB {
					if bi.Name() == "append" {
						if !sortedAfter(p, f, x, loop) {
							return "elements are appended to a slice in map order and the slice is not sorted afterwards", p.instrPos(x)
						}
					}
					continue
				}
				if sc := cc.StaticCallee(); sc != nil && commutativeAdders[fullName(sc)] {
					continue
				}
				for _, a := range cc.Args {
					if isContextType(a.Type()) {
						return "a function taking sdk.Context is called inside the loop (state writes / events in map order)", p.instrPos(x)
					}
				}
				ts := p.Callees(x)
				if len(ts) == 0 {
					if cc.IsInvoke() && isPureInterfaceCall(cc) {
						continue
					}
					return "a call that cannot be resolved to a pure function is made inside the loop", p.instrPos(x)
				}
				for _, t := range ts {
					if !pu.fn(t) {
						return "a call to " + short(fullName(t)) + ", which is not free of store/bank/global effects (" + pu.why[t] + "), is made inside the loop", p.instrPos(x)
					}
				}
			}
		}
	}
	return "", ""
}

// isPureInterfaceCall: method on amm.Order / amm.Pool style value interfaces with getters only.
func isPureInterfaceCall(cc *ssa.CallCommon) bool {
	n := cc.Method.Name()
	return strings.HasPrefix(n, "Get") || strings.HasPrefix(n, "Is") || n == "String" || n == "HasPriority"
}

func derivedOnlyFromKey(k, keyVal ssa.Value, loop *Loop) bool {
	if keyVal == nil {
		return false
	}
	switch x := k.(type) {
	case *ssa.MakeInterface:
		return x.X == keyVal || derivedOnlyFromKey(x.X, keyVal, loop)
	case *ssa.ChangeType:
		return derivedOnlyFromKey(x.X, keyVal, loop)
	case *ssa.Convert:
		return derivedOnlyFromKey(x.X, keyVal, loop)
	}
	return k == keyVal
}

// accumOK: the in-loop value e of carried phi ph must be ph itself (unchanged on this
// path), or adder(ph', x) where ph' is ph (or an accumOK value of it) and x does not
// depend on carried state; integer + is accepted, float + and string + are not.
func accumOK(p *Prog, ph *ssa.Phi, e ssa.Value, carried map[ssa.Value]bool, dependsOnCarried func(ssa.Value) bool, inLoop func(ssa.Value) bool, depth int) string {
	if depth > 8 {
		return "accumulation too deep to analyse"
	}
	if e == ph {
		return ""
	}
	switch x := e.(type) {
	case *ssa.Phi:
		if !inLoop(x) {
			return ""
		}
		for _, ee := range x.Edges {
			if why := accumOK(p, ph, ee, carried, dependsOnCarried, inLoop, depth+1); why != "" {
				return why
			}
		}
		return ""
	case *ssa.BinOp:
		bt, _ := x.Type().Underlying().(*types.Basic)
		if bt == nil || bt.Info()&types.IsInteger == 0 {
			return "a non-integer value (float/string) is accumulated with " + x.Op.String() + ": not associative, result depends on map order"
		}
		if x.Op != token.ADD && x.Op != token.OR && x.Op != token.AND && x.Op != token.XOR && x.Op != token.MUL {
			return "loop-carried value updated with non-commutative operator " + x.Op.String()
		}
		a, b := x.X, x.Y
		if why := accumOK(p, ph, a, carried, dependsOnCarried, inLoop, depth+1); why == "" && isCarriedChain(a, ph) && !dependsOnCarried(b) {
			return ""
		}
		if why := accumOK(p, ph, b, carried, dependsOnCarried, inLoop, depth+1); why == "" && isCarriedChain(b, ph) && !dependsOnCarried(a) {
			return ""
		}
		return "loop-carried value is updated from itself and other order-dependent state"
	case *ssa.Call:
		sc := x.Call.StaticCallee()
		if sc == nil || !commutativeAdders[fullName(sc)] {
			name := "dynamic call"
			if sc != nil {
				name = short(fullName(sc))
			}
			return "a loop-carried value is updated through " + name + ", which is not a known commutative exact accumulation"
		}
		args := x.Call.Args
		if len(args) < 2 {
			return "unexpected accumulation shape"
		}
		recv, rest := args[0], args[1:]
		if !isCarriedChain(recv, ph) {
			// Add(x, acc)? accept symmetric
			if len(rest) == 1 && isCarriedChain(rest[0], ph) && !dependsOnCarried(recv) {
				return accumOK(p, ph, rest[0], carried, dependsOnCarried, inLoop, depth+1)
			}
			return "accumulation receiver is not the loop-carried value"
		}
		for _, a := range rest {
			if dependsOnCarried(a) {
				return "the accumulated term itself depends on order-dependent state"
			}
		}
		return accumOK(p, ph, recv, carried, dependsOnCarried, inLoop, depth+1)
	}
	if !inLoop(e) {
		return "" // loop-invariant value assigned: same for every order only if assigned on all iterations; accept
	}
	return "a loop-carried value is overwritten with a per-element value (last element in map order wins)"
}

// isCarriedChain: v is ph or an accumulation chain rooted at ph.
func isCarriedChain(v ssa.Value, ph *ssa.Phi) bool {
	for i := 0; i < 10; i++ {
		if v == ph {
			return true
		}
		switch x := v.(type) {
		case *ssa.Call:
			if len(x.Call.Args) > 0 {
				v = x.Call.Args[0]
				continue
			}
		case *ssa.BinOp:
			if isCarriedChain(x.X, ph) || isCarriedChain(x.Y, ph) {
				return true
			}
		case *ssa.Phi:
			for _, e := range x.Edges {
				if e != x && isCarriedChain(e, ph) {
					return true
				}
			}
		}
		return false
	}
	return false
}

// memAccumOK: store *a = adder(load a, x)
func memAccumOK(p *Prog, st *ssa.Store, dependsOnCarried func(ssa.Value) bool) string {
	isLoadOf := func(v ssa.Value) bool {
		u, ok := v.(*ssa.UnOp)
		return ok && u.Op == token.MUL && u.X == st.Addr
	}
	switch x := st.Val.(type) {
	case *ssa.Call:
		if sc := x.Call.StaticCallee(); sc != nil && commutativeAdders[fullName(sc)] && len(x.Call.Args) >= 2 && isLoadOf(x.Call.Args[0]) {
			return ""
		}
	case *ssa.BinOp:
		bt, _ := x.Type().Underlying().(*types.Basic)
		if bt != nil && bt.Info()&types.IsInteger != 0 && x.Op == token.ADD && (isLoadOf(x.X) || isLoadOf(x.Y)) {
			return ""
		}
	}
	return "a variable outside the loop is overwritten inside the loop with a per-element value (result depends on map order)"
}

// sortedAfter: the slice being appended to is passed to a sort function after the loop.
func sortedAfter(p *Prog, f *ssa.Function, app ssa.CallInstruction, loop *Loop) bool {
	for _, b := range f.Blocks {
		if loop.Body[b] {
			continue
		}
		for _, in := range b.Instrs {
			c, ok := in.(ssa.CallInstruction)
			if !ok {
				continue
			}
			sc := c.Common().StaticCallee()
			if sc == nil {
				continue
			}
			n := fullName(sc)
			if !(strings.HasPrefix(n, "sort.") || strings.HasPrefix(n, "slices.Sort") || strings.HasPrefix(n, "golang.org/x/exp/slices.Sort")) {
				continue
			}
			// the sorted slice must be (a phi of) the append result
			if len(c.Common().Args) == 0 {
				continue
			}
			arg := c.Common().Args[0]
			if mi, ok := arg.(*ssa.MakeInterface); ok {
				arg = mi.X
			}
			if ct, ok := arg.(*ssa.ChangeType); ok {
				arg = ct.X
			}
			if flowsFrom(arg, app.(ssa.Value), 0) {
				return true
			}
		}
	}
	return false
}

func flowsFrom(v, src ssa.Value, d int) bool {
	if d > 6 {
		return false
	}
	if v == src {
		return true
	}
	switch x := v.(type) {
	case *ssa.Phi:
		for _, e := range x.Edges {
			if flowsFrom(e, src, d+1) {
				return true
			}
		}
	case *ssa.UnOp:
		if x.Op == token.MUL {
			if a, ok := x.X.(*ssa.Alloc); ok {
				for _, ref := range *a.Referrers() {
					if st, ok := ref.(*ssa.Store); ok && flowsFrom(st.Val, src, d+1) {
						return true
					}
				}
			}
		}
	}
	return false
}
