package main

import (
	"fmt"
	"go/types"
	"sort"
	"strings"

	"golang.org/x/tools/go/ssa"
)

// Repository-wide rules that are instantiated from the code itself rather than from a
// hand-written table, scoped per property by module. They exist because the seeded
// round-2 changes showed that hand-picked anchors miss slips in sibling code paths.

// accessorPairs discovers every keeper (Get<X>, Set<X>) accessor pair of the given modules.
type accessorPair struct {
	get, set *ssa.Function
	typ      string
}

func (p *Prog) accessorPairs(mods map[string]bool) []accessorPair {
	var pairs []accessorPair
	byName := map[string]*ssa.Function{}
	for _, fn := range p.Funcs {
		if fn.Parent() == nil && fn.Signature.Recv() != nil && strings.HasSuffix(fnPkgPath(fn), "/keeper") && !p.isAuxFn(fn) && mods[moduleOf(fn)] {
			byName[fnPkgPath(fn)+"."+fn.Name()] = fn
		}
	}
	for k, g := range byName {
		i := strings.LastIndex(k, ".")
		n := k[i+1:]
		if !strings.HasPrefix(n, "Get") {
			continue
		}
		s := byName[k[:i+1]+"Set"+strings.TrimPrefix(n, "Get")]
		if s == nil {
			continue
		}
		res := g.Signature.Results()
		if res.Len() == 0 {
			continue
		}
		tn := namedTypeName(res.At(0).Type())
		if tn == "" {
			continue
		}
		pairs = append(pairs, accessorPair{g, s, tn})
	}
	sort.Slice(pairs, func(i, j int) bool { return fname(pairs[i].get) < fname(pairs[j].get) })
	return pairs
}

// genericStale: for every accessor pair of the modules and every operational function that
// reads the record, a copy read before a call that may rewrite the record is not used
// afterwards (written back, passed to a totals update, or used as a bank amount).
func genericStale(p *Prog, r *Report, rule string, mods map[string]bool, floor int) {
	r.Rule(rule, "no stale record copy: a record read before a call that may rewrite it is reloaded before it is written back or paid from (all keeper Get/Set accessor pairs of the modules)", floor)
	ops := p.operationalFns()
	var fns []*ssa.Function
	for f := range ops {
		if !p.isAuxFn(f) {
			fns = append(fns, f)
		}
	}
	sort.Slice(fns, func(i, j int) bool { return fname(fns[i]) < fname(fns[j]) })
	for _, pr := range p.accessorPairs(mods) {
		set := pr.set
		wm := p.NewMay(func(c ssa.CallInstruction, callee *ssa.Function) bool { return callee == set })
		for _, fn := range fns {
			has := false
			for _, c := range calls(fn) {
				if p.callIsFn(c, pr.get) {
					has = true
					break
				}
			}
			if !has {
				continue
			}
			uses := func(c ssa.CallInstruction) bool { return p.callIsFn(c, set) || bankEffect(c) != nil }
			p.staleReads(r, rule, fn, pr.typ, []*ssa.Function{pr.get}, wm, set, uses)
		}
	}
}

func modset(ms ...string) map[string]bool {
	out := map[string]bool{}
	for _, m := range ms {
		out[m] = true
	}
	return out
}

// genericScope: which modules' records / calls are the property's books.
type genericScope struct {
	idRule, staleRule string
	mods              map[string]bool // callers in these modules, callees in these modules, accessor pairs of these modules
	idFloor, stFloor  int
}

var genericScopes = map[string]genericScope{
	"C01": {"R01.6", "R01.7", modset("vault"), 150, 14},
	"C04": {"R04.6", "R04.7", modset("liquidity"), 150, 22},
	"C08": {"R08.6", "R08.7", modset("lend"), 220, 20},
	"C09": {"R09.5", "R09.6", modset("liquidation", "liquidationsV2"), 160, 4},
	"C10": {"R10.6", "R10.7", modset("auction", "auctionsV2"), 240, 5},
	"C11": {"R11.6", "R11.7", modset("auction", "auctionsV2"), 240, 5},
	"C13": {"R13.4", "R13.5", modset("locker", "collector"), 100, 4},
	"C14": {"R14.7", "", modset("esm", "market"), 60, 0},
	"C19": {"R19.7", "", modset("rewards"), 90, 0},
	"C17": {"R17.7", "", modset("bandoracle", "market"), 1, 0},
	"C06": {"R06.9", "", modset("liquidity"), 100, 0},
	"C03": {"", "R03.13", modset("vault"), 0, 14},
}

func genericFor(id string, p *Prog, r *Report) {
	sc := genericScopes[id]
	if sc.idRule != "" {
		var callers map[string]bool
		if id != "C14" {
			callers = sc.mods
		}
		idKindRuleX(p, r, sc.idRule, callers, sc.mods, sc.idFloor)
	}
	if sc.staleRule != "" {
		genericStale(p, r, sc.staleRule, sc.mods, sc.stFloor)
	}
	if ms, ok := updaterScopes[id]; ok {
		directionUpdaterRule(p, r, ms.rule, ms.mods, ms.floor)
		discardedArithmeticRule(p, r, ms.rule2, ms.mods, 5)
	}
	switch id {
	case "C19":
		selfDecrementRule(p, r, "R19.9", modset("rewards"), "AvailableRewards", 3)
		reserveSideRule(p, r, "R19.10", 4)
	case "C08":
		flagSelectsListRule(p, r, "R08.14", modset("lend"), 2)
	case "C10":
		ignoredIDParamRule(p, r, "R10.14", modset("vault", "auction", "auctionsV2"), 100)
	case "C07":
		freshOrderIndexedRule(p, r, "R07.9", 2)
	case "C04":
		denomLinkRule(p, r, "R04.8", modset("liquidity"), 4)
		executeOnceRule(p, r, "R04.9", 4)
	case "C06":
		denomLinkRule(p, r, "R06.5", modset("liquidity"), 4)
		executeOnceRule(p, r, "R06.6", 4)
		reserveSideRule(p, r, "R06.8", 4)
	case "C01":
		recordLinkRule(p, r, "R01.9", modset("vault"), 15)
	case "C02":
		recordLinkRule(p, r, "R02.7", modset("vault"), 15)
		initAccumulateRule(p, r, "R02.8", modset("esm", "vault"), 2)
	case "C03":
		recordLinkRule(p, r, "R03.8", modset("vault"), 15)
		priceDiscipline(p, r, "R03.10", modset("market", "vault"), 4)
		scaleAgreementRule(p, r, "R03.9", modset("vault"), 3)
	case "C09":
		scaleAgreementRule(p, r, "R09.7", modset("vault", "liquidation", "liquidationsV2", "lend"), 3)
		flagSelectsListRule(p, r, "R09.12", modset("lend", "liquidation", "liquidationsV2"), 2)
	case "C13":
		recordLinkRule(p, r, "R13.7", modset("locker"), 4)
	case "C14":
		recordLinkRule(p, r, "R14.8", modset("vault", "locker", "lend"), 20)
	}
	if ps, ok := pairTable[id]; ok {
		rules := map[string]string{"C08": "R08.9", "C01": "R01.11", "C11": "R11.9", "C07": "R07.8"}
		pairedWritersRule(p, r, rules[id], ps, len(ps))
	}
	if cs, ok := counterScopes[id]; ok {
		counterProvenanceRule(p, r, cs.rule, cs.mods, cs.floor)
	}
	if fs, ok := freshScopes[id]; ok {
		freshIDRule(p, r, fs.rule, fs.mods, fs.floor)
	}
	if rr, ok := replScopes[id]; ok {
		replacedFieldRule(p, r, rr.rule, rr.mods, rr.floor)
	}
	if id == "C01" || id == "C02" {
		positiveAmountRule(p, r, map[string]string{"C01": "R01.16", "C02": "R02.9"}[id], modset("vault"), 8)
	}
	if id == "C13" {
		positiveAmountRule(p, r, "R13.14", modset("locker"), 3)
	}
	if id == "C13" {
		sideAgreementRule(p, r, "R13.6", modset("auction", "auctionsV2", "liquidation", "liquidationsV2", "collector", "esm", "vault", "lend"), 10)
	}
}

// sideAgreementRule: auction records carry two assets (the lot that goes out and the asset
// that comes in), each with an id field, amount/coin fields and a price field. A call that is
// keyed by ONE asset id (a per-asset book, a mint/burn, a decimals lookup) must receive
// amounts and prices of that same side. Sides come from the record field names (sideOfName).
func sideAgreementRule(p *Prog, r *Report, rule string, mods map[string]bool, floor int) {
	r.Rule(rule, "calls keyed by one asset id receive the amount / price of the same side of the auction record", floor)
	ops := p.operationalFns()
	writes := stateWriteMay(p)
	for _, fn := range p.Funcs {
		if !ops[fn] || !mods[moduleOf(fn)] || p.isAuxFn(fn) {
			continue
		}
		seen := map[string]int{}
		for _, c := range calls(fn) {
			ts := p.Callees(c)
			if len(ts) == 0 || !isComdexFn(ts[0]) || ts[0].Signature.Recv() == nil {
				continue
			}
			t := ts[0]
			if !writes.Fn(t) {
				continue // pure helpers (valuation, dust checks) are not books
			}
			args := callArgs(c)
			// the single asset-id argument
			idIdx := -1
			nID := 0
			for i, a := range args {
				if !isUint64(a.Type()) {
					continue
				}
				if s := idSide(p, a); s != "" {
					idIdx = i
					nID++
				}
			}
			if nID != 1 {
				continue
			}
			// no other asset-kind parameter (two-asset helpers legitimately mix sides)
			pk := paramKinds(t)
			assetParams := 0
			for i := 0; i < t.Signature.Params().Len(); i++ {
				pv := t.Signature.Params().At(i)
				if !isUint64(pv.Type()) {
					continue
				}
				k := ""
				if i < len(pk) {
					k = pk[i]
				}
				if strings.Contains(k, "asset") || k == "" {
					assetParams++
				}
			}
			if assetParams != 1 {
				continue
			}
			side := idSide(p, args[idIdx])
			for i, a := range args {
				if i == idIdx || isUint64(a.Type()) || !isAmountType(a.Type()) {
					continue
				}
				as := coinSide(p, a)
				if as == "" {
					continue
				}
				r.Instance(rule)
				r.FuncsSeen[fname(fn)] = true
				base := fmt.Sprintf("%s -> %s arg %d", fname(fn), t.Name(), i)
				seen[base]++
				construct := base
				if seen[base] > 1 {
					construct = fmt.Sprintf("%s #%d", base, seen[base])
				}
				if as == side {
					r.OK(rule, construct, "the "+side+"-side asset id with a "+as+"-side value", p.instrPos(c))
				} else if why, ok := sideExceptions[construct]; ok {
					r.Note("%s exception %s: %s", rule, construct, why)
				} else {
					r.Fail(rule, construct, fmt.Sprintf("%s is keyed by the %s-side asset id but receives a %s-side value: the value is booked / scaled under the wrong asset", short(fullName(t)), side, as), p.instrPos(c), nil)
				}
			}
		}
	}
}

// isAmountType: sdk.Int, sdk.Dec, sdk.Coin, sdk.Coins, sdk.DecCoin.
func isAmountType(t types.Type) bool {
	switch namedTypeName(derefAll(t)) {
	case "Int", "Dec", "LegacyDec", "Coin", "Coins", "DecCoin", "DecCoins", "Uint":
		return true
	}
	return false
}

var sideExceptions = map[string]string{
	"x/auctionsV2/keeper.Keeper.CloseEnglishAuction -> MintNewTokensForApp arg 4": "debt-initiated V2 auctions are created with the two ids swapped on purpose (CheckStatsForSurplusAndDebt passes the collector asset as DebtAssetID to DebtTokenAmount and CreateLockedVault), so DebtAssetId names the governance token that is minted and CollateralToken is an amount of it",
}

// replaced-field rule per property
var replScopes = map[string]struct {
	rule  string
	mods  map[string]bool
	floor int
}{
	"C01": {"R01.10", modset("vault"), 20},
	"C08": {"R08.8", modset("lend"), 50},
	"C10": {"R10.9", modset("auction", "auctionsV2"), 100},
	"C13": {"R13.8", modset("locker", "collector"), 10},
	"C18": {"R18.4", modset("rewards", "lend"), 50},
}

// counterProvenanceRule: id and length counters are plain uint64 cells with Get<N>/Set<N>
// accessors. A counter is advanced from its own previous value (or set from the id of the
// record just stored); feeding it from ANOTHER counter (the next vault id from the number of
// open vaults) makes ids collide as soon as the two diverge.
func counterProvenanceRule(p *Prog, r *Report, rule string, mods map[string]bool, floor int) {
	r.Rule(rule, "a counter is advanced from its own previous value, never from another counter", floor)
	isCounterGetter := func(f *ssa.Function) bool {
		if f == nil || !isComdexFn(f) || f.Signature.Recv() == nil || !strings.HasPrefix(f.Name(), "Get") {
			return false
		}
		sig := f.Signature
		if sig.Params().Len() != 1 || sig.Results().Len() != 1 || !isUint64(sig.Results().At(0).Type()) {
			return false
		}
		// it has a setter twin
		return p.byName[short(fnPkgPath(f))+".Keeper.Set"+strings.TrimPrefix(f.Name(), "Get")] != nil
	}
	ops := p.operationalFns()
	var fns []*ssa.Function
	for f := range ops {
		if mods[moduleOf(f)] && !p.isAuxFn(f) {
			fns = append(fns, f)
		}
	}
	sort.Slice(fns, func(i, j int) bool { return fname(fns[i]) < fname(fns[j]) })
	for _, fn := range fns {
		n := map[string]int{}
		for _, c := range calls(fn) {
			ts := p.Callees(c)
			if len(ts) == 0 || !isComdexFn(ts[0]) || !strings.HasPrefix(ts[0].Name(), "Set") {
				continue
			}
			set := ts[0]
			sig := set.Signature
			if sig.Params().Len() != 2 || !isUint64(sig.Params().At(1).Type()) || sig.Results().Len() != 0 {
				continue
			}
			twin := p.byName[short(fnPkgPath(set))+".Keeper.Get"+strings.TrimPrefix(set.Name(), "Set")]
			if twin == nil || !isCounterGetter(twin) {
				continue
			}
			args := callArgs(c)
			if len(args) < 2 {
				continue
			}
			var foreign []string
			own := false
			for _, o := range p.DeepOrigins(args[1]) {
				if o.Kind != "call" || len(o.Path) != 0 {
					continue
				}
				for _, g := range p.Callees(o.Call) {
					if !isCounterGetter(g) {
						continue
					}
					if g == twin {
						own = true
					} else {
						foreign = append(foreign, g.Name())
					}
				}
			}
			if !own && len(foreign) == 0 {
				continue // set from a record id, the message or the genesis document
			}
			r.Instance(rule)
			r.FuncsSeen[fname(fn)] = true
			base := fmt.Sprintf("%s %s", fname(fn), set.Name())
			n[base]++
			construct := base
			if n[base] > 1 {
				construct = fmt.Sprintf("%s #%d", base, n[base])
			}
			if len(foreign) > 0 {
				r.Fail(rule, construct, fmt.Sprintf("%s is fed from %v, a different counter: once the two counters diverge (a record is removed), newly assigned ids collide with live records or the count drifts", set.Name(), uniq(foreign)), p.instrPos(c), nil)
			} else {
				r.OK(rule, construct, "advanced from its own previous value", p.instrPos(c))
			}
		}
	}
}

// freshIDRule: a record stored under an id taken from a counter (Get<Counter>() + 1) is
// stored only on success paths that also store the counter back (Set<Counter>): otherwise the
// next record is assigned the same id and overwrites this one.
func freshIDRule(p *Prog, r *Report, rule string, mods map[string]bool, floor int) {
	r.Rule(rule, "a record stored under an id taken from a counter advances that counter on the same success path", floor)
	ops := p.operationalFns()
	var fns []*ssa.Function
	for f := range ops {
		if mods[moduleOf(f)] && !p.isAuxFn(f) && len(f.Blocks) > 0 {
			fns = append(fns, f)
		}
	}
	sort.Slice(fns, func(i, j int) bool { return fname(fns[i]) < fname(fns[j]) })
	for _, fn := range fns {
		// counter reads of this function
		type ctr struct {
			get    *ssa.Call
			setter *ssa.Function
		}
		var ctrs []ctr
		for _, c := range calls(fn) {
			call, ok := c.(*ssa.Call)
			if !ok {
				continue
			}
			ts := p.Callees(c)
			if len(ts) == 0 || !isComdexFn(ts[0]) || ts[0].Signature.Recv() == nil || !strings.HasPrefix(ts[0].Name(), "Get") {
				continue
			}
			g := ts[0]
			sig := g.Signature
			if sig.Params().Len() != 1 || sig.Results().Len() != 1 || !isUint64(sig.Results().At(0).Type()) {
				continue
			}
			set := p.byName[short(fnPkgPath(g))+".Keeper.Set"+strings.TrimPrefix(g.Name(), "Get")]
			if set == nil || set.Signature.Params().Len() != 2 {
				continue
			}
			ctrs = append(ctrs, ctr{call, set})
		}
		done := map[*ssa.Function]bool{}
		for _, ct := range ctrs {
			if done[ct.setter] {
				continue
			}
			// records filled with the counter value: rec.<own id> = Get<Counter>() (+1)
			fresh := map[ssa.Value]bool{}
			for _, b := range fn.Blocks {
				for _, in := range b.Instrs {
					st, ok := in.(*ssa.Store)
					if !ok || !isUint64(st.Val.Type()) {
						continue
					}
					fa, ok := st.Addr.(*ssa.FieldAddr)
					if !ok {
						continue
					}
					nt := namedOf(fa.X.Type())
					if nt == nil || fieldName(fa.X.Type(), fa.Field) != ownIDField(nt) {
						continue
					}
					for _, o := range p.DeepOrigins(st.Val) {
						if o.Kind == "call" && o.Call == ssa.CallInstruction(ct.get) {
							base, _ := addrBase(st.Addr)
							fresh[base] = true
						}
					}
				}
			}
			var aBlocks []*ssa.BasicBlock
			var first ssa.CallInstruction
			for _, c := range calls(fn) {
				ts := p.Callees(c)
				if len(ts) == 0 || !isComdexFn(ts[0]) || !strings.HasPrefix(ts[0].Name(), "Set") || ts[0] == ct.setter {
					continue
				}
				for _, a := range callArgs(c) {
					fed := false
					if u, ok := a.(*ssa.UnOp); ok && fresh[u.X] {
						fed = true
					}
					for _, o := range p.Origins(a) {
						if len(o.Path) == 0 && o.Val != nil && fresh[o.Val] {
							fed = true
						}
					}
					if fed {
						aBlocks = append(aBlocks, c.Block())
						if first == nil {
							first = c
						}
					}
				}
			}
			if len(aBlocks) == 0 {
				continue
			}
			done[ct.setter] = true
			r.Instance(rule)
			r.FuncsSeen[fname(fn)] = true
			construct := fmt.Sprintf("%s fresh id from %s", fname(fn), calleeShortName(ct.get.Common()))
			blocked := map[*ssa.BasicBlock]bool{}
			for _, vs := range p.virtualSites(fn, nil) {
				if vs.call != nil && p.callIsFn(vs.call, ct.setter) && vs.must {
					blocked[vs.anchor.Block()] = true
				}
			}
			bad := false
			succ := p.successTargets(nil, fn, 0)
			seenE, _ := reach(fn, nil, nil, blocked)
			for _, ab := range aBlocks {
				if blocked[ab] || !seenE[ab] {
					continue
				}
				seenA, _ := reach(fn, ab, nil, blocked)
				for _, t := range succ {
					if seenA[t] {
						bad = true
					}
				}
			}
			if bad {
				r.Fail(rule, construct, fmt.Sprintf("a record is stored under the id read from the counter and the function can succeed without %s: the next record gets the same id and overwrites this one (with its owner)", ct.setter.Name()), p.instrPos(first), nil)
			} else {
				r.OK(rule, construct, "every success path through the store also calls "+ct.setter.Name(), p.instrPos(first))
			}
		}
	}
}

var updaterScopes = map[string]struct {
	rule, rule2 string
	mods        map[string]bool
	floor       int
}{
	"C01": {"R01.14", "R01.15", modset("vault"), 2},
	"C03": {"R03.11", "R03.12", modset("vault"), 2},
	"C08": {"R08.12", "R08.13", modset("lend"), 2},
	"C13": {"R13.12", "R13.13", modset("locker", "collector"), 0},
}

var freshScopes = map[string]struct {
	rule  string
	mods  map[string]bool
	floor int
}{
	"C01": {"R01.13", modset("vault", "auction", "auctionsV2", "liquidation", "liquidationsV2", "esm"), 2},
	"C08": {"R08.11", modset("lend"), 2},
	"C12": {"R12.6", modset("lend", "vault", "locker", "liquidity"), 5},
	"C13": {"R13.11", modset("locker"), 1},
}

var counterScopes = map[string]struct {
	rule  string
	mods  map[string]bool
	floor int
}{
	"C01": {"R01.12", modset("vault", "auction", "auctionsV2", "liquidation", "liquidationsV2", "esm"), 4},
	"C02": {"R02.6", modset("vault"), 4},
	"C08": {"R08.10", modset("lend"), 2},
	"C13": {"R13.10", modset("locker"), 1},
}
