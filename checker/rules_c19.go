package main

import (
	"fmt"
	"go/token"
	"sort"
	"strings"

	"golang.org/x/tools/go/ssa"
)

func init() {
	register("C19", rulesC19)
	register("C10", rulesC10)
}

func rulesC19(p *Prog, r *Report) {
	r.Explanation = "Thin claim. Decides that the caps of incentive payouts exist on every path to a payout: (R19.1) BeginRewardDistributions sends only behind sum of shares <= allocation; (R19.2) a gauge epoch is paid only behind available >= epoch amount and TriggeredCount < number of epoch splits (the index into the split list is guarded); (R19.3) after a successful payout the gauge is stored on every path and its remaining balance was reduced by what was paid (DepositAmount - paid for swap-fee gauges, DistributedAmount + paid otherwise); (R19.4) the sibling computations that value farmed pool coins select the oracle-priced reserve side by the same pair field. That the split sums to the deposit, the 1e-12 float bound and custody >= remainder as numbers are NOT decided."
	r.Assumptions = []string{"the rewards hook is one wrapped unit (C15)"}
	begin := p.MustFunc("x/rewards/keeper.Keeper.BeginRewardDistributions")
	init_ := p.MustFunc("x/rewards/keeper.Keeper.InitateGaugesForDuration")

	// R19.1 ------------------------------------------------------------------------
	r.Rule("R19.1", "reward sends only behind sum of shares <= allocation", 1)
	{
		r.FuncsSeen[fname(begin)] = true
		var coinParam *ssa.Parameter
		for _, pr := range begin.Params {
			if strings.HasSuffix(pr.Type().String(), "types.Coin") {
				coinParam = pr
			}
		}
		isAlloc := func(v ssa.Value) bool {
			os := p.DeepOrigins(v)
			if len(os) == 0 {
				return false
			}
			for _, o := range os {
				if !(o.Kind == "param" && o.Val == coinParam && len(o.Path) > 0 && o.Path[len(o.Path)-1] == "Amount") {
					return false
				}
			}
			return true
		}
		isTotal := func(v ssa.Value) bool { return !isAlloc(v) }
		g := p.cmpGuard("total calculated <= allocation", isTotal, isAlloc, RLE)
		for _, c := range calls(begin) {
			if !p.callIs(c, "doDistributionSends") {
				continue
			}
			r.Instance("R19.1")
			if ok, w := p.GuardedSite(g, c); ok {
				r.OK("R19.1", fname(begin)+" doDistributionSends", "only behind total <= allocation", p.instrPos(c))
			} else {
				r.Fail("R19.1", fname(begin)+" doDistributionSends", "rewards can be sent without the sum of the computed shares having been compared with the epoch allocation (total <= allocation)", p.instrPos(c), w)
			}
		}
	}

	// R19.2 / R19.3 ----------------------------------------------------------------
	r.Rule("R19.2", "epoch payout only behind available >= epoch amount and TriggeredCount < len(splits)", 2)
	r.Rule("R19.3", "after a payout the gauge is stored on every path with its remaining balance reduced by what was paid", 2)
	// every rewards-keeper function that pays an epoch (today InitateGaugesForDuration; a branch
	// moved into its own method is found the same way)
	var hosts []*ssa.Function
	for _, f := range p.Funcs {
		if moduleOf(f) != "rewards" || p.isAuxFn(f) || f == begin {
			continue
		}
		for _, c := range calls(f) {
			if p.callIsFn(c, begin) {
				hosts = append(hosts, f)
				break
			}
		}
	}
	sort.Slice(hosts, func(i, j int) bool { return fname(hosts[i]) < fname(hosts[j]) })
	if len(hosts) == 0 {
		hosts = []*ssa.Function{init_}
	}
	for _, init_ := range hosts {
		r.FuncsSeen[fname(init_)] = true
		var payouts []*ssa.Call
		for _, c := range calls(init_) {
			if call, ok := c.(*ssa.Call); ok && p.callIsFn(c, begin) {
				payouts = append(payouts, call)
			}
		}
		sort.Slice(payouts, func(i, j int) bool { return payouts[i].Pos() < payouts[j].Pos() })
		for i, pc := range payouts {
			// which branch: the coin argument derived from a split (non swap-fee) or the whole DepositAmount (swap fee)
			args := callArgs(pc)
			swapFee := true
			for _, o := range p.DeepOrigins(args[2]) {
				if o.Kind == "call" && p.callIs(o.Call, "SplitTotalAmountPerEpoch") {
					swapFee = false
				}
			}
			if !swapFee {
				// available >= amountToDistribute
				r.Instance("R19.2")
				isAvail := func(v ssa.Value) bool {
					return p.fromRecordFieldsLoose(v, map[string]bool{"Gauge": true}, map[string]bool{"DepositAmount": true}) && p.fromRecordFieldsLoose(v, map[string]bool{"Gauge": true}, map[string]bool{"DistributedAmount": true})
				}
				isAmt := func(v ssa.Value) bool {
					for _, o := range p.DeepOrigins(v) {
						if o.Kind == "call" && p.callIs(o.Call, "SplitTotalAmountPerEpoch") {
							return true
						}
					}
					return false
				}
				g1 := p.cmpGuard("available >= epoch amount", isAvail, isAmt, RGE)
				if ok, w := p.GuardedSite(g1, pc); ok {
					r.OK("R19.2", fmt.Sprintf("%s payout #%d cap", fname(init_), i+1), "only behind available >= epoch amount", p.instrPos(pc))
				} else {
					r.Fail("R19.2", fmt.Sprintf("%s payout #%d cap", fname(init_), i+1), "an epoch can be paid without the undistributed remainder of the gauge having been compared with the epoch amount", p.instrPos(pc), w)
				}
				r.Instance("R19.2")
				isLen := func(v ssa.Value) bool {
					if c, ok := v.(*ssa.Call); ok {
						if bi, ok := c.Call.Value.(*ssa.Builtin); ok && bi.Name() == "len" {
							return isAmt(c.Call.Args[0]) || true
						}
					}
					return false
				}
				isCount := func(v ssa.Value) bool {
					return p.fromRecordFieldsLoose(v, map[string]bool{"Gauge": true}, map[string]bool{"TriggeredCount": true})
				}
				g2 := p.cmpGuard("TriggeredCount < len(splits)", isCount, isLen, RLT)
				if ok, w := p.GuardedSite(g2, pc); ok {
					r.OK("R19.2", fmt.Sprintf("%s payout #%d index", fname(init_), i+1), "split index guarded", p.instrPos(pc))
				} else {
					r.Fail("R19.2", fmt.Sprintf("%s payout #%d index", fname(init_), i+1), "the per-epoch split list is indexed by TriggeredCount without TriggeredCount < len(splits)", p.instrPos(pc), w)
				}
			}
			// R19.3: from the success edge of the payout, every path to the next iteration / return passes
			// a store reducing the remaining balance and then SetGauge
			r.Instance("R19.3")
			construct := fmt.Sprintf("%s payout #%d bookkeeping", fname(init_), i+1)
			var okSucc *ssa.BasicBlock
			for _, b := range init_.Blocks {
				ifi, ok := b.Instrs[len(b.Instrs)-1].(*ssa.If)
				if !ok {
					continue
				}
				e, neq, ok := nilCheck(ifi.Cond)
				if !ok {
					continue
				}
				for _, cc := range errorCallsOf(e, 0) {
					if cc == pc {
						if neq {
							okSucc = b.Succs[1]
						} else {
							okSucc = b.Succs[0]
						}
					}
				}
			}
			if okSucc == nil {
				r.Fail("R19.3", construct, "the error of the payout is not checked", p.instrPos(pc), nil)
				continue
			}
			paidFrom := func(v ssa.Value) bool {
				for _, o := range p.DeepOrigins(v) {
					if o.Kind == "call" && o.Call == pc {
						return true
					}
				}
				return false
			}
			reduce := map[*ssa.BasicBlock]bool{}
			setG := map[*ssa.BasicBlock]bool{}
			for _, b := range init_.Blocks {
				for _, in := range b.Instrs {
					if st, ok := in.(*ssa.Store); ok {
						base, path := addrBase(st.Addr)
						if namedTypeName(base.Type()) != "Gauge" || len(path) == 0 {
							continue
						}
						op, _, x, isAS := addSubOf(st.Val)
						if !isAS || !paidFrom(x) {
							continue
						}
						if (path[0] == "DepositAmount" && op == "Sub") || (path[0] == "DistributedAmount" && op == "Add" && !swapFee) {
							reduce[b] = true
						}
					}
					if c, ok := in.(ssa.CallInstruction); ok && p.callIs(c, "SetGauge") {
						setG[b] = true
					}
				}
			}
			back := backEdges(init_)
			// (a) reach a SetGauge without passing a reducing store?
			seenNoReduce, _ := reach(init_, okSucc, back, reduce)
			badReduce := false
			for b := range setG {
				if seenNoReduce[b] && !reduce[b] {
					badReduce = true
				}
			}
			// (b) leave the iteration (back edge source or return) without SetGauge?
			seenNoSet, _ := reach(init_, okSucc, back, setG)
			badSet := false
			for _, b := range init_.Blocks {
				if !seenNoSet[b] {
					continue
				}
				for j := range b.Succs {
					if back[Edge{b, j}] {
						badSet = true
					}
				}
				if _, ok := b.Instrs[len(b.Instrs)-1].(*ssa.Return); ok {
					badSet = true
				}
			}
			switch {
			case badSet:
				r.Fail("R19.3", construct, "after a successful payout the loop can move on without storing the gauge: the paid amount is not recorded and is paid again at the next epoch", p.instrPos(pc), nil)
			case badReduce || len(reduce) == 0:
				r.Fail("R19.3", construct, "after a successful payout the gauge can be stored without its remaining balance having been reduced by what was paid (cumulative payouts can exceed the deposit)", p.instrPos(pc), nil)
			default:
				r.OK("R19.3", construct, "every path after the payout reduces the remaining balance and stores the gauge", p.instrPos(pc))
			}
		}

		// R19.5 the per-epoch split is empty only when the deposit is smaller than the number of epochs
		r.Rule("R19.5", "SplitTotalAmountPerEpoch returns no allocation only when total < epochs", 1)
		{
			fn := p.MustFunc("x/rewards/keeper.SplitTotalAmountPerEpoch")
			r.FuncsSeen[fname(fn)] = true
			var total, epochs *ssa.Parameter
			if len(fn.Params) == 2 {
				total, epochs = fn.Params[0], fn.Params[1]
			}
			g := p.cmpGuard("total < epochs", func(v ssa.Value) bool { return v == total }, func(v ssa.Value) bool { return v == epochs }, RLT)
			// returns of the empty (never appended) slice
			n := 0
			for _, rt := range returns(fn) {
				if len(rt.Results) != 1 {
					continue
				}
				empty := true
				for _, alt := range phiAlternatives(rt.Results[0]) {
					if c, ok := alt.(*ssa.Call); ok {
						if bi, ok := c.Call.Value.(*ssa.Builtin); ok && bi.Name() == "append" {
							empty = false
						}
					}
				}
				if !empty {
					continue
				}
				n++
				r.Instance("R19.5")
				if ok, _, w := p.guardedTargets(g, fn, []*ssa.BasicBlock{rt.Block()}, 0); ok {
					r.OK("R19.5", fname(fn)+" empty split", "only when total < epochs", p.instrPos(rt))
				} else {
					r.Fail("R19.5", fname(fn)+" empty split", "the split can be empty although the deposit is not smaller than the number of epochs: the allocations no longer sum to the deposit and the gauge never pays", p.instrPos(rt), w)
				}
			}
			if n == 0 {
				r.Instance("R19.5")
				r.OK("R19.5", fname(fn)+" empty split", "no empty-split return", p.pos(fn.Pos()))
			}
		}

		// R19.6 external reward programs pay from, and reduce, AvailableRewards
		r.Rule("R19.6", "external reward programs: payouts derive from AvailableRewards (not TotalRewards) and AvailableRewards is reduced", 4)
		{
			rewardsMod := modConst(p, "x/rewards/types")
			for _, name := range []string{"DistributeExtRewardLocker", "DistributeExtRewardVault", "DistributeExtRewardLend", "DistributeExtRewardStableVault"} {
				fn := p.MustFunc("x/rewards/keeper.Keeper." + name)
				r.FuncsSeen[fname(fn)] = true
				r.Instance("R19.6")
				bad := ""
				nPay := 0
				for _, c := range calls(fn) {
					be := bankEffect(c)
					if be == nil || be.Op != "ModToAcc" || moduleName(be.From) != rewardsMod {
						continue
					}
					nPay++
					amts, _ := p.coinParts(be.Coins)
					for _, a := range amts {
						avail, total := false, false
						// follow the amount through every call (oracle valuation helpers included)
						seen := map[ssa.Value]bool{}
						var rec func(v ssa.Value, d int)
						rec = func(v ssa.Value, d int) {
							if v == nil || seen[v] || d > 14 {
								return
							}
							seen[v] = true
							for _, o := range p.DeepOrigins(v) {
								for i, f := range o.Path {
									if f == "AvailableRewards" {
										avail = true
									}
									if f == "TotalRewards" && i+1 < len(o.Path) && o.Path[i+1] == "Amount" {
										total = true
									}
								}
								if o.Kind == "call" {
									for _, arg := range o.Call.Call.Args {
										rec(arg, d+1)
									}
								}
							}
						}
						rec(a, 0)
						if !avail || total {
							bad = fmt.Sprintf("payout at %s derives from AvailableRewards=%v TotalRewards.Amount=%v", p.instrPos(c), avail, total)
						}
					}
				}
				reduced := false
				for _, b := range fn.Blocks {
					for _, in := range b.Instrs {
						if st, ok := in.(*ssa.Store); ok {
							_, path := addrBase(st.Addr)
							if len(path) > 0 && path[0] == "AvailableRewards" {
								if op, _, _, ok := addSubOf(st.Val); ok && op == "Sub" {
									reduced = true
								}
							}
						}
					}
				}
				switch {
				case nPay == 0:
					r.Fail("R19.6", fname(fn), "no payout found", p.pos(fn.Pos()), nil)
				case bad != "":
					r.Fail("R19.6", fname(fn), "the daily payout of an external reward program is not computed from the remaining AvailableRewards (or mixes in TotalRewards): "+bad+"; the program can pay more than it was funded with", p.pos(fn.Pos()), nil)
				case !reduced:
					r.Fail("R19.6", fname(fn), "AvailableRewards is never reduced by what was paid", p.pos(fn.Pos()), nil)
				default:
					r.OK("R19.6", fname(fn), "payouts derive from AvailableRewards, which is reduced by the tracked amount", p.pos(fn.Pos()))
				}
			}
		}

	}
	// R19.8 the split hands out the remainder exactly ------------------------------------------
	// SplitTotalAmountPerEpoch(total, n) gives every epoch total/n and one extra unit to some
	// epochs; the allocations sum to the deposit only if exactly r = total % n of the n loop
	// iterations take the +1 branch. With i running over [0, n) that is decided by the
	// comparison alone (finite orderings): i >= n-r or i < r, nothing else.
	r.Rule("R19.8", "SplitTotalAmountPerEpoch: exactly total%n epochs receive the extra unit", 1)
	{
		split := p.MustFunc("x/rewards/keeper.SplitTotalAmountPerEpoch")
		if len(split.Params) == 2 {
			total, n := ssa.Value(split.Params[0]), ssa.Value(split.Params[1])
			isRem := func(v ssa.Value) bool {
				bo, ok := v.(*ssa.BinOp)
				return ok && bo.Op == token.REM && bo.X == total && bo.Y == n
			}
			isNminusR := func(v ssa.Value) bool {
				bo, ok := v.(*ssa.BinOp)
				return ok && bo.Op == token.SUB && bo.X == n && isRem(bo.Y)
			}
			isBaseShare := func(v ssa.Value) bool {
				bo, ok := v.(*ssa.BinOp)
				return ok && bo.Op == token.QUO && bo.X == total && bo.Y == n
			}
			// the branch computes (total / n) + 1, stored directly or merged into the appended share
			plusOne := func(b *ssa.BasicBlock) bool {
				for _, in := range b.Instrs {
					bo, ok := in.(*ssa.BinOp)
					if !ok || bo.Op != token.ADD {
						continue
					}
					if k, isK := bo.Y.(*ssa.Const); isK && k.Value != nil && k.Value.ExactString() == "1" && isBaseShare(bo.X) {
						return true
					}
					if k, isK := bo.X.(*ssa.Const); isK && k.Value != nil && k.Value.ExactString() == "1" && isBaseShare(bo.Y) {
						return true
					}
				}
				return false
			}
			for _, b := range split.Blocks {
				ifi, ok := b.Instrs[len(b.Instrs)-1].(*ssa.If)
				if !ok {
					continue
				}
				x, y, onT, onF, isCmp := p.CmpRel(ifi.Cond)
				if !isCmp || x == nil || y == nil {
					continue
				}
				// orient as  i ? B
				var bound ssa.Value
				if _, isPhi := x.(*ssa.Phi); isPhi && (isRem(y) || isNminusR(y)) {
					bound = y
				} else if _, isPhi := y.(*ssa.Phi); isPhi && (isRem(x) || isNminusR(x)) {
					bound = x
					onT, onF = onT.mirror(), onF.mirror()
				} else {
					continue
				}
				var rel Rel
				switch {
				case plusOne(b.Succs[0]) && !plusOne(b.Succs[1]):
					rel = onT
				case plusOne(b.Succs[1]) && !plusOne(b.Succs[0]):
					rel = onF
				default:
					continue
				}
				r.Instance("R19.8")
				r.FuncsSeen[fname(split)] = true
				construct := fname(split) + " extra-unit test"
				want := RGE
				if isRem(bound) {
					want = RLT
				}
				if rel == want {
					r.OK("R19.8", construct, "exactly total%n iterations take the +1 branch", p.instrPos(ifi))
				} else {
					r.Fail("R19.8", construct, "the number of epochs that receive the extra unit is not total % n: the per-epoch allocations no longer sum to the deposit (part of it is never allocated, or more is allocated than was deposited)", p.instrPos(ifi), nil)
				}
			}
		}
	}

	// R19.4 sibling agreement ----------------------------------------------------------
	r.Rule("R19.4", "sibling farming valuations pick the oracle-priced reserve side by the same pair field", 1)
	{
		type hit struct {
			fn    string
			field string
			pos   string
		}
		var hits []hit
		decided := map[string]bool{}
		for _, fn := range p.Funcs {
			if moduleOf(fn) != "liquidity" || p.isAuxFn(fn) || !strings.HasSuffix(fnPkgPath(fn), "/keeper") {
				continue
			}
			for _, b := range fn.Blocks {
				ifi, ok := b.Instrs[len(b.Instrs)-1].(*ssa.If)
				if !ok {
					continue
				}
				a := p.Atom(ifi.Cond)
				if !a.IsCmp || (a.Op != "==" && a.Op != "!=") || a.X == nil || a.Y == nil {
					continue
				}
				tx, fx, _, okx := fieldRead(a.X)
				ty, fy, _, oky := fieldRead(a.Y)
				if !okx || !oky {
					continue
				}
				var pairField string
				switch {
				case tx == "Pair" && ty == "Asset" && fy == "Denom":
					pairField = fx
				case ty == "Pair" && tx == "Asset" && fx == "Denom":
					pairField = fy
				default:
					continue
				}
				if pairField != "QuoteCoinDenom" && pairField != "BaseCoinDenom" {
					continue
				}
				// the amount selected on each edge belongs to the side the test establishes
				eq := a.Op == "=="
				if a.Neg {
					eq = !eq
				}
				matchSucc, otherSucc := b.Succs[0], b.Succs[1]
				if !eq {
					matchSucc, otherSucc = otherSucc, matchSucc
				}
				sideOf := func(v ssa.Value) string {
					side := ""
					for _, o := range p.Origins(v) {
						if o.Kind != "call" || len(o.Path) == 0 || o.Path[len(o.Path)-1] != "Amount" || calleeShortName(o.Call.Common()) != "NewCoin" {
							return ""
						}
						args := o.Call.Common().Args
						if len(args) == 0 {
							return ""
						}
						t, f, _, ok := fieldRead(args[0])
						if !ok || t != "Pair" || (side != "" && side != f) {
							return ""
						}
						side = f
					}
					return side
				}
				opposite := map[string]string{"QuoteCoinDenom": "BaseCoinDenom", "BaseCoinDenom": "QuoteCoinDenom"}
				edgeFrom := func(join, pred *ssa.BasicBlock) *ssa.BasicBlock {
					// which successor of the test the phi edge from pred belongs to
					if pred == b {
						if matchSucc == join {
							return matchSucc
						}
						return otherSucc
					}
					if matchSucc == pred || matchSucc.Dominates(pred) {
						return matchSucc
					}
					if otherSucc == pred || otherSucc.Dominates(pred) {
						return otherSucc
					}
					return nil
				}
				decidedHere := false
				for _, jb := range fn.Blocks {
					for _, jin := range jb.Instrs {
						ph, isPhi := jin.(*ssa.Phi)
						if !isPhi || len(ph.Edges) != 2 {
							continue
						}
						if !(b.Dominates(jb)) {
							continue
						}
						s0, s1 := sideOf(ph.Edges[0]), sideOf(ph.Edges[1])
						if s0 == "" || s1 == "" {
							continue
						}
						e0, e1 := edgeFrom(jb, jb.Preds[0]), edgeFrom(jb, jb.Preds[1])
						if e0 == nil || e1 == nil || e0 == e1 {
							continue
						}
						r.Instance("R19.4")
						decidedHere = true
						r.FuncsSeen[fname(fn)] = true
						construct := fmt.Sprintf("%s amount selected by %s test", fname(fn), pairField)
						want := map[*ssa.BasicBlock]string{matchSucc: pairField, otherSucc: opposite[pairField]}
						if s0 == want[e0] && s1 == want[e1] {
							r.OK("R19.4", construct, "the amount of the priced side is valued", p.instrPos(ifi))
						} else {
							r.Fail("R19.4", construct, "where the test establishes that the priced asset is one coin of the pair, the amount of the other coin is valued at its price: farmed value and with it the pro-rata shares are computed from the wrong reserve side", p.instrPos(ifi), nil)
						}
					}
				}
				hits = append(hits, hit{fname(fn), pairField, p.instrPos(ifi)})
				if decidedHere {
					decided[p.instrPos(ifi)] = true
				}
			}
		}
		// a site whose selection was decided on its own needs no agreement with its siblings
		// (a correct test on the other field is the same selection)
		{
			var undec []hit
			for _, h := range hits {
				if !decided[h.pos] {
					undec = append(undec, h)
				}
			}
			if len(undec) == 0 {
				hits = nil
			}
		}
		fields := map[string]bool{}
		for _, h := range hits {
			fields[h.field] = true
			r.FuncsSeen[h.fn] = true
		}
		for _, h := range hits {
			r.Instance("R19.4")
			construct := h.fn + " oracle side selection"
			if len(fields) == 1 {
				r.OK("R19.4", construct, "siblings agree on pair."+h.field, h.pos)
			} else {
				var all []string
				for _, x := range hits {
					all = append(all, x.fn+":"+x.field)
				}
				r.Fail("R19.4", construct, "the sibling computations that value farmed pool coins disagree on which reserve side carries the oracle price ("+strings.Join(all, ", ")+"): one of them values positions from the wrong coin", h.pos, nil)
			}
		}
	}
}

func rulesC10(p *Prog, r *Report) {
	r.Explanation = "Thin claim. Decides structural necessary conditions of 'Dutch auctions settle completely at the posted price': (R10.1) clipping: a v1 bid is accepted only behind bid <= collateral left, a V2 bid is clipped to the remaining debt behind a comparison with the auction's stored DebtToken; (R10.2) the collateral handed out in V2 is computed from the auction's stored price and the oracle/CMST debt price, never from message data, and the reserve top-up for a lossy close is computed from the auction's current remaining debt; (R10.3) closing settlement set: v1 CloseDutchAuction and the V2 closing branch burn the principal, send the penalty to the collector together with the net-fee increase, and reduce the vault totals; (R10.4) a restart refreshes all price-path fields together (initial, current and end price, end time). Totals over bid sequences, price monotonicity and one-unit rounding are NOT decided; price discipline of the bid path is C14's finding."
	r.Assumptions = []string{"v1 auction module hooks are not wired in the app; rules apply to the code as written"}
	auctionMod := modConst(p, "x/auction/types")
	auctionV2Mod := modConst(p, "x/auctionsV2/types")
	collMod := modConst(p, "x/collector/types")

	// R10.1 ------------------------------------------------------------------------
	r.Rule("R10.1", "bids are clipped: v1 bid <= collateral left; V2 bid compared with the stored remaining debt", 2)
	{
		v1 := p.MustFunc("x/auction/keeper.Keeper.PlaceDutchAuctionBid")
		r.FuncsSeen[fname(v1)] = true
		isLeft := func(v ssa.Value) bool {
			return p.fromRecordFieldsLoose(v, map[string]bool{"DutchAuction": true}, map[string]bool{"OutflowTokenCurrentAmount": true})
		}
		isBid := func(v ssa.Value) bool {
			for _, o := range p.DeepOrigins(v) {
				if o.Kind == "param" && strings.Contains(strings.ToLower(o.Val.Name()), "bid") {
					return true
				}
			}
			return false
		}
		g := p.cmpGuard("bid <= collateral left", isBid, isLeft, RLE)
		out := p.bankMay(func(e *BankEffect) bool { return e.Op == "ModToAcc" && moduleName(e.From) == auctionMod })
		r.Instance("R10.1")
		ug := p.NewUnguarded(g, out)
		if bad, chain := ug.Fn(v1); bad {
			r.Fail("R10.1", fname(v1)+" clip", "collateral can be paid out for a bid that was not compared with the collateral left in the auction", p.pos(v1.Pos()), chain)
		} else {
			r.OK("R10.1", fname(v1)+" clip", "payout only behind bid <= collateral left", p.pos(v1.Pos()))
		}
		v2 := p.MustFunc("x/auctionsV2/keeper.Keeper.PlaceDutchAuctionBid")
		r.FuncsSeen[fname(v2)] = true
		isDebtLeft := func(v ssa.Value) bool {
			return p.fromRecordFieldsLoose(v, map[string]bool{"Auction": true}, map[string]bool{"DebtToken": true})
		}
		r.Instance("R10.1")
		// a comparison bid vs DebtToken whose taken edge stores DebtToken.Amount into the bid
		clip := false
		for _, b := range v2.Blocks {
			ifi, ok := b.Instrs[len(b.Instrs)-1].(*ssa.If)
			if !ok {
				continue
			}
			x, y, onT, _, isCmp := p.CmpRel(ifi.Cond)
			if !isCmp || x == nil || y == nil {
				continue
			}
			if !(isBid(x) && isDebtLeft(y)) {
				continue
			}
			if !onT.subsetOf(RGE) {
				continue
			}
			for _, in := range b.Succs[0].Instrs {
				if st, ok := in.(*ssa.Store); ok && isDebtLeft(st.Val) {
					clip = true
				}
			}
		}
		if clip {
			r.OK("R10.1", fname(v2)+" clip", "bid >= remaining debt clips the bid to the remaining debt", p.pos(v2.Pos()))
		} else {
			r.Fail("R10.1", fname(v2)+" clip", "an over-sized bid is not clipped to the auction's remaining debt", p.pos(v2.Pos()), nil)
		}
	}

	// R10.8 ------------------------------------------------------------------------
	// What is left to sell is the auction's own remaining collateral, which every bid reduces; the
	// seizure record (LockedVault) keeps the amount originally seized. A bid-size comparison
	// against the seizure record lets a late bid take more than is left.
	r.Rule("R10.8", "bid-size comparisons use the auction's remaining collateral, never the amount originally seized", 2)
	for _, name := range []string{"x/auction/keeper.Keeper.PlaceDutchAuctionBid", "x/auction/keeper.Keeper.PlaceLendDutchAuctionBid", "x/auctionsV2/keeper.Keeper.PlaceDutchAuctionBid"} {
		fn := p.MustFunc(name)
		n := 0
		for _, b := range fn.Blocks {
			ifi, ok := b.Instrs[len(b.Instrs)-1].(*ssa.If)
			if !ok {
				continue
			}
			conds := []ssa.Value{ifi.Cond}
			if ph, isPhi := ifi.Cond.(*ssa.Phi); isPhi {
				conds = ph.Edges
			}
			for _, cond := range conds {
				x, y, _, _, isCmp := p.CmpRel(cond)
				if !isCmp || x == nil || y == nil {
					continue
				}
				fromAuction := func(v ssa.Value) bool {
					return p.fromRecordFieldsLoose(v, map[string]bool{"Auction": true, "DutchAuction": true}, map[string]bool{"CollateralToken": true, "OutflowTokenCurrentAmount": true})
				}
				fromSeizure := func(v ssa.Value) bool {
					return p.fromRecordFieldsLoose(v, map[string]bool{"LockedVault": true}, map[string]bool{"CollateralToken": true, "AmountIn": true, "CollateralToBeAuctioned": true})
				}
				if !(fromAuction(x) || fromAuction(y) || fromSeizure(x) || fromSeizure(y)) {
					continue
				}
				n++
				r.Instance("R10.8")
				r.FuncsSeen[fname(fn)] = true
				construct := fmt.Sprintf("%s collateral comparison #%d", fname(fn), n)
				if fromSeizure(x) || fromSeizure(y) {
					r.Fail("R10.8", construct, "a bid is sized against the collateral originally seized (LockedVault), not against what the auction still holds: after earlier bids a closing bid can be paid more collateral than is left, out of other auctions' custody", p.instrPos(ifi), nil)
				} else {
					r.OK("R10.8", construct, "compared with the auction's remaining collateral", p.instrPos(ifi))
				}
			}
		}
	}

	// R10.10 time base of the price path ---------------------------------------------------------
	// The posted price falls linearly in the time since the CURRENT round started: every elapsed
	// time in the auction modules is measured from the auction record's own StartTime (which a
	// restart refreshes), not from the liquidation time or any other timestamp.
	r.Rule("R10.10", "elapsed auction time is measured from the auction record's StartTime", 2)
	for _, fn := range p.Funcs {
		m := moduleOf(fn)
		if (m != "auction" && m != "auctionsV2") || p.isAuxFn(fn) {
			continue
		}
		n := 0
		for _, c := range calls(fn) {
			call, ok := c.(*ssa.Call)
			if !ok || !strings.HasSuffix(calleeFullName(&call.Call), "time.Time.Sub") || len(call.Call.Args) != 2 {
				continue
			}
			if !p.isBlockTimeCall(call.Call.Args[0]) {
				continue
			}
			n++
			r.Instance("R10.10")
			r.FuncsSeen[fname(fn)] = true
			construct := fmt.Sprintf("%s elapsed time #%d", fname(fn), n)
			if p.fromRecordFieldsUp(call.Call.Args[1], map[string]bool{"DutchAuction": true, "Auction": true}, map[string]bool{"StartTime": true}) {
				r.OK("R10.10", construct, "measured from the auction's StartTime", p.instrPos(call))
			} else {
				r.Fail("R10.10", construct, "the time the price has been falling is not measured from the auction's own StartTime: after a restart the posted price leaves the band between the round's start and end price", p.instrPos(call), nil)
			}
		}
	}

	// R10.11 the proceeds are split completely ---------------------------------------------------
	// At a v1 close the collected debt leaves auction custody in two parts, the burnt principal
	// and the penalty sent to the collector: the penalty is what was collected less what is
	// burnt, so nothing of the proceeds stays behind.
	r.Rule("R10.11", "v1 close: penalty to the collector = collected debt less the burnt principal", 1)
	for _, fn := range p.Funcs {
		if moduleOf(fn) != "auction" || p.isAuxFn(fn) || len(fn.Blocks) == 0 {
			continue
		}
		var burnt []string
		var toColl []*BankEffect
		for _, c := range calls(fn) {
			be := bankEffect(c)
			if be == nil {
				continue
			}
			if be.Op == "Burn" && moduleName(be.From) == auctionMod {
				burnt = append(burnt, p.amountKeys(be.Coins)...)
			}
			if be.Op == "ModToMod" && moduleName(be.From) == auctionMod && moduleName(be.To) == collMod {
				toColl = append(toColl, be)
			}
		}
		if len(burnt) == 0 || len(toColl) == 0 {
			continue
		}
		for i, be := range toColl {
			amts, _ := p.coinParts(be.Coins)
			if len(amts) != 1 {
				continue
			}
			a := amts[0]
			if av := coinAmountDef(a); av != nil {
				a = av
			}
			r.Instance("R10.11")
			r.FuncsSeen[fname(fn)] = true
			construct := fmt.Sprintf("%s penalty #%d", fname(fn), i+1)
			okAll := true
			alts := phiAlternatives(a)
			if len(alts) == 0 {
				alts = []ssa.Value{a}
			}
			for _, alt := range alts {
				if isZeroValue(alt) {
					continue
				}
				op, recv, sub, isAS := addSubOf(alt)
				if !isAS || op != "Sub" || !p.fromRecordFieldsUp(recv, map[string]bool{"DutchAuction": true}, map[string]bool{"InflowTokenTargetAmount": true, "InflowTokenCurrentAmount": true}) {
					okAll = false
					continue
				}
				if !allAltsIn(altKeys(p, sub), burnt) {
					okAll = false
				}
			}
			if okAll {
				r.OK("R10.11", construct, "collected debt less the burnt principal", p.instrPos(be.Call))
			} else {
				r.Fail("R10.11", construct, fmt.Sprintf("the penalty sent to the collector is not the collected debt less the burnt principal %v: part of the proceeds stays in auction custody unaccounted (or more leaves than was collected)", uniq(burnt)), p.instrPos(be.Call), nil)
			}
		}
	}

	// R10.13 the price stops falling at the end time ------------------------------------------------
	// The posted price is recomputed from the elapsed time; past the auction's EndTime it would
	// fall below the end price. Every price update of a V2 auction is reachable only while the
	// block time is not after the auction's EndTime (expired auctions are restarted or settled).
	r.Rule("R10.13", "V2: UpdateDutchAuction is called only while the block time is not after the auction's EndTime", 1)
	{
		notExpired := &GuardSpec{Name: "!BlockTime.After(EndTime)", Local: func(f *ssa.Function, cond ssa.Value) (bool, bool) {
			a := p.Atom(cond)
			c, ok := a.Val.(*ssa.Call)
			if !ok || !strings.HasSuffix(calleeFullName(&c.Call), "time.Time.After") || len(c.Call.Args) != 2 {
				return false, false
			}
			if !p.isBlockTimeCall(c.Call.Args[0]) || !p.fromRecordFieldsLoose(c.Call.Args[1], map[string]bool{"Auction": true}, map[string]bool{"EndTime": true}) {
				return false, false
			}
			if a.Neg {
				return true, false
			}
			return false, true
		}}
		n := 0
		for _, fn := range p.Funcs {
			if moduleOf(fn) != "auctionsV2" || p.isAuxFn(fn) || len(fn.Blocks) == 0 {
				continue
			}
			for _, c := range calls(fn) {
				if !p.callIs(c, "UpdateDutchAuction") {
					continue
				}
				n++
				r.Instance("R10.13")
				r.FuncsSeen[fname(fn)] = true
				construct := fmt.Sprintf("%s price update #%d", fname(fn), n)
				if ok, w := p.GuardedSite(notExpired, c); ok {
					r.OK("R10.13", construct, "only while the auction has not expired", p.instrPos(c))
				} else {
					r.Fail("R10.13", construct, "the price of an auction can be updated after its EndTime: the posted price falls below the configured end price (and keeps falling)", p.instrPos(c), w)
				}
			}
		}
	}

	// R10.12 V2 settlement pays out what was collected, not what was still open ------------------
	// The settlement callbacks of the liquidation module receive the liquidation record and the
	// auction. Auction.DebtToken is the debt STILL TO BE collected (every bid reduces it): a
	// payout out of auction custody sized by it hands over only the closing bid's share and
	// leaves the earlier bids' payments in custody.
	r.Rule("R10.12", "V2 settlement: no payout out of auction custody is sized by the auction's remaining debt (Auction.DebtToken)", 1)
	for _, fn := range p.Funcs {
		if moduleOf(fn) != "liquidationsV2" || p.isAuxFn(fn) || len(fn.Blocks) == 0 {
			continue
		}
		var auctionParam *ssa.Parameter
		for _, pr := range fn.Params {
			if namedTypeName(derefAll(pr.Type())) == "Auction" {
				auctionParam = pr
			}
		}
		if auctionParam == nil {
			continue
		}
		n := 0
		for _, c := range calls(fn) {
			be := bankEffect(c)
			if be == nil || moduleName(be.From) != auctionV2Mod {
				continue
			}
			n++
			r.Instance("R10.12")
			r.FuncsSeen[fname(fn)] = true
			construct := fmt.Sprintf("%s payout #%d", fname(fn), n)
			bad := false
			for _, o := range p.DeepOrigins(be.Coins) {
				if o.Kind == "param" && o.Val == ssa.Value(auctionParam) && len(o.Path) > 0 && o.Path[0] == "DebtToken" {
					if len(o.Path) == 1 || o.Path[len(o.Path)-1] == "Amount" {
						bad = true
					}
				}
			}
			if bad {
				r.Fail("R10.12", construct, "the amount leaving auction custody is the auction's REMAINING debt (Auction.DebtToken), not what was collected (the liquidation record's target): after partial bids the earlier payments stay in custody unaccounted", p.instrPos(c), nil)
			} else {
				r.OK("R10.12", construct, "not sized by the remaining debt", p.instrPos(c))
			}
		}
	}

	// R10.2 ------------------------------------------------------------------------
	r.Rule("R10.2", "V2 collateral amounts come from the stored auction price and the debt price; reserve top-up from the auction's remaining debt", 3)
	{
		v2 := p.MustFunc("x/auctionsV2/keeper.Keeper.PlaceDutchAuctionBid")
		n := 0
		for _, c := range calls(v2) {
			if !p.callIs(c, "GetAmountOfOtherToken") {
				continue
			}
			n++
			r.Instance("R10.2")
			construct := fmt.Sprintf("%s conversion #%d", fname(v2), n)
			args := callArgs(c)
			ok := true
			// price arguments (index 2 and 5) must not derive from the bid / message
			for _, pi := range []int{2, 5} {
				if pi >= len(args) {
					continue
				}
				stored := p.fromRecordFieldsLoose(args[pi], map[string]bool{"Auction": true}, map[string]bool{"CollateralTokenAuctionPrice": true})
				oracle := false
				for _, o := range p.DeepOrigins(args[pi]) {
					if o.Kind == "call" && p.callIs(o.Call, "GetTwa") {
						oracle = true
					}
					if o.Kind == "const" {
						oracle = true
					}
				}
				if !stored && !oracle {
					ok = false
				}
			}
			if ok {
				r.OK("R10.2", construct, "prices are the auction's stored price / the oracle or CMST price", p.instrPos(c))
			} else {
				r.Fail("R10.2", construct, "a price used to convert between debt and collateral does not come from the auction's stored price or the oracle", p.instrPos(c), nil)
			}
		}
		for _, c := range calls(v2) {
			if !p.callIs(c, "WithdrawAppReserveFundsFn") {
				continue
			}
			r.Instance("R10.2")
			args := callArgs(c)
			amt := args[len(args)-1]
			okBase := false
			if op, recv, _, isAS := addSubOf(amt); isAS && op == "Sub" {
				okBase = p.fromRecordFieldsLoose(recv, map[string]bool{"Auction": true}, map[string]bool{"DebtToken": true}) && !p.fromRecordFieldsLoose(recv, map[string]bool{"LockedVault": true}, map[string]bool{"TargetDebt": true})
			}
			if okBase {
				r.OK("R10.2", fname(v2)+" reserve top-up", "computed from the auction's current remaining debt", p.instrPos(c))
			} else {
				r.Fail("R10.2", fname(v2)+" reserve top-up", "the amount drawn from the app reserve to cover a lossy close is not computed from the auction's current remaining debt (earlier partial bids would be covered twice and stay unaccounted in auction custody)", p.instrPos(c), nil)
			}
		}
	}

	// R10.3 ------------------------------------------------------------------------
	r.Rule("R10.3", "closing settlement set: burn, penalty to collector with net-fee increase, totals reduced", 4)
	{
		type closer struct {
			fn     *ssa.Function
			mod    string
			totals []string
		}
		for _, cl := range []closer{
			{p.MustFunc("x/auction/keeper.Keeper.CloseDutchAuction"), auctionMod, []string{"UpdateProtocolData"}},
			{p.MustFunc("x/auctionsV2/keeper.Keeper.PlaceDutchAuctionBid"), auctionV2Mod, []string{"UpdateTokenMintedAmountLockerMapping"}},
		} {
			fn := cl.fn
			r.FuncsSeen[fname(fn)] = true
			var burn, penalty, netfee, totals bool
			for _, c := range calls(fn) {
				if be := bankEffect(c); be != nil {
					if be.Op == "Burn" && moduleName(be.From) == cl.mod {
						burn = true
					}
					if be.Op == "ModToMod" && moduleName(be.From) == cl.mod && moduleName(be.To) == collMod {
						penalty = true
					}
				}
				if p.callIs(c, "SetNetFeeCollectedData") {
					netfee = true
				}
				if p.callIs(c, cl.totals...) {
					totals = true
				}
			}
			for name, have := range map[string]bool{"burn of the principal": burn, "penalty to the collector": penalty, "net-fee increase": netfee, "vault totals reduced": totals} {
				r.Instance("R10.3")
				construct := fname(fn) + " " + name
				if have {
					r.OK("R10.3", construct, "present in the closing settlement", p.pos(fn.Pos()))
				} else {
					r.Fail("R10.3", construct, "the closing settlement lacks the "+name+": proceeds stay unaccounted in auction custody or the books are not reduced", p.pos(fn.Pos()), nil)
				}
			}
		}
	}

	// R10.4 ------------------------------------------------------------------------
	r.Rule("R10.4", "a restart re-sets every price field the auction start derives from the oracle price (and the end time)", 3)
	{
		oracleDerived := func(v ssa.Value) bool {
			found := false
			seen := map[ssa.Value]bool{}
			var rec func(v ssa.Value, d int)
			rec = func(v ssa.Value, d int) {
				if v == nil || seen[v] || d > 12 || found {
					return
				}
				seen[v] = true
				for _, o := range p.DeepOrigins(v) {
					if o.Kind != "call" {
						continue
					}
					if p.callIs(o.Call, "GetTwa", "CalcAssetPrice", "GetLatestPrice") {
						found = true
						return
					}
					// price helpers (GetCollalteralTokenInitialPrice, getOutflowTokenInitialPrice ...): through their arguments
					for _, a := range o.Call.Call.Args {
						rec(a, d+1)
					}
				}
			}
			rec(v, 0)
			return found
		}
		fieldsStored := func(fn *ssa.Function, typ string, onlyOracle bool) map[string]bool {
			out := map[string]bool{}
			var fns []*ssa.Function
			fns = append(fns, fn)
			for _, b := range fn.Blocks {
				for _, in := range b.Instrs {
					st, ok := in.(*ssa.Store)
					if !ok {
						continue
					}
					base, path := addrBase(st.Addr)
					if namedTypeName(base.Type()) != typ || len(path) == 0 {
						continue
					}
					if onlyOracle && !oracleDerived(st.Val) {
						continue
					}
					out[path[0]] = true
				}
			}
			return out
		}
		type pairT struct {
			start, restart string
			typ            string
		}
		for _, pr := range []pairT{
			{"x/auction/keeper.Keeper.StartDutchAuction", "x/auction/keeper.Keeper.RestartDutchAuctions$1", "DutchAuction"},
			{"x/auction/keeper.Keeper.StartLendDutchAuction", "x/auction/keeper.Keeper.RestartDutchLendAuctions$1", "DutchAuction"},
			{"x/auctionsV2/keeper.Keeper.DutchAuctionActivator", "x/auctionsV2/keeper.Keeper.RestartDutchAuction", "Auction"},
		} {
			st, rs := p.Func(pr.start), p.Func(pr.restart)
			if st == nil || rs == nil {
				analysisError("anchor unresolved: %s / %s", pr.start, pr.restart)
			}
			r.FuncsSeen[pr.start] = true
			r.FuncsSeen[pr.restart] = true
			atStart := fieldsStored(st, pr.typ, true)
			atRestart := fieldsStored(rs, pr.typ, false)
			// the end of the price path is part of it
			for f := range fieldsStored(st, pr.typ, false) {
				if f == "EndTime" || strings.HasSuffix(f, "EndPrice") {
					atStart[f] = true
				}
			}
			var fs []string
			for f := range atStart {
				fs = append(fs, f)
			}
			sort.Strings(fs)
			for _, f := range fs {
				if restartExempt[pr.restart+"."+f] != "" {
					r.Note("R10.4 exception %s.%s: %s", pr.restart, f, restartExempt[pr.restart+"."+f])
					continue
				}
				r.Instance("R10.4")
				construct := fmt.Sprintf("%s re-sets %s.%s", pr.restart, pr.typ, f)
				if atRestart[f] {
					r.OK("R10.4", construct, "set at start from the oracle price and re-set at restart", p.pos(rs.Pos()))
				} else {
					r.Fail("R10.4", construct, "the auction start derives this field from the oracle price but the restart does not refresh it: after a restart the posted price is computed from the previous cycle's value and can leave the [end price, start price] band", p.pos(rs.Pos()), nil)
				}
			}
		}
	}

	// R10.5 ------------------------------------------------------------------------
	r.Rule("R10.5", "v1 bids: the debt taken is clipped to the REMAINING target (target minus collected), not the whole target", 2)
	for _, name := range []string{"x/auction/keeper.Keeper.PlaceDutchAuctionBid", "x/auction/keeper.Keeper.PlaceLendDutchAuctionBid"} {
		fn := p.Func(name)
		if fn == nil {
			analysisError("anchor unresolved: %s", name)
		}
		r.FuncsSeen[name] = true
		r.Instance("R10.5")
		isInflow := func(v ssa.Value) bool {
			os := p.Origins(v)
			if len(os) == 0 {
				return false
			}
			for _, o := range os {
				if !(o.Kind == "call" && p.callIs(o.Call, "GetAmountOfOtherToken")) {
					return false
				}
			}
			return true
		}
		isRemaining := func(v ssa.Value) bool {
			return p.fromRecordFieldsLoose(v, map[string]bool{"DutchAuction": true}, map[string]bool{"InflowTokenTargetAmount": true}) &&
				p.fromRecordFieldsLoose(v, map[string]bool{"DutchAuction": true}, map[string]bool{"InflowTokenCurrentAmount": true})
		}
		found := false
		for _, b := range fn.Blocks {
			ifi, ok := b.Instrs[len(b.Instrs)-1].(*ssa.If)
			if !ok {
				continue
			}
			x, y, onT, _, isCmp := p.CmpRel(ifi.Cond)
			if !isCmp || x == nil || y == nil {
				continue
			}
			if isInflow(x) && isRemaining(y) && onT.subsetOf(RGE) {
				found = true
			}
		}
		if found {
			r.OK("R10.5", name+" clip to remaining target", "inflow > (target - collected) clips the bid", p.pos(fn.Pos()))
		} else {
			r.Fail("R10.5", name+" clip to remaining target", "the debt amount a bid pays is not compared with the remaining target (target minus what was already collected): after a partial bid an over-sized bid is accepted in full and the surplus stays unaccounted in auction custody", p.pos(fn.Pos()), nil)
		}
	}
}

// fields the start derives from the oracle that a restart legitimately leaves alone
var restartExempt = map[string]string{}
