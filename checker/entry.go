package main

import (
	"go/types"
	"sort"
	"strings"

	"golang.org/x/tools/go/ssa"
)

// Entry is a discovered entry point.
type Entry struct {
	Kind   string // msg | hook | hook-unwired | wasm | unit | genesis
	Module string // x/<module>
	Fn     *ssa.Function
	Name   string
}

// module returns "vault" for a function in x/vault/..., "" otherwise.
func moduleOf(f *ssa.Function) string {
	pp := short(fnPkgPath(f))
	if strings.HasPrefix(pp, "x/") {
		parts := strings.Split(pp, "/")
		if len(parts) >= 2 {
			return parts[1]
		}
	}
	if strings.HasPrefix(pp, "app/wasm") {
		return "wasm"
	}
	return ""
}

// MsgHandlers discovers every method of every generated x/*/types.MsgServer interface
// and the comdex functions implementing it.
func (p *Prog) MsgHandlers() []Entry {
	var out []Entry
	var paths []string
	for path := range p.ByPath {
		if isComdex(path) && strings.HasSuffix(path, "/types") && strings.Contains(path, "/x/") {
			paths = append(paths, path)
		}
	}
	sort.Strings(paths)
	for _, path := range paths {
		pk := p.ByPath[path]
		obj := pk.Types.Scope().Lookup("MsgServer")
		if obj == nil {
			continue
		}
		iface, ok := obj.Type().Underlying().(*types.Interface)
		if !ok {
			continue
		}
		for _, impl := range p.implementations(iface) {
			// skip the generated Unimplemented server
			if strings.Contains(impl.String(), "Unimplemented") {
				continue
			}
			ms := p.SSA.MethodSets.MethodSet(impl)
			for i := 0; i < iface.NumMethods(); i++ {
				m := iface.Method(i)
				sel := ms.Lookup(m.Pkg(), m.Name())
				if sel == nil {
					continue
				}
				f := p.unwrap(p.SSA.MethodValue(sel))
				if f == nil || len(f.Blocks) == 0 {
					continue
				}
				out = append(out, Entry{Kind: "msg", Module: moduleOf(f), Fn: f, Name: fname(f)})
			}
		}
	}
	sort.Slice(out, func(i, j int) bool { return out[i].Name < out[j].Name })
	// dedupe
	var ded []Entry
	for i, e := range out {
		if i > 0 && out[i-1].Fn == e.Fn {
			continue
		}
		ded = append(ded, e)
	}
	return ded
}

// Hooks discovers BeginBlocker/EndBlocker functions and whether they are wired into an
// AppModule.BeginBlock/EndBlock method.
func (p *Prog) Hooks() []Entry {
	var out []Entry
	// package-level BeginBlocker/EndBlocker
	wired := map[*ssa.Function]bool{}
	var modMethods []*ssa.Function
	for _, f := range p.Funcs {
		n := fname(f)
		if strings.HasPrefix(n, "x/") && (strings.HasSuffix(n, ".AppModule.BeginBlock") || strings.HasSuffix(n, ".AppModule.EndBlock")) && f.Synthetic == "" {
			modMethods = append(modMethods, f)
		}
	}
	reach := p.Reachable(modMethods, nil)
	for f := range reach {
		wired[f] = true
	}
	for _, f := range p.Funcs {
		if f.Parent() != nil || f.Synthetic != "" || f.Signature.Recv() != nil {
			continue
		}
		if f.Name() != "BeginBlocker" && f.Name() != "EndBlocker" {
			continue
		}
		pp := short(fnPkgPath(f))
		if !strings.HasPrefix(pp, "x/") || strings.Count(pp, "/") != 1 {
			continue
		}
		kind := "hook-unwired"
		if wired[f] {
			kind = "hook"
		}
		out = append(out, Entry{Kind: kind, Module: moduleOf(f), Fn: f, Name: fname(f)})
	}
	// AppModule methods that do work themselves (non-trivial bodies not delegating)
	for _, f := range modMethods {
		delegates := false
		for _, c := range calls(f) {
			for _, t := range p.Callees(c) {
				if t.Name() == "BeginBlocker" || t.Name() == "EndBlocker" {
					delegates = true
				}
			}
		}
		if !delegates && len(calls(f)) > 0 {
			// does it reach any comdex keeper code?
			r := p.Reachable([]*ssa.Function{f}, nil)
			if len(r) > 1 {
				out = append(out, Entry{Kind: "hook", Module: moduleOf(f), Fn: f, Name: fname(f)})
			}
		}
	}
	sort.Slice(out, func(i, j int) bool { return out[i].Name < out[j].Name })
	return out
}

// WorkUnits returns the closures passed to types.ApplyFuncIfNoError with their call sites.
type WorkUnit struct {
	Call    ssa.CallInstruction
	Closure *ssa.Function
	In      *ssa.Function
}

func (p *Prog) ApplyFunc() *ssa.Function {
	return p.MustFunc("types.ApplyFuncIfNoError")
}

func (p *Prog) WorkUnits() []WorkUnit {
	af := p.ApplyFunc()
	var out []WorkUnit
	for _, c := range p.callers[af] {
		args := c.Common().Args
		if len(args) < 2 {
			continue
		}
		fv := funcValue(args[1])
		out = append(out, WorkUnit{Call: c, Closure: fv, In: c.Parent()})
	}
	sort.Slice(out, func(i, j int) bool { return p.instrPos(out[i].Call) < p.instrPos(out[j].Call) })
	return out
}

// Genesis returns InitGenesis/ExportGenesis entry functions per module.
func (p *Prog) Genesis() []Entry {
	var out []Entry
	for _, f := range p.Funcs {
		if f.Parent() != nil || f.Synthetic != "" {
			continue
		}
		if f.Name() != "InitGenesis" && f.Name() != "ExportGenesis" {
			continue
		}
		pp := short(fnPkgPath(f))
		if !strings.HasPrefix(pp, "x/") {
			continue
		}
		out = append(out, Entry{Kind: "genesis", Module: moduleOf(f), Fn: f, Name: fname(f)})
	}
	sort.Slice(out, func(i, j int) bool { return out[i].Name < out[j].Name })
	return out
}

// WasmHandlers returns the functions called from CustomMessenger.DispatchMsg that take
// the contract address (the custom-message handlers).
func (p *Prog) WasmHandlers() []Entry {
	d := p.MustFunc("app/wasm.CustomMessenger.DispatchMsg")
	var out []Entry
	seen := map[*ssa.Function]bool{}
	for _, c := range calls(d) {
		for _, t := range p.Callees(c) {
			if !isComdexFn(t) || seen[t] || short(fnPkgPath(t)) != "app/wasm" {
				continue
			}
			seen[t] = true
			out = append(out, Entry{Kind: "wasm", Module: "wasm", Fn: t, Name: fname(t)})
		}
	}
	sort.Slice(out, func(i, j int) bool { return out[i].Name < out[j].Name })
	return out
}

// AllEntries returns every entry point.
func (p *Prog) AllEntries() []Entry {
	var out []Entry
	out = append(out, p.MsgHandlers()...)
	out = append(out, p.Hooks()...)
	out = append(out, p.WasmHandlers()...)
	out = append(out, p.Genesis()...)
	return out
}

// msgParam returns the request parameter of a message handler (the pointer-to-struct
// parameter whose type name starts with Msg).
func msgParam(fn *ssa.Function) *ssa.Parameter {
	for _, pr := range fn.Params {
		if pt, ok := pr.Type().(*types.Pointer); ok {
			if nt, ok := pt.Elem().(*types.Named); ok && strings.HasPrefix(nt.Obj().Name(), "Msg") {
				return pr
			}
		}
	}
	return nil
}
