package main

import (
	"fmt"
	"go/token"
	"go/types"
	"sort"
	"strings"

	"golang.org/x/tools/go/ssa"
)

// Origin is a leaf of the backward slice of a value.
type Origin struct {
	Kind    string    // call | param | const | global | binop | freevar | alloc | other
	Call    *ssa.Call // Kind == call
	Index   int       // result index of the call / parameter index
	Path    []string  // field path applied on top (outermost last)
	Val     ssa.Value // the leaf value
	Callees []*ssa.Function
}

func (o Origin) pathString() string { return strings.Join(o.Path, ".") }

// String gives a normalised access path, e.g. "param:msg.Amount",
// "call:x/vault/keeper.Keeper.GetVault#0.AmountIn", "const:0".
func (o Origin) String() string {
	suffix := ""
	if len(o.Path) > 0 {
		suffix = "." + o.pathString()
	}
	switch o.Kind {
	case "call":
		return "call:" + callName(o.Call) + "#" + itoa(o.Index) + suffix
	case "param":
		return "param:" + o.Val.Name() + suffix
	case "const":
		if c, ok := o.Val.(*ssa.Const); ok {
			if c.Value == nil {
				return "const:nil"
			}
			return "const:" + c.Value.ExactString()
		}
		return "const"
	case "global":
		return "global:" + short(o.Val.String()) + suffix
	}
	return o.Kind + ":" + o.Val.Name() + suffix
}

func itoa(i int) string {
	if i == 0 {
		return "0"
	}
	neg := i < 0
	if neg {
		i = -i
	}
	s := ""
	for i > 0 {
		s = string(rune('0'+i%10)) + s
		i /= 10
	}
	if neg {
		s = "-" + s
	}
	return s
}

type tracer struct {
	p     *Prog
	seen  map[ssa.Value]bool
	out   []Origin
	steps int
}

func fieldName(t types.Type, i int) string {
	if pt, ok := t.Underlying().(*types.Pointer); ok {
		t = pt.Elem()
	}
	if st, ok := t.Underlying().(*types.Struct); ok && i < st.NumFields() {
		return st.Field(i).Name()
	}
	return "f" + itoa(i)
}

// Origins computes the leaves of the backward slice of v through field selections,
// loads, extracts, phis, conversions and local variables (flow-insensitive over the
// stores into a local).
func (p *Prog) Origins(v ssa.Value) []Origin {
	t := &tracer{p: p, seen: map[ssa.Value]bool{}}
	t.val(v, nil)
	return t.out
}

func (t *tracer) emit(o Origin) { t.out = append(t.out, o) }

func (t *tracer) val(v ssa.Value, path []string) {
	t.steps++
	if t.steps > 4000 {
		return
	}
	if len(path) == 0 {
		if t.seen[v] {
			return
		}
		t.seen[v] = true
	}
	switch x := v.(type) {
	case *ssa.Field:
		t.val(x.X, append([]string{fieldName(x.X.Type(), x.Field)}, path...))
	case *ssa.UnOp:
		switch x.Op {
		case token.MUL:
			t.addr(x.X, path, x)
		case token.NOT, token.SUB, token.XOR, token.ARROW:
			t.val(x.X, path)
		default:
			t.emit(Origin{Kind: "other", Val: v, Path: path})
		}
	case *ssa.Extract:
		if c, ok := x.Tuple.(*ssa.Call); ok {
			t.emit(Origin{Kind: "call", Call: c, Index: x.Index, Path: path, Val: v, Callees: t.p.Callees(c)})
		} else {
			t.emit(Origin{Kind: "other", Val: v, Path: path})
		}
	case *ssa.Call:
		t.emit(Origin{Kind: "call", Call: x, Index: 0, Path: path, Val: v, Callees: t.p.Callees(x)})
	case *ssa.Phi:
		for _, e := range x.Edges {
			t.val(e, path)
		}
	case *ssa.ChangeType:
		t.val(x.X, path)
	case *ssa.Convert:
		t.val(x.X, path)
	case *ssa.MakeInterface:
		t.val(x.X, path)
	case *ssa.ChangeInterface:
		t.val(x.X, path)
	case *ssa.TypeAssert:
		t.val(x.X, path)
	case *ssa.Parameter:
		t.emit(Origin{Kind: "param", Val: v, Path: path, Index: paramIndex(x)})
	case *ssa.FreeVar:
		// resolve to the binding in the enclosing function
		if b := freeVarBinding(x); b != nil {
			t.val(b, path)
		} else {
			t.emit(Origin{Kind: "freevar", Val: v, Path: path})
		}
	case *ssa.Const:
		t.emit(Origin{Kind: "const", Val: v, Path: path})
	case *ssa.Global:
		t.emit(Origin{Kind: "global", Val: v, Path: path})
	case *ssa.Alloc:
		// address of a local used as a value (pointer): what was stored in it
		t.addr(x, path, nil)
	case *ssa.FieldAddr:
		// pointer to a field used as value
		t.addr(x, path, nil)
	case *ssa.BinOp:
		t.emit(Origin{Kind: "binop", Val: v, Path: path})
	case *ssa.Slice:
		t.val(x.X, path)
	case *ssa.Index:
		t.val(x.X, append([]string{"[]"}, path...))
	case *ssa.Lookup:
		t.val(x.X, append([]string{"[]"}, path...))
	case *ssa.IndexAddr:
		t.addr(x, path, nil)
	case *ssa.MakeClosure, *ssa.Function:
		t.emit(Origin{Kind: "func", Val: v, Path: path})
	default:
		t.emit(Origin{Kind: "other", Val: v, Path: path})
	}
}

func paramIndex(pv *ssa.Parameter) int {
	for i, q := range pv.Parent().Params {
		if q == pv {
			return i
		}
	}
	return -1
}

// freeVarBinding finds the value bound to a free variable at the MakeClosure creating
// the function.
func freeVarBinding(fv *ssa.FreeVar) ssa.Value {
	fn := fv.Parent()
	idx := -1
	for i, f := range fn.FreeVars {
		if f == fv {
			idx = i
		}
	}
	if idx < 0 || fn.Parent() == nil {
		return nil
	}
	for _, b := range fn.Parent().Blocks {
		for _, in := range b.Instrs {
			if mc, ok := in.(*ssa.MakeClosure); ok && mc.Fn == fn && idx < len(mc.Bindings) {
				return mc.Bindings[idx]
			}
		}
	}
	return nil
}

// addr traces what a load from address a (then selecting path) may yield.
func (t *tracer) addr(a ssa.Value, path []string, load *ssa.UnOp) {
	t.steps++
	if t.steps > 4000 {
		return
	}
	switch x := a.(type) {
	case *ssa.FieldAddr:
		fname := fieldName(x.X.Type(), x.Field)
		t.addr(x.X, append([]string{fname}, path...), load)
	case *ssa.IndexAddr:
		t.addr(x.X, append([]string{"[]"}, path...), load)
	case *ssa.Alloc:
		// flow-sensitive when the load instruction is known: only the stores that reach it
		if load != nil && load.Parent() == x.Parent() {
			if defs, entry := reachingStores(x, path, load); len(defs) > 0 || entry {
				for _, d := range defs {
					if d.whole {
						t.val(d.st.Val, path)
					} else {
						t.val(d.st.Val, path[d.depth:])
					}
				}
				if entry && len(defs) == 0 {
					t.emit(Origin{Kind: "alloc", Val: x, Path: path})
				}
				return
			}
		}
		// every store into this local (whole value or a sub-field matching path)
		found := false
		for _, ref := range *x.Referrers() {
			switch r := ref.(type) {
			case *ssa.Store:
				if r.Addr == x {
					found = true
					t.val(r.Val, path)
				}
			case *ssa.FieldAddr:
				if len(path) > 0 && fieldName(x.Type(), r.Field) == path[0] {
					t.storesInto(r, path[1:], &found)
				}
			case *ssa.IndexAddr:
				if len(path) > 0 && path[0] == "[]" {
					t.storesInto(r, path[1:], &found)
				} else if len(path) == 0 {
					// a slice/array literal used as a whole (variadic arguments): its elements
					t.storesInto(r, nil, &found)
				}
			}
		}
		if !found {
			// zero value or written through an escaping pointer (e.g. Unmarshal(&x))
			t.emit(Origin{Kind: "alloc", Val: x, Path: path})
		}
	case *ssa.Global:
		t.emit(Origin{Kind: "global", Val: x, Path: path})
	case *ssa.FreeVar:
		if b := freeVarBinding(x); b != nil {
			t.addr(b, path, load)
		} else {
			t.emit(Origin{Kind: "freevar", Val: x, Path: path})
		}
	case *ssa.Phi:
		for _, e := range x.Edges {
			t.addr(e, path, load)
		}
	default:
		// pointer value (parameter, call result ...): deref is transparent
		t.val(a, path)
	}
}

func (t *tracer) storesInto(addr ssa.Value, path []string, found *bool) {
	refs := addr.Referrers()
	if refs == nil {
		return
	}
	for _, ref := range *refs {
		switch r := ref.(type) {
		case *ssa.Store:
			if r.Addr == addr {
				*found = true
				t.val(r.Val, path)
			}
		case *ssa.FieldAddr:
			if len(path) > 0 && fieldName(addr.Type(), r.Field) == path[0] {
				t.storesInto(r, path[1:], found)
			}
		}
	}
}

// arithmetic-like callees through which DeepOrigins continues into receiver and args.
func isTransparentCallee(name string) bool {
	switch {
	case strings.HasPrefix(name, "cosmossdk.io/math."),
		strings.HasPrefix(name, "github.com/cosmos/cosmos-sdk/types.NewCoin"),
		strings.HasPrefix(name, "github.com/cosmos/cosmos-sdk/types.NewDec"),
		strings.HasPrefix(name, "github.com/cosmos/cosmos-sdk/types.NewInt"),
		strings.HasPrefix(name, "github.com/cosmos/cosmos-sdk/types.NewUint"),
		strings.HasPrefix(name, "github.com/cosmos/cosmos-sdk/types.Zero"),
		strings.HasPrefix(name, "github.com/cosmos/cosmos-sdk/types.One"),
		strings.HasPrefix(name, "github.com/cosmos/cosmos-sdk/types.MustNewDec"),
		strings.HasPrefix(name, "github.com/cosmos/cosmos-sdk/types.Coin."),
		strings.HasPrefix(name, "github.com/cosmos/cosmos-sdk/types.Coins."),
		strings.HasPrefix(name, "github.com/cosmos/cosmos-sdk/types.DecCoin"),
		strings.HasPrefix(name, "github.com/cosmos/cosmos-sdk/types.Min"),
		strings.HasPrefix(name, "github.com/cosmos/cosmos-sdk/types.Max"),
		strings.HasPrefix(name, "math/big."),
		strings.HasSuffix(name, "types.AccAddressFromBech32"),
		strings.HasSuffix(name, "types.MustAccAddressFromBech32"),
		strings.HasSuffix(name, "types.AccAddress.String"):
		return true
	}
	return false
}

// DeepOrigins continues through arithmetic (sdk math, coin constructors, Go binops) and
// returns the non-arithmetic leaves.
func (p *Prog) DeepOrigins(v ssa.Value) []Origin {
	var out []Origin
	seen := map[ssa.Value]bool{}
	var rec func(v ssa.Value, depth int)
	rec = func(v ssa.Value, depth int) {
		if depth > 12 || seen[v] {
			return
		}
		seen[v] = true
		for _, o := range p.Origins(v) {
			switch o.Kind {
			case "call":
				name := calleeFullName(&o.Call.Call)
				if isTransparentCallee(name) {
					for _, a := range o.Call.Call.Args {
						rec(a, depth+1)
					}
					continue
				}
				// a comdex helper that only computes (no store, bank or interface access): its result
				// comes from its arguments; follow the returned value with the parameters bound
				if h := o.Call.Call.StaticCallee(); p.throughPureOn && h != nil && depth < 8 && pureFn(h, 0, map[*ssa.Function]bool{}) {
					if sub, ok := p.throughPure(h, o, depth); ok {
						out = append(out, sub...)
						continue
					}
				}
				out = append(out, o)
			case "binop":
				b := o.Val.(*ssa.BinOp)
				rec(b.X, depth+1)
				rec(b.Y, depth+1)
			default:
				out = append(out, o)
			}
		}
	}
	rec(v, 0)
	return out
}

// UpOrigins replaces parameter origins of non-entry functions by the origins of what their
// call sites pass (two levels), keeping every other origin. Used where a rule asks "does this
// value come from the message": inside an extracted helper the message amount is a parameter.
func (p *Prog) UpOrigins(os []Origin, depth int) []Origin {
	var out []Origin
	for _, o := range os {
		pr, isP := o.Val.(*ssa.Parameter)
		if o.Kind != "param" || !isP || depth > 2 || pr.Parent() == nil || p.handlerSet()[pr.Parent()] {
			out = append(out, o)
			continue
		}
		sites := p.CallSitesOf(pr.Parent())
		idx := paramIndex(pr)
		if len(sites) == 0 || idx < 0 {
			out = append(out, o)
			continue
		}
		resolved := true
		var sub []Origin
		for _, cs := range sites {
			args := cs.Common().Args
			if idx >= len(args) {
				resolved = false
				break
			}
			for _, o2 := range p.DeepOrigins(args[idx]) {
				o3 := o2
				o3.Path = append(append([]string{}, o2.Path...), o.Path...)
				sub = append(sub, o3)
			}
		}
		if !resolved {
			out = append(out, o)
			continue
		}
		out = append(out, p.UpOrigins(sub, depth+1)...)
	}
	return out
}

// UpStrings renders an origin; a parameter of a function that is called from comdex code
// is replaced by what its call sites pass (two levels), so that a value handed to an
// extracted helper is recognised as the caller's value. Names, not objects, are compared:
// three handlers passing msg.AppId to one helper agree.
func (p *Prog) UpStrings(o Origin, depth int) []string {
	pr, isP := o.Val.(*ssa.Parameter)
	if o.Kind != "param" || !isP || depth > 2 || pr.Parent() == nil {
		return []string{o.String()}
	}
	f := pr.Parent()
	sites := p.CallSitesOf(f)
	if len(sites) == 0 || p.handlerSet()[f] {
		return []string{o.String()}
	}
	idx := paramIndex(pr)
	set := map[string]bool{}
	for _, cs := range sites {
		args := cs.Common().Args
		if idx < 0 || idx >= len(args) {
			return []string{o.String()}
		}
		for _, o2 := range p.Origins(args[idx]) {
			o3 := o2
			o3.Path = append(append([]string{}, o2.Path...), o.Path...)
			for _, s := range p.UpStrings(o3, depth+1) {
				set[s] = true
			}
		}
	}
	var out []string
	for s := range set {
		out = append(out, s)
	}
	sort.Strings(out)
	if len(out) == 0 {
		return []string{o.String()}
	}
	return out
}

// throughPure: origins of result o.Index of the pure helper h called at o.Call, expressed in
// the caller: parameter origins are replaced by the deep origins of the arguments.
func (p *Prog) throughPure(h *ssa.Function, o Origin, depth int) ([]Origin, bool) {
	if p.pureDepth > 2 {
		return nil, false
	}
	p.pureDepth++
	defer func() { p.pureDepth-- }()
	var out []Origin
	args := o.Call.Call.Args
	for _, rt := range returns(h) {
		if o.Index >= len(rt.Results) {
			return nil, false
		}
		for _, ro := range p.DeepOrigins(rt.Results[o.Index]) {
			if pr, isP := ro.Val.(*ssa.Parameter); isP && ro.Kind == "param" && pr.Parent() == h {
				idx := paramIndex(pr)
				if idx < 0 || idx >= len(args) {
					return nil, false
				}
				for _, ao := range p.DeepOrigins(args[idx]) {
					a2 := ao
					a2.Path = append(append(append([]string{}, ao.Path...), ro.Path...), o.Path...)
					out = append(out, a2)
				}
				continue
			}
			r2 := ro
			r2.Path = append(append([]string{}, ro.Path...), o.Path...)
			out = append(out, r2)
		}
	}
	if len(out) == 0 {
		return nil, false
	}
	return out, true
}

// OriginStrings gives the sorted distinct access paths of the deep origins of v.
func (p *Prog) OriginStrings(v ssa.Value) []string {
	set := map[string]bool{}
	for _, o := range p.DeepOrigins(v) {
		set[o.String()] = true
	}
	var out []string
	for s := range set {
		out = append(out, s)
	}
	sort.Strings(out)
	return out
}

// BoolAtom describes what a boolean condition tests, after peeling negations.
type BoolAtom struct {
	Neg     bool     // the condition is the negation of the atom
	Origins []Origin // where the tested boolean comes from (shallow)
	Val     ssa.Value
	// comparison form
	IsCmp bool
	Op    string // method name (LT, GTE, Equal, IsZero, ...) or Go operator
	X, Y  ssa.Value
	Call  *ssa.Call
}

// Atom peels negations from cond and classifies it.
func (p *Prog) Atom(cond ssa.Value) BoolAtom {
	a := BoolAtom{}
	v := cond
	for {
		if u, ok := v.(*ssa.UnOp); ok && u.Op == token.NOT {
			a.Neg = !a.Neg
			v = u.X
			continue
		}
		break
	}
	a.Val = v
	switch x := v.(type) {
	case *ssa.BinOp:
		switch x.Op {
		case token.LSS, token.LEQ, token.GTR, token.GEQ, token.EQL, token.NEQ:
			a.IsCmp = true
			a.Op = x.Op.String()
			a.X, a.Y = x.X, x.Y
			return a
		}
	case *ssa.Call:
		if sc := x.Call.StaticCallee(); sc != nil {
			sc = p.unwrap(sc)
			n := sc.Name()
			switch n {
			case "LT", "LTE", "GT", "GTE", "Equal", "IsZero", "IsPositive", "IsNegative", "IsNil",
				"IsLT", "IsLTE", "IsGTE", "IsGT", "IsEqual", "IsAllGT", "IsAllGTE", "IsAllLT", "IsAllLTE", "IsAnyGT", "IsAnyGTE", "IsAllPositive", "IsAnyNegative", "Equals", "After", "Before", "Empty":
				a.IsCmp = true
				a.Op = n
				a.Call = x
				args := x.Call.Args
				if len(args) > 0 {
					a.X = args[0]
				}
				if len(args) > 1 {
					a.Y = args[1]
				}
				return a
			}
		}
	}
	a.Origins = p.Origins(v)
	return a
}

// fromCallField reports whether every origin of the (peeled) boolean is field `field`
// of result #idx of a call to a function whose short name has the given suffix; phis
// may mix in boolean constants equal to constOK (e.g. `status := false; if found {...}`).
func (p *Prog) boolFromCallField(a BoolAtom, calleeSuffix string, field string, constOther bool) bool {
	if a.IsCmp || len(a.Origins) == 0 {
		return false
	}
	hit := false
	for _, o := range a.Origins {
		switch o.Kind {
		case "const":
			c := o.Val.(*ssa.Const)
			if c.Value == nil || c.Value.String() != boolStr(constOther) {
				return false
			}
		case "call":
			if !calleeHasSuffix(p, o, calleeSuffix) {
				return false
			}
			if field == "" {
				if len(o.Path) != 0 {
					return false
				}
			} else if len(o.Path) == 0 || o.Path[len(o.Path)-1] != field {
				return false
			}
			hit = true
		default:
			return false
		}
	}
	return hit
}

func boolStr(b bool) string {
	if b {
		return "true"
	}
	return "false"
}

func calleeHasSuffix(p *Prog, o Origin, suffix string) bool {
	if o.Call == nil {
		return false
	}
	cc := o.Call.Common()
	if cc.IsInvoke() {
		return cc.Method.Name() == suffix || strings.HasSuffix(callName(o.Call), suffix)
	}
	if sc := cc.StaticCallee(); sc != nil {
		return sc.Name() == suffix || strings.HasSuffix(short(fullName(sc)), suffix)
	}
	return false
}

// namedTypeName returns the short name (pkgdir.Type) of the named struct type behind t.
func namedTypeName(t types.Type) string {
	if pt, ok := t.Underlying().(*types.Pointer); ok {
		t = pt.Elem()
	}
	if pt, ok := t.(*types.Pointer); ok {
		t = pt.Elem()
	}
	if nt, ok := t.(*types.Named); ok {
		return nt.Obj().Name()
	}
	return ""
}

// fieldRead: v is a read of a struct field; returns the struct type name, the field name
// and the value/address the struct comes from.
func fieldRead(v ssa.Value) (typ, field string, base ssa.Value, ok bool) {
	switch x := v.(type) {
	case *ssa.Field:
		return namedTypeName(x.X.Type()), fieldName(x.X.Type(), x.Field), x.X, true
	case *ssa.UnOp:
		if x.Op == token.MUL {
			if fa, isFA := x.X.(*ssa.FieldAddr); isFA {
				return namedTypeName(fa.X.Type()), fieldName(fa.X.Type(), fa.Field), fa.X, true
			}
		}
	}
	return "", "", nil, false
}

// boolIsField reports whether the (negation-peeled) boolean v is field `field` of a value
// of named type `typ`, possibly merged through phis with the boolean constant constOther.
func boolIsField(v ssa.Value, typ, field string, constOther bool) bool {
	return boolIsFieldOf(v, typ, field, constOther, nil)
}

// boolIsFieldOf: boolIsField, the record the field is read from accepted by baseOK.
func boolIsFieldOf(v ssa.Value, typ, field string, constOther bool, baseOK func(ssa.Value) bool) bool {
	seen := map[ssa.Value]bool{}
	hit := false
	var rec func(v ssa.Value) bool
	rec = func(v ssa.Value) bool {
		if seen[v] {
			return true
		}
		seen[v] = true
		if t, f, base, ok := fieldRead(v); ok {
			if t == typ && f == field && (baseOK == nil || baseOK(base)) {
				hit = true
				return true
			}
			return false
		}
		switch x := v.(type) {
		case *ssa.Phi:
			for _, e := range x.Edges {
				if !rec(e) {
					return false
				}
			}
			return true
		case *ssa.Const:
			b, ok := constBool(x)
			return ok && b == constOther
		case *ssa.UnOp:
			if x.Op == token.MUL {
				// load of a local bool variable: all stores
				if a, ok := x.X.(*ssa.Alloc); ok {
					n := 0
					for _, ref := range *a.Referrers() {
						if st, ok := ref.(*ssa.Store); ok && st.Addr == a {
							n++
							if !rec(st.Val) {
								return false
							}
						}
					}
					return n > 0
				}
			}
		}
		return false
	}
	return rec(v) && hit
}

type reachDef struct {
	st    *ssa.Store
	whole bool // store of the whole variable; otherwise a store into the field path prefix
	depth int  // number of leading path elements consumed by the field store
}

// storeTarget classifies a store relative to alloc a and access path: whole-variable
// store, store into exactly the field(s) selected by a prefix of path, or unrelated.
func storeTarget(st *ssa.Store, a *ssa.Alloc, path []string) (whole bool, depth int, ok bool) {
	if st.Addr == a {
		return true, 0, true
	}
	// FieldAddr chain rooted at a
	var chain []string
	cur := st.Addr
	for {
		fa, isFA := cur.(*ssa.FieldAddr)
		if !isFA {
			break
		}
		chain = append([]string{fieldName(fa.X.Type(), fa.Field)}, chain...)
		cur = fa.X
	}
	if cur != a || len(chain) == 0 {
		return false, 0, false
	}
	if len(chain) > len(path) {
		return false, 0, false
	}
	for i := range chain {
		if chain[i] != path[i] {
			return false, 0, false
		}
	}
	return false, len(chain), true
}

// reachingStores finds, flow-sensitively, the stores into local a (whole, or into the
// field selected by path) that can reach the load. entry reports that the function entry
// (zero value) also reaches it. Array/slice element paths are not handled (nil, false).
func reachingStores(a *ssa.Alloc, path []string, load ssa.Instruction) (defs []reachDef, entry bool) {
	if len(path) > 0 && path[0] == "[]" {
		return nil, false
	}
	if _, isArr := a.Type().Underlying().(*types.Pointer).Elem().Underlying().(*types.Array); isArr {
		return nil, false
	}
	// if the address escapes to a call (Unmarshal(&x)) we cannot see all writes
	for _, ref := range *a.Referrers() {
		if c, ok := ref.(ssa.CallInstruction); ok {
			for _, arg := range c.Common().Args {
				if arg == a {
					return nil, false
				}
			}
		}
	}
	seen := map[*ssa.BasicBlock]bool{}
	var walk func(b *ssa.BasicBlock, from int)
	walk = func(b *ssa.BasicBlock, from int) {
		for i := from; i >= 0; i-- {
			if st, ok := b.Instrs[i].(*ssa.Store); ok {
				if whole, depth, ok := storeTarget(st, a, path); ok {
					defs = append(defs, reachDef{st: st, whole: whole, depth: depth})
					return
				}
			}
		}
		if len(b.Preds) == 0 {
			entry = true
			return
		}
		for _, pb := range b.Preds {
			if seen[pb] {
				continue
			}
			seen[pb] = true
			walk(pb, len(pb.Instrs)-1)
		}
	}
	blk := load.Block()
	idx := -1
	for i, in := range blk.Instrs {
		if in == load {
			idx = i
		}
	}
	walk(blk, idx-1)
	return defs, entry
}

// reachingDefIDs: like reachingStores, but stores into a sub-field of the loaded path are
// recorded as partial definitions and the walk continues past them. Two loads of the same
// path of the same local with the same result read the same value. ok=false when the
// local's address escapes or the path is not supported.
func reachingDefIDs(a *ssa.Alloc, path []string, load ssa.Instruction) (ids []string, partial bool, ok bool) {
	if len(path) > 0 && path[0] == "[]" {
		return nil, false, false
	}
	if _, isArr := a.Type().Underlying().(*types.Pointer).Elem().Underlying().(*types.Array); isArr {
		return nil, false, false
	}
	for _, ref := range *a.Referrers() {
		if c, isC := ref.(ssa.CallInstruction); isC {
			for _, arg := range c.Common().Args {
				if arg == a {
					return nil, false, false
				}
			}
		}
	}
	chainOf := func(st *ssa.Store) ([]string, bool) {
		var chain []string
		cur := st.Addr
		for {
			fa, isFA := cur.(*ssa.FieldAddr)
			if !isFA {
				break
			}
			chain = append([]string{fieldName(fa.X.Type(), fa.Field)}, chain...)
			cur = fa.X
		}
		return chain, cur == a
	}
	set := map[string]bool{}
	seen := map[*ssa.BasicBlock]bool{}
	var walk func(b *ssa.BasicBlock, from int)
	walk = func(b *ssa.BasicBlock, from int) {
		for i := from; i >= 0; i-- {
			st, isSt := b.Instrs[i].(*ssa.Store)
			if !isSt {
				continue
			}
			chain, rooted := chainOf(st)
			if !rooted {
				continue
			}
			n := len(chain)
			if n > len(path) {
				n = len(path)
			}
			same := true
			for j := 0; j < n; j++ {
				if chain[j] != path[j] {
					same = false
				}
			}
			if !same {
				continue
			}
			set[fmt.Sprintf("s%d.%d", b.Index, i)] = true
			if len(chain) > len(path) {
				partial = true
				continue // overwrites only part of the loaded value
			}
			return
		}
		if len(b.Preds) == 0 {
			set["entry"] = true
			return
		}
		for _, pb := range b.Preds {
			if seen[pb] {
				continue
			}
			seen[pb] = true
			walk(pb, len(pb.Instrs)-1)
		}
	}
	blk := load.Block()
	idx := -1
	for i, in := range blk.Instrs {
		if in == load {
			idx = i
		}
	}
	walk(blk, idx-1)
	for k := range set {
		ids = append(ids, k)
	}
	sort.Strings(ids)
	return ids, partial, true
}

// calleeFullName names the function a call invokes: the static callee, or, for calls
// through package-level function variables (sdk.NewInt = math.NewInt style aliases), the
// variable's qualified name.
func calleeFullName(cc *ssa.CallCommon) string {
	if sc := cc.StaticCallee(); sc != nil {
		return fullName(sc)
	}
	if u, ok := cc.Value.(*ssa.UnOp); ok && u.Op == token.MUL {
		if g, ok := u.X.(*ssa.Global); ok && g.Pkg != nil {
			return g.Pkg.Pkg.Path() + "." + g.Name()
		}
	}
	return ""
}

func calleeShortName(cc *ssa.CallCommon) string {
	n := calleeFullName(cc)
	if i := strings.LastIndex(n, "."); i >= 0 {
		return n[i+1:]
	}
	return n
}
