package main

import (
	"encoding/json"
	"fmt"
	"os"
	"os/exec"
	"path/filepath"
	"sort"
	"strconv"
	"strings"
)

// Seeded changes as in-memory mutants (thorough tier). Every confirmed change under
// /verif/seeded whose meta.json names this property is applied to the current /repo sources
// in memory (its patch.diff, through packages.Config.Overlay, nothing written to /repo):
// breaking changes (C*) must produce a new finding, behaviour-preserving refactorings
// (refactor-*) must produce none. A patch that no longer applies is "not-applicable".

type filePatch struct {
	path  string
	hunks []hunk
}

type hunk struct {
	oldN, newN int // line counts from the hunk header
	oldStart   int
	oldLines   []string // context + removed, in order
	newLines   []string // context + added, in order
}

func parseUnifiedDiff(text string) []filePatch {
	var out []filePatch
	var cur *filePatch
	var h *hunk
	flush := func() {
		if h != nil && cur != nil {
			cur.hunks = append(cur.hunks, *h)
			h = nil
		}
	}
	for _, ln := range strings.Split(text, "\n") {
		switch {
		case strings.HasPrefix(ln, "diff --git "):
			flush()
			if cur != nil {
				out = append(out, *cur)
			}
			cur = &filePatch{}
		case strings.HasPrefix(ln, "+++ "):
			if cur != nil {
				p := strings.TrimPrefix(ln, "+++ ")
				p = strings.TrimPrefix(p, "b/")
				cur.path = strings.TrimSpace(p)
			}
		case strings.HasPrefix(ln, "--- "), strings.HasPrefix(ln, "index "), strings.HasPrefix(ln, "new file"), strings.HasPrefix(ln, "deleted file"), strings.HasPrefix(ln, "similarity "), strings.HasPrefix(ln, "rename "):
		case strings.HasPrefix(ln, "@@"):
			flush()
			h = &hunk{}
			// @@ -a,b +c,d @@
			parts := strings.Fields(ln)
			cnt := func(s string) (int, int) {
				s = strings.TrimLeft(s, "-+")
				a, b := s, "1"
				if i := strings.Index(s, ","); i >= 0 {
					a, b = s[:i], s[i+1:]
				}
				x, _ := strconv.Atoi(a)
				y, _ := strconv.Atoi(b)
				return x, y
			}
			if len(parts) >= 3 {
				h.oldStart, h.oldN = cnt(parts[1])
				_, h.newN = cnt(parts[2])
			}
		default:
			if h == nil || (len(h.oldLines) >= h.oldN && len(h.newLines) >= h.newN) {
				continue
			}
			switch {
			case strings.HasPrefix(ln, "+"):
				h.newLines = append(h.newLines, ln[1:])
			case strings.HasPrefix(ln, "-"):
				h.oldLines = append(h.oldLines, ln[1:])
			case strings.HasPrefix(ln, " "):
				h.oldLines = append(h.oldLines, ln[1:])
				h.newLines = append(h.newLines, ln[1:])
			case ln == "":
				// blank context line whose leading space was trimmed, or the end of the patch
				h.oldLines = append(h.oldLines, "")
				h.newLines = append(h.newLines, "")
			case strings.HasPrefix(ln, "\\"):
			}
		}
	}
	flush()
	if cur != nil {
		out = append(out, *cur)
	}
	return out
}

// applyHunks applies the hunks to src; ok=false when some hunk's old text is not found.
func applyHunks(src string, hs []hunk) (string, bool) {
	lines := strings.Split(src, "\n")
	offset := 0
	for _, h := range hs {
		old := h.oldLines
		nw := h.newLines
		// trailing blank produced by the end of the patch text
		for len(old) > 0 && len(nw) > 0 && old[len(old)-1] == "" && nw[len(nw)-1] == "" && h.oldStart-1+offset+len(old) > len(lines) {
			old, nw = old[:len(old)-1], nw[:len(nw)-1]
		}
		match := func(at int) bool {
			if at < 0 || at+len(old) > len(lines) {
				return false
			}
			for i := range old {
				if lines[at+i] != old[i] {
					return false
				}
			}
			return true
		}
		at := h.oldStart - 1 + offset
		if !match(at) {
			found := -1
			for d := 1; d < 400 && found < 0; d++ {
				if match(at - d) {
					found = at - d
				} else if match(at + d) {
					found = at + d
				}
			}
			if found < 0 {
				return "", false
			}
			at = found
		}
		var res []string
		res = append(res, lines[:at]...)
		res = append(res, nw...)
		res = append(res, lines[at+len(old):]...)
		offset = (at - (h.oldStart - 1)) + (len(nw) - len(old))
		lines = res
	}
	return strings.Join(lines, "\n"), true
}

// seedOverlay builds the overlay of one seeded change; nil when it does not apply.
func seedOverlay(repo, dir string) map[string][]byte {
	b, err := os.ReadFile(filepath.Join(dir, "patch.diff"))
	if err != nil {
		return nil
	}
	ov := map[string][]byte{}
	for _, fp := range parseUnifiedDiff(string(b)) {
		if fp.path == "" || fp.path == "/dev/null" || len(fp.hunks) == 0 {
			continue
		}
		path := filepath.Join(repo, fp.path)
		src, err := os.ReadFile(path)
		if err != nil {
			return nil
		}
		res, ok := applyHunks(string(src), fp.hunks)
		if !ok {
			return nil
		}
		ov[path] = []byte(res)
	}
	if len(ov) == 0 {
		return nil
	}
	return ov
}

// runSeedChild: evaluate the property's rules on the overlay of one seeded change.
func runSeedChild(repo, prop, dir string) {
	ov := seedOverlay(repo, dir)
	if ov == nil {
		fmt.Println(`{"status":"not-applicable"}`)
		return
	}
	p, err := Load(repo, ov)
	if err != nil {
		out, _ := json.Marshal(map[string]interface{}{"status": "load-error", "error": err.Error()})
		fmt.Println(string(out))
		return
	}
	r := NewReport(prop, "thorough", 0)
	func() {
		defer func() {
			if e := recover(); e != nil {
				r.Fail("PANIC", "rule evaluation", fmt.Sprint(e), "", nil)
			}
		}()
		ruleFuncs[prop](p, r)
	}()
	// a rule falling under its floor is an alarm too
	for _, e := range r.floorErrors() {
		r.Findings = append(r.Findings, Finding{Property: prop, Rule: "FLOOR", Construct: e, Message: e})
	}
	out, _ := json.Marshal(map[string]interface{}{"status": "ok", "findings": r.Findings})
	fmt.Println(string(out))
}

// runSeedControls runs the stored seeded changes of this property as overlay mutants.
func runSeedControls(repo, prop string, r *Report) {
	self, err := os.Executable()
	if err != nil {
		return
	}
	base := map[string]bool{}
	for _, f := range r.Findings {
		base[f.Rule+"|"+f.Construct] = true
	}
	entries, _ := os.ReadDir(filepath.Join(verifDir, "seeded"))
	var dirs []string
	for _, e := range entries {
		if e.IsDir() {
			dirs = append(dirs, e.Name())
		}
	}
	sort.Strings(dirs)
	for _, d := range dirs {
		dir := filepath.Join(verifDir, "seeded", d)
		mb, err := os.ReadFile(filepath.Join(dir, "meta.json"))
		if err != nil {
			continue
		}
		var meta struct {
			Property string `json:"property"`
		}
		if json.Unmarshal(mb, &meta) != nil || meta.Property != prop {
			continue
		}
		refactor := strings.HasPrefix(d, "refactor-")
		res := ControlResult{Name: "seeded/" + d, Expected: "a new finding (confirmed breaking change)"}
		if refactor {
			res.Expected = "silent (behaviour-preserving refactoring)"
		}
		cmd := exec.Command(self, "-repo", repo, "-verif", verifDir, "-prop", prop, "-seed", dir)
		cmd.Env = os.Environ()
		outb, err := cmd.Output()
		var doc struct {
			Status   string    `json:"status"`
			Error    string    `json:"error"`
			Findings []Finding `json:"findings"`
		}
		lines := strings.Split(strings.TrimSpace(string(outb)), "\n")
		if err != nil || len(lines) == 0 || json.Unmarshal([]byte(lines[len(lines)-1]), &doc) != nil {
			res.Status = "MISSED"
			res.Detail = fmt.Sprintf("seed process failed: %v", err)
			r.Controls = append(r.Controls, res)
			continue
		}
		switch doc.Status {
		case "not-applicable":
			res.Status = "not-applicable"
			res.Detail = "the patch no longer applies to the current sources"
		case "load-error":
			res.Status = "not-applicable"
			res.Detail = "patched sources do not type-check: " + doc.Error
		default:
			var fresh []Finding
			for _, f := range doc.Findings {
				if !base[f.Rule+"|"+f.Construct] {
					fresh = append(fresh, f)
				}
			}
			switch {
			case refactor && len(fresh) == 0:
				res.Status = "silent-ok"
			case refactor:
				res.Status = "MISSED"
				res.Detail = "false alarm on a behaviour-preserving refactoring: " + fresh[0].Rule + " " + fresh[0].Construct
			case len(fresh) > 0:
				res.Status = "detected"
				res.Detail = fresh[0].Rule + " " + fresh[0].Construct
			default:
				res.Status = "MISSED"
				res.Detail = "no new finding"
			}
		}
		r.Controls = append(r.Controls, res)
	}
}
