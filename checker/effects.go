package main

import (
	"go/constant"
	"go/types"
	"strings"

	"golang.org/x/tools/go/ssa"
)

// BankEffect is a recognised call to a bank keeper primitive.
type BankEffect struct {
	Call  ssa.CallInstruction
	Op    string    // Send | AccToMod | ModToAcc | ModToMod | Mint | Burn | InputOutput | Delegate...
	From  ssa.Value // account or module-name value (nil when not applicable)
	To    ssa.Value
	Coins ssa.Value
}

var bankOps = map[string]string{
	"SendCoins":                          "Send",
	"SendCoinsFromAccountToModule":       "AccToMod",
	"SendCoinsFromModuleToAccount":       "ModToAcc",
	"SendCoinsFromModuleToModule":        "ModToMod",
	"MintCoins":                          "Mint",
	"BurnCoins":                          "Burn",
	"InputOutputCoins":                   "InputOutput",
	"DelegateCoinsFromAccountToModule":   "AccToMod",
	"UndelegateCoinsFromModuleToAccount": "ModToAcc",
}

// isBankReceiver: the receiver type is a bank keeper (SDK keeper or an expected.BankKeeper interface).
func isBankReceiver(t types.Type) bool {
	s := t.String()
	s = strings.TrimPrefix(s, "*")
	if strings.HasSuffix(s, ".BankKeeper") || strings.HasSuffix(s, "expected.BankKeeper") {
		return true
	}
	if strings.HasPrefix(s, "github.com/cosmos/cosmos-sdk/x/bank/keeper.") {
		return true
	}
	return false
}

// bankEffect recognises a bank primitive at a call instruction.
func bankEffect(c ssa.CallInstruction) *BankEffect {
	cc := c.Common()
	var name string
	var args []ssa.Value
	if cc.IsInvoke() {
		if !isBankReceiver(cc.Value.Type()) {
			return nil
		}
		name = cc.Method.Name()
		args = cc.Args
	} else if sc := cc.StaticCallee(); sc != nil && sc.Signature.Recv() != nil {
		if !isBankReceiver(sc.Signature.Recv().Type()) {
			return nil
		}
		name = sc.Name()
		if len(cc.Args) > 0 {
			args = cc.Args[1:]
		}
	} else {
		return nil
	}
	op, ok := bankOps[name]
	if !ok {
		return nil
	}
	e := &BankEffect{Call: c, Op: op}
	// args[0] is ctx
	switch op {
	case "Send", "AccToMod", "ModToAcc", "ModToMod":
		if len(args) >= 4 {
			e.From, e.To, e.Coins = args[1], args[2], args[3]
		}
	case "Mint", "Burn":
		if len(args) >= 3 {
			e.From, e.Coins = args[1], args[2]
			e.To = args[1]
		}
	case "InputOutput":
		if len(args) >= 3 {
			e.From, e.To = args[1], args[2]
		}
	}
	return e
}

// constString returns the constant string value of v, if any.
func constString(v ssa.Value) (string, bool) {
	if c, ok := v.(*ssa.Const); ok && c.Value != nil && c.Value.Kind() == constant.String {
		return constant.StringVal(c.Value), true
	}
	return "", false
}

// constBool returns the constant bool value of v.
func constBool(v ssa.Value) (bool, bool) {
	if c, ok := v.(*ssa.Const); ok && c.Value != nil && c.Value.Kind() == constant.Bool {
		return constant.BoolVal(c.Value), true
	}
	return false, false
}

// moduleName gives the constant module name of a bank endpoint ("" when it is an account
// value or not constant).
func moduleName(v ssa.Value) string {
	if v == nil {
		return ""
	}
	if s, ok := constString(v); ok {
		return s
	}
	return ""
}

// bankMay builds a may-summary for bank effects matching pred.
func (p *Prog) bankMay(pred func(e *BankEffect) bool) *MaySummary {
	return p.NewMay(func(c ssa.CallInstruction, callee *ssa.Function) bool {
		if e := bankEffect(c); e != nil {
			return pred(e)
		}
		return false
	})
}

// calleeNamed: any resolved callee (or the invoked method) has the given name.
func (p *Prog) callIs(c ssa.CallInstruction, names ...string) bool {
	cc := c.Common()
	n := ""
	if cc.IsInvoke() {
		n = cc.Method.Name()
	} else if sc := cc.StaticCallee(); sc != nil {
		n = sc.Name()
	} else {
		return false
	}
	for _, x := range names {
		if n == x {
			return true
		}
	}
	return false
}

// callIsFn: the call resolves (statically or through an interface) to the given comdex function.
func (p *Prog) callIsFn(c ssa.CallInstruction, fns ...*ssa.Function) bool {
	for _, t := range p.Callees(c) {
		for _, f := range fns {
			if t == f {
				return true
			}
		}
	}
	return false
}

// callArgs returns the arguments of a call without the receiver.
func callArgs(c ssa.CallInstruction) []ssa.Value {
	cc := c.Common()
	if cc.IsInvoke() {
		return cc.Args
	}
	if sc := cc.StaticCallee(); sc != nil && sc.Signature.Recv() != nil && len(cc.Args) > 0 {
		return cc.Args[1:]
	}
	return cc.Args
}

// kvOp recognises a primitive sdk.KVStore operation; returns op name and the store value.
func kvOp(c ssa.CallInstruction) (op string, key ssa.Value, ok bool) {
	cc := c.Common()
	if !cc.IsInvoke() {
		// prefix.Store static methods
		if sc := cc.StaticCallee(); sc != nil && sc.Signature.Recv() != nil {
			rt := sc.Signature.Recv().Type().String()
			if strings.HasSuffix(rt, "store/prefix.Store") {
				switch sc.Name() {
				case "Set", "Delete", "Get", "Has", "Iterator", "ReverseIterator":
					if len(cc.Args) > 1 {
						return sc.Name(), cc.Args[1], true
					}
				}
			}
		}
		return "", nil, false
	}
	ts := cc.Value.Type().String()
	if !(strings.HasSuffix(ts, "store/types.KVStore") || strings.HasSuffix(ts, "types.KVStore") || strings.HasSuffix(ts, ".KVStore")) {
		return "", nil, false
	}
	switch cc.Method.Name() {
	case "Set", "Delete", "Get", "Has", "Iterator", "ReverseIterator":
		if len(cc.Args) > 0 {
			return cc.Method.Name(), cc.Args[0], true
		}
	}
	return "", nil, false
}
