package main

import (
	"fmt"
	"strings"

	"golang.org/x/tools/go/ssa"
)

func init() { register("C03", rulesC03) }

// coinRole: "in" when the coin's denom comes from GetAsset(pair.AssetIn), "out" for AssetOut.
func (p *Prog) coinRole(coins ssa.Value) string {
	role := ""
	for _, o := range p.DeepOrigins(coins) {
		if o.Kind != "call" || len(o.Path) == 0 || o.Path[len(o.Path)-1] != "Denom" {
			continue
		}
		if !p.callIs(o.Call, "GetAsset") {
			continue
		}
		args := callArgs(o.Call)
		if len(args) < 2 {
			continue
		}
		r := ""
		for _, o2 := range p.Origins(args[1]) {
			if len(o2.Path) > 0 {
				switch o2.Path[len(o2.Path)-1] {
				case "AssetIn":
					r = "in"
				case "AssetOut":
					r = "out"
				}
			}
		}
		if r == "" {
			continue
		}
		if role != "" && role != r {
			return "mixed"
		}
		role = r
	}
	return role
}

func rulesC03(p *Prog, r *Report) {
	r.Explanation = "Decides that the three vault risk limits are enforced with the right strictness on every path that needs them: (R03.0) VerifyCollaterlizationRatio can only succeed, outside emergency shutdown, through an edge implying ratio >= required minimum, the ratio coming from CalculateCollateralizationRatio; (R03.1/2) every handler that mints CDP debt or releases collateral from a vault that stays open cannot reach a success exit through that effect without a successful VerifyCollaterlizationRatio called with the product's MinCr; (R03.3) every minting handler passes a comparison implying new total <= DebtCeiling; (R03.4) vault creation and every principal burn in a vault that stays open pass a comparison implying principal >= DebtFloor; (R03.5) price errors inside the ratio computation are propagated. Values are touched only through comparisons, so the finite set of orderings implied by each branch is decided exactly; whether truncation lets a boundary input slip is NOT decided."
	r.Assumptions = []string{"outside emergency shutdown: edges on which the ESM status flag is true are deleted", "SDK runTx reverts failed messages", "sdk math comparison methods have their documented meaning"}
	vaultMod := modConst(p, "x/vault/types")
	verify := p.MustFunc("x/vault/keeper.Keeper.VerifyCollaterlizationRatio")
	calc := p.MustFunc("x/vault/keeper.Keeper.CalculateCollateralizationRatio")

	// R03.0 ------------------------------------------------------------------------
	r.Rule("R03.0", "VerifyCollaterlizationRatio succeeds only through ratio >= minimum (outside shutdown)", 1)
	{
		var minParam, esmParam *ssa.Parameter
		for _, pr := range verify.Params {
			if strings.Contains(strings.ToLower(pr.Name()), "mincr") {
				minParam = pr
			}
			if strings.Contains(strings.ToLower(pr.Name()), "esm") {
				esmParam = pr
			}
		}
		if minParam == nil || esmParam == nil {
			analysisError("anchor unresolved: parameters of VerifyCollaterlizationRatio")
		}
		isRatio := func(v ssa.Value) bool {
			os := p.Origins(v)
			if len(os) == 0 {
				return false
			}
			for _, o := range os {
				if !(o.Kind == "call" && o.Index == 0 && p.callIsFn(o.Call, calc)) {
					return false
				}
			}
			return true
		}
		isMin := func(v ssa.Value) bool { return v == minParam }
		g := p.cmpGuard("ratio >= minCrRequired", isRatio, isMin, RGE)
		g.Assume = func(fn *ssa.Function, cond ssa.Value) (bool, bool) {
			a := p.Atom(cond)
			if !a.IsCmp && a.Val == esmParam {
				if a.Neg {
					return false, true
				}
				return true, false
			}
			return false, false
		}
		r.Instance("R03.0")
		r.FuncsSeen[fname(verify)] = true
		ok, blk, w := p.Guarded(g, verify, nil)
		if ok {
			r.OK("R03.0", fname(verify), "every success exit implies ratio >= minCrRequired when not in shutdown", p.pos(verify.Pos()))
		} else {
			pos := p.pos(verify.Pos())
			if blk != nil {
				pos = p.instrPos(blk.Instrs[len(blk.Instrs)-1])
			}
			r.Fail("R03.0", fname(verify), "the ratio check can succeed although the collateralization ratio is not known to be >= the required minimum (comparison missing, loosened, or inverted)", pos, w)
		}
	}

	// guard at handler level: a successful VerifyCollaterlizationRatio with MinCr
	crGuard := &GuardSpec{
		Name: "VerifyCollaterlizationRatio(..., extendedPairVault.MinCr, status) succeeded",
		CallPass: func(callee *ssa.Function, call ssa.CallInstruction) bool {
			if callee != verify {
				return false
			}
			args := callArgs(call)
			if len(args) < 6 {
				return false
			}
			if !p.originHasField(args[4], "ExtendedPairVault", "MinCr") {
				return false
			}
			// status flag must not be the constant true
			if b, isC := constBool(args[5]); isC && b {
				return false
			}
			return true
		},
	}
	mintMay := p.bankMay(func(e *BankEffect) bool { return e.Op == "Mint" && moduleName(e.From) == vaultMod })
	collOut := p.bankMay(func(e *BankEffect) bool {
		return e.Op == "ModToAcc" && moduleName(e.From) == vaultMod && p.coinRole(e.Coins) == "in"
	})
	burnMay := p.bankMay(func(e *BankEffect) bool { return e.Op == "Burn" && moduleName(e.From) == vaultMod })
	deleteVault := p.MustFunc("x/vault/keeper.Keeper.DeleteVault")
	delMay := p.NewMay(func(c ssa.CallInstruction, callee *ssa.Function) bool { return callee == deleteVault })
	setID := p.MustFunc("x/vault/keeper.Keeper.SetIDForVault")
	createMay := p.NewMay(func(c ssa.CallInstruction, callee *ssa.Function) bool { return callee == setID })

	stable := map[string]string{
		"x/vault/keeper.msgServer.MsgCreateStableMint":   "stable-mint vaults swap 1:1 against a stable asset; no collateral ratio applies",
		"x/vault/keeper.msgServer.MsgDepositStableMint":  "stable-mint vaults swap 1:1 against a stable asset; no collateral ratio applies",
		"x/vault/keeper.msgServer.MsgWithdrawStableMint": "shared stable-mint vault: the floor is applied to each mint (anchors of the property), not to the pooled remainder",
	}

	var handlers []Entry
	for _, e := range p.MsgHandlers() {
		if e.Module == "vault" {
			handlers = append(handlers, e)
		}
	}

	// R03.1 / R03.2 ------------------------------------------------------------------
	r.Rule("R03.1", "every handler minting CDP debt needs a successful ratio check with the product's MinCr", 3)
	r.Rule("R03.2", "every handler releasing collateral from a vault that stays open needs the ratio check", 1)
	ugMint := p.NewUnguarded(crGuard, mintMay)
	ugColl := p.NewUnguarded(crGuard, collOut)
	for _, e := range handlers {
		if mintMay.Fn(e.Fn) {
			if why, ok := stable[e.Name]; ok {
				r.Note("R03.1 exception %s: %s", e.Name, why)
			} else {
				r.Instance("R03.1")
				r.FuncsSeen[e.Name] = true
				if bad, chain := ugMint.Fn(e.Fn); bad {
					r.Fail("R03.1", e.Name, "debt can be minted and the handler succeed without a successful collateral-ratio check against the product's MinCr", p.pos(e.Fn.Pos()), chain)
				} else {
					r.OK("R03.1", e.Name, "no path entry -> mint -> success avoids VerifyCollaterlizationRatio(MinCr)", p.pos(e.Fn.Pos()))
				}
			}
		}
		if collOut.Fn(e.Fn) && !delMay.Fn(e.Fn) {
			if why, ok := stable[e.Name]; ok {
				r.Note("R03.2 exception %s: %s", e.Name, why)
			} else {
				r.Instance("R03.2")
				r.FuncsSeen[e.Name] = true
				if bad, chain := ugColl.Fn(e.Fn); bad {
					r.Fail("R03.2", e.Name, "collateral can leave a vault that stays open without a successful collateral-ratio check", p.pos(e.Fn.Pos()), chain)
				} else {
					r.OK("R03.2", e.Name, "no path entry -> collateral release -> success avoids the ratio check", p.pos(e.Fn.Pos()))
				}
			}
		}
	}

	// R03.3 ceiling ------------------------------------------------------------------
	r.Rule("R03.3", "every minting handler passes a comparison implying new total <= DebtCeiling", 5)
	isCeil := func(v ssa.Value) bool { return p.originHasField(v, "ExtendedPairVault", "DebtCeiling") }
	isNewTotal := func(v ssa.Value) bool {
		// the compared total must include the amount about to be minted: it derives from the
		// request (or a conversion of it) and from the product's minted statistics
		hasMsg, hasStat := false, false
		for _, o := range p.UpOrigins(p.DeepOrigins(v), 0) {
			if o.Kind == "param" {
				if pr, ok := o.Val.(*ssa.Parameter); ok && msgParam(pr.Parent()) == pr {
					hasMsg = true
				}
			}
			if o.Kind == "call" && (p.callIs(o.Call, "CheckAppExtendedPairVaultMapping", "GetAppExtendedPairVaultMappingData") || p.callIs(o.Call, "GetAmountOfOtherToken")) {
				if p.callIs(o.Call, "GetAmountOfOtherToken") {
					hasMsg = true
				} else {
					hasStat = true
				}
			}
		}
		return hasMsg && hasStat
	}
	ceilG := p.cmpGuard("minted total <= DebtCeiling", isNewTotal, isCeil, RLE)
	ugCeil := p.NewUnguarded(ceilG, mintMay)
	for _, e := range handlers {
		if !mintMay.Fn(e.Fn) {
			continue
		}
		r.Instance("R03.3")
		r.FuncsSeen[e.Name] = true
		if bad, chain := ugCeil.Fn(e.Fn); bad {
			r.Fail("R03.3", e.Name, "debt can be minted without the product total (including this mint) having been compared with the DebtCeiling in the direction total <= ceiling", p.pos(e.Fn.Pos()), chain)
		} else {
			r.OK("R03.3", e.Name, "no path entry -> mint -> success avoids total <= DebtCeiling", p.pos(e.Fn.Pos()))
		}
	}

	// R03.4 floor --------------------------------------------------------------------
	r.Rule("R03.4", "vault creation and principal burns in a vault that stays open pass principal >= DebtFloor", 4)
	isFloor := func(v ssa.Value) bool { return p.originHasField(v, "ExtendedPairVault", "DebtFloor") }
	isCurTotal := func(v ssa.Value) bool {
		for _, o := range p.UpOrigins(p.DeepOrigins(v), 0) {
			if o.Kind == "call" && p.callIs(o.Call, "CheckAppExtendedPairVaultMapping", "GetAppExtendedPairVaultMappingData") {
				return true
			}
		}
		return false
	}
	// the principal of ONE vault: not the floor itself and not the product-wide minted statistic
	// (a floor test on the aggregate lets every vault after the first fall below the floor)
	notFloor := func(v ssa.Value) bool { return !isFloor(v) && !isCurTotal(v) }
	floorG := p.cmpGuard("principal >= DebtFloor", notFloor, isFloor, RGE)
	for _, e := range handlers {
		if createMay.Fn(e.Fn) || (mintMay.Fn(e.Fn) && stable[e.Name] != "" && !strings.Contains(e.Name, "Withdraw")) {
			r.Instance("R03.4")
			r.FuncsSeen[e.Name] = true
			ug := p.NewUnguarded(floorG, mintMay)
			if bad, chain := ug.Fn(e.Fn); bad {
				r.Fail("R03.4", e.Name+" (create/mint)", "a vault can be created or stable-minted without its principal having been compared with the DebtFloor in the direction principal >= floor", p.pos(e.Fn.Pos()), chain)
			} else {
				r.OK("R03.4", e.Name+" (create/mint)", "no path entry -> mint -> success avoids principal >= DebtFloor", p.pos(e.Fn.Pos()))
			}
		}
		if burnMay.Fn(e.Fn) && !delMay.Fn(e.Fn) {
			if why, ok := stable[e.Name]; ok {
				r.Note("R03.4 exception %s: %s", e.Name, why)
				continue
			}
			r.Instance("R03.4")
			r.FuncsSeen[e.Name] = true
			ug := p.NewUnguarded(floorG, burnMay)
			if bad, chain := ug.Fn(e.Fn); bad {
				r.Fail("R03.4", e.Name+" (repay)", "principal can be burnt in a vault that stays open without the remaining principal having been compared with the DebtFloor (>=)", p.pos(e.Fn.Pos()), chain)
			} else {
				r.OK("R03.4", e.Name+" (repay)", "no path entry -> burn -> success avoids principal >= DebtFloor", p.pos(e.Fn.Pos()))
			}
		}
	}

	// R03.6 the ratio check sees the vault as it is now ------------------------------
	r.Rule("R03.6", "arguments of the ratio check derive from the current vault record, not from a copy read before the vault was rewritten", 5)
	{
		getVault := p.MustFunc("x/vault/keeper.Keeper.GetVault")
		setVault := p.MustFunc("x/vault/keeper.Keeper.SetVault")
		writerMay := p.NewMay(func(c ssa.CallInstruction, callee *ssa.Function) bool { return callee == setVault })
		for _, e := range handlers {
			uses := func(c ssa.CallInstruction) bool { return p.callIsFn(c, verify) }
			p.staleReads(r, "R03.6", e.Fn, "Vault", []*ssa.Function{getVault}, writerMay, setVault, uses)
		}
	}

	// R03.7 the total the ceiling is compared with is kept exact ------------------------
	r.Rule("R03.7", "the product's minted total (the quantity compared with the DebtCeiling) moves by exactly the minted / burnt amounts", 10)
	{
		spec := vaultTwinSpec(p, "R03.7")
		var cls []EffectClass
		for _, c := range spec.Classes {
			if strings.HasPrefix(c.Name, "debt-") {
				cls = append(cls, c)
			}
		}
		spec.Classes = cls
		var ups []Updater
		for _, u := range spec.Updaters {
			if u.Aggr || u.Plus == "debt-minted" {
				ups = append(ups, u)
			}
		}
		spec.Updaters = ups
		spec.Fields = nil
		spec.NeedStore = map[string]bool{}
		for _, e := range handlers {
			p.analyseTwins(r, spec, e.Fn)
		}
	}

	// R03.5 price errors propagate inside the ratio computation ---------------------
	r.Rule("R03.5", "price errors inside CalculateCollateralizationRatio / VerifyCollaterlizationRatio are propagated", 3)
	for _, f := range []*ssa.Function{calc, verify} {
		n := 0
		for _, c := range calls(f) {
			call, ok := c.(*ssa.Call)
			if !ok || !(p.callIs(c, "CalcAssetPrice", "GetLatestPrice") || p.callIsFn(c, calc)) {
				continue
			}
			n++
			r.Instance("R03.5")
			construct := fmt.Sprintf("%s price step #%d (%s)", fname(f), n, callName(c))
			if sw, pos := errorSwallowed(p, f, call); sw {
				r.Fail("R03.5", construct, "a missing/inactive price does not make the ratio computation fail", pos, nil)
			} else {
				r.OK("R03.5", construct, "price error propagates", p.instrPos(c))
			}
		}
		// snapshot prices under shutdown: found must be tested
	}
}
