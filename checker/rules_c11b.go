package main

import (
	"fmt"
	"strings"

	"golang.org/x/tools/go/ssa"
)

// pathKeyAt: canonical key of the value held by alloc.path just before instruction `at`
// ("" when several definitions reach it).
func (p *Prog) pathKeyAt(a *ssa.Alloc, path []string, at ssa.Instruction) string {
	defs, entry := reachingStores(a, path, at)
	if entry || len(defs) != 1 {
		return ""
	}
	dd := defs[0]
	rest := path
	if !dd.whole {
		rest = path[dd.depth:]
	}
	k := p.ExprKey(dd.st.Val)
	if len(rest) > 0 {
		k += "." + strings.Join(rest, ".")
	}
	return k
}

// limitSweepTwins (R11.10): where limit bids are consumed outside the depositor's own
// messages (the automatic fill), the recorded total of limit bids drops by what the
// depositor's record drops by on the same path: the same expression when the record is
// reduced, the record's previous amount when it is zeroed or deleted (or an amount tested
// equal to it).
func limitSweepTwins(p *Prog, r *Report, skip map[*ssa.Function]bool) {
	r.Rule("R11.10", "automatic fill: the limit-bid total drops by what the depositor's record drops by", 2)
	// helpers that take an amount off the total for their caller: BidValue = BidValue.Sub(param)
	reducers := map[*ssa.Function]int{}
	for _, fn := range p.Funcs {
		if moduleOf(fn) != "auctionsV2" || skip[fn] || p.isAuxFn(fn) || len(fn.Blocks) == 0 {
			continue
		}
		hasRec := false
		idx := -1
		for _, b := range fn.Blocks {
			for _, in := range b.Instrs {
				if a, ok := in.(*ssa.Alloc); ok && namedTypeName(derefAll(a.Type())) == "LimitOrderBid" {
					hasRec = true
				}
				st, ok := in.(*ssa.Store)
				if !ok {
					continue
				}
				base, path := addrBase(st.Addr)
				if namedTypeName(derefAll(base.Type())) != "LimitBidProtocolData" || len(path) == 0 || path[0] != "BidValue" {
					continue
				}
				if op, _, x, ok := addSubOf(st.Val); ok && op == "Sub" {
					if pr, isP := x.(*ssa.Parameter); isP {
						idx = paramIndex(pr)
					}
				}
			}
		}
		if !hasRec && idx >= 0 {
			reducers[fn] = idx
		}
	}
	for _, fn := range p.Funcs {
		if moduleOf(fn) != "auctionsV2" || skip[fn] || p.isAuxFn(fn) || len(fn.Blocks) == 0 {
			continue
		}
		type recStore struct {
			st    *ssa.Store
			alloc *ssa.Alloc
			path  []string
		}
		type totalSite struct {
			at ssa.Instruction
			x  ssa.Value
		}
		var recs []recStore
		var totals []totalSite
		var recAllocs []*ssa.Alloc
		for _, b := range fn.Blocks {
			for _, in := range b.Instrs {
				if a, ok := in.(*ssa.Alloc); ok && namedTypeName(derefAll(a.Type())) == "LimitOrderBid" {
					recAllocs = append(recAllocs, a)
				}
				if c, ok := in.(ssa.CallInstruction); ok {
					if sc := c.Common().StaticCallee(); sc != nil {
						if idx, isRed := reducers[sc]; isRed {
							if args := c.Common().Args; idx < len(args) {
								totals = append(totals, totalSite{in, args[idx]})
							}
						}
					}
				}
				st, ok := in.(*ssa.Store)
				if !ok {
					continue
				}
				base, path := addrBase(st.Addr)
				tn := namedTypeName(derefAll(base.Type()))
				if tn == "LimitOrderBid" && len(path) > 0 && path[0] == "DebtToken" {
					if a, isA := base.(*ssa.Alloc); isA {
						recs = append(recs, recStore{st, a, path})
					}
				}
				if tn == "LimitBidProtocolData" && len(path) > 0 && path[0] == "BidValue" {
					if op, _, x, ok := addSubOf(st.Val); ok && op == "Sub" {
						totals = append(totals, totalSite{st, x})
					}
				}
			}
		}
		if len(totals) == 0 || len(recAllocs) == 0 {
			continue
		}
		amtPath := []string{"DebtToken", "Amount"}
		for i, tsite := range totals {
			ts, x := tsite.at, tsite.x
			r.Instance("R11.10")
			r.FuncsSeen[fname(fn)] = true
			construct := fmt.Sprintf("%s total reduction #%d", fname(fn), i+1)
			xAlts := altKeys(p, x)
			// nearest record store dominating the total store
			var near *recStore
			for j := range recs {
				rs := &recs[j]
				if rs.st.Block() != ts.Block() && !rs.st.Block().Dominates(ts.Block()) {
					continue
				}
				if rs.st.Block() == ts.Block() && !before(rs.st, ts) {
					continue
				}
				if near == nil || near.st.Block().Dominates(rs.st.Block()) && (near.st.Block() != rs.st.Block() || before(near.st, rs.st)) {
					near = rs
				}
			}
			good := false
			why := ""
			if near != nil {
				if rop, _, y, isAS := addSubOf(near.st.Val); isAS && rop == "Sub" {
					good = allAltsIn(xAlts, flatten(altKeys(p, y)))
					why = fmt.Sprintf("the record drops by %v", keysOf(p, y))
				} else {
					old := p.pathKeyAt(near.alloc, amtPath, near.st)
					good = old != "" && allAltsIn(xAlts, []string{old})
					why = "the record is emptied: its previous amount " + old
				}
			} else {
				// record deleted without a store: the previous amount, or an amount tested equal to it
				var olds []string
				for _, a := range recAllocs {
					if k := p.pathKeyAt(a, amtPath, ts); k != "" {
						olds = append(olds, k)
					}
				}
				good = allAltsIn(xAlts, olds)
				if !good {
					for _, b := range fn.Blocks {
						if len(b.Instrs) == 0 || !b.Dominates(ts.Block()) {
							continue
						}
						ifi, isIf := b.Instrs[len(b.Instrs)-1].(*ssa.If)
						if !isIf || !(b.Succs[0] == ts.Block() || b.Succs[0].Dominates(ts.Block())) {
							continue
						}
						c, isC := ifi.Cond.(*ssa.Call)
						if !isC || calleeShortName(&c.Call) != "Equal" || len(c.Call.Args) != 2 {
							continue
						}
						k0, k1 := flatten(altKeys(p, c.Call.Args[0])), flatten(altKeys(p, c.Call.Args[1]))
						if (intersects(k0, olds) && allAltsIn(xAlts, k1)) || (intersects(k1, olds) && allAltsIn(xAlts, k0)) {
							good = true
						}
					}
				}
				why = fmt.Sprintf("the record is removed: its amount %v", olds)
			}
			if good {
				r.OK("R11.10", construct, "same amount as the record change ("+why+")", p.instrPos(ts))
			} else {
				r.Fail("R11.10", construct, fmt.Sprintf("the recorded total of limit bids drops by %v while %s: after the automatic fill the total no longer equals the sum of the deposits", keysOf(p, x), why), p.instrPos(ts), nil)
			}
		}
	}
}

func flatten(alts [][]string) []string {
	var out []string
	for _, a := range alts {
		out = append(out, a...)
	}
	return out
}

// before: a precedes b in the same block.
func before(a, b ssa.Instruction) bool {
	for _, in := range a.Block().Instrs {
		if in == a {
			return true
		}
		if in == b {
			return false
		}
	}
	return false
}
