package main

import (
	"fmt"
	"sort"
	"strings"

	"golang.org/x/tools/go/ssa"
)

func init() { register("C13", rulesC13) }

func rulesC13(p *Prog, r *Report) {
	r.Explanation = "Decides the bookkeeping shape behind 'locker balances and collector net fees are backed': (R13.1) in every locker handler each movement into/out of locker custody has, on the same path and for the very same amount, the change of the locker's NetBalance and of the deposited-amount total (or the record's deletion); a withdrawal is reachable only through requested <= NetBalance; no stale copy of a locker is written back after the savings calculation rewrote it; (R13.2) collector sign rule: every coin movement out of the collector custody is on a path with a successful decrease of the recorded net fees (book accepted before or with the transfer, failure not swallowed), every movement into it with a successful increase, for the same amount; (R13.3) DecreaseNetFeeCollectedData rejects a decrease below zero. The numeric identities (custody >= sum of books) are NOT decided."
	r.Assumptions = []string{"amount equality is expression identity", "SDK runTx atomicity for message paths; block hooks and contract-triggered sweeps get no atomicity unless wrapped"}
	lockerMod := modConst(p, "x/locker/types")
	collMod := modConst(p, "x/collector/types")

	// R13.1 ------------------------------------------------------------------------
	r.Rule("R13.1", "locker custody movement <=> NetBalance / deposited total change, same amount; bounded release; no stale write-back", 16)
	upd := p.MustFunc("x/locker/keeper.Keeper.UpdateAmountLockerMapping")
	delL := p.MustFunc("x/locker/keeper.Keeper.DeleteLocker")
	getL := p.MustFunc("x/locker/keeper.Keeper.GetLocker")
	setL := p.MustFunc("x/locker/keeper.Keeper.SetLocker")
	spec := &TwinSpec{
		Rule: "R13.1",
		Classes: []EffectClass{
			{"locker-in", func(e *BankEffect) bool { return e.Op == "AccToMod" && moduleName(e.To) == lockerMod }},
			{"locker-out", func(e *BankEffect) bool { return e.Op == "ModToAcc" && moduleName(e.From) == lockerMod }},
		},
		Updaters: []Updater{{Fn: upd, AmtArg: 3, DirArg: 4, Plus: "locker-in", Minus: "locker-out"}},
		Fields: []FieldRule{
			{"Locker", "NetBalance", "locker-in", "locker-out"},
			{"LockerLookupTableData", "DepositedAmount", "locker-in", "locker-out"},
		},
		Deleters:  map[*ssa.Function][]string{delL: {"locker-out"}},
		NeedStore: map[string]bool{"locker-in": true, "locker-out": true},
	}
	// the create handler books the total directly on the lookup table: that store is its updater twin
	var lockerHandlers []Entry
	for _, e := range p.MsgHandlers() {
		if e.Module == "locker" {
			lockerHandlers = append(lockerHandlers, e)
		}
	}
	writerMay := p.NewMay(func(c ssa.CallInstruction, callee *ssa.Function) bool { return callee == setL })
	for _, e := range lockerHandlers {
		s2 := *spec
		if len(fieldStores(e.Fn, "LockerLookupTableData", "DepositedAmount")) > 0 {
			// direct total update instead of the updater call
			s2.Updaters = append([]Updater{}, spec.Updaters...)
			s2.Updaters = append(s2.Updaters, Updater{Fn: p.MustFunc("x/locker/keeper.Keeper.SetLockerLookupTable"), Aggr: true, Classes: []string{"locker-in"}})
		}
		p.analyseTwins(r, &s2, e.Fn)
		uses := func(c ssa.CallInstruction) bool { return p.callIsFn(c, setL, upd) || bankEffect(c) != nil }
		p.staleReads(r, "R13.1", e.Fn, "Locker", []*ssa.Function{getL}, writerMay, setL, uses)
	}
	// bounded release: a locker-out whose amount comes from the request needs requested <= NetBalance
	for _, e := range lockerHandlers {
		out := p.bankMay(func(be *BankEffect) bool {
			if be.Op != "ModToAcc" || moduleName(be.From) != lockerMod {
				return false
			}
			for _, a := range firstAmts(p, be.Coins) {
				for _, o := range p.DeepOrigins(a) {
					if o.Kind == "param" {
						if pr, ok := o.Val.(*ssa.Parameter); ok && msgParam(pr.Parent()) == pr {
							return true
						}
					}
				}
			}
			return false
		})
		if !out.Fn(e.Fn) {
			continue
		}
		r.Instance("R13.1")
		isReq := func(v ssa.Value) bool {
			for _, o := range p.DeepOrigins(v) {
				if o.Kind == "param" {
					if pr, ok := o.Val.(*ssa.Parameter); ok && msgParam(pr.Parent()) == pr {
						return true
					}
				}
			}
			return false
		}
		isBal := func(v ssa.Value) bool { return p.originHasField(v, "Locker", "NetBalance") && !isReq(v) }
		g := p.cmpGuard("requested <= NetBalance", isReq, isBal, RLE)
		ug := p.NewUnguarded(g, out)
		if bad, chain := ug.Fn(e.Fn); bad {
			r.Fail("R13.1", e.Name+" bounded release", "coins leave locker custody for an amount taken from the request without that amount having been compared with the locker's NetBalance (requested <= balance)", p.pos(e.Fn.Pos()), chain)
		} else {
			r.OK("R13.1", e.Name+" bounded release", "release only through requested <= NetBalance", p.pos(e.Fn.Pos()))
		}
	}

	// R13.2 collector sign rule ---------------------------------------------------------
	r.Rule("R13.2", "collector custody out => successful net-fee decrease; in => successful net-fee increase; same amount", 20)
	dec := p.MustFunc("x/collector/keeper.Keeper.DecreaseNetFeeCollectedData")
	inc := p.MustFunc("x/collector/keeper.Keeper.SetNetFeeCollectedData")
	updC := p.MustFunc("x/collector/keeper.Keeper.UpdateCollector")
	getAmt := p.MustFunc("x/collector/keeper.Keeper.GetAmountFromCollector")
	decGuard := &GuardSpec{Name: "successful DecreaseNetFeeCollectedData", CallPass: func(callee *ssa.Function, call ssa.CallInstruction) bool {
		return callee == dec || callee == getAmt
	}}
	incGuard := &GuardSpec{Name: "successful SetNetFeeCollectedData/UpdateCollector", CallPass: func(callee *ssa.Function, call ssa.CallInstruction) bool {
		return callee == inc || callee == updC
	}}
	var fns []*ssa.Function
	for _, fn := range p.Funcs {
		if !p.isAuxFn(fn) {
			fns = append(fns, fn)
		}
	}
	sort.Slice(fns, func(i, j int) bool { return fname(fns[i]) < fname(fns[j]) })
	for _, fn := range fns {
		nOut, nIn := 0, 0
		for _, c := range calls(fn) {
			be := bankEffect(c)
			if be == nil {
				continue
			}
			isOut := moduleName(be.From) == collMod && (be.Op == "ModToMod" || be.Op == "ModToAcc" || be.Op == "Burn")
			isIn := moduleName(be.To) == collMod && (be.Op == "ModToMod" || be.Op == "AccToMod") && be.Op != "Burn"
			if be.Op == "Burn" || be.Op == "Mint" {
				isIn = false
			}
			if !isOut && !isIn {
				continue
			}
			r.FuncsSeen[fname(fn)] = true
			site := c
			may := p.NewMay(func(cc ssa.CallInstruction, callee *ssa.Function) bool { return cc == site })
			var g *GuardSpec
			var construct, dir string
			if isOut {
				nOut++
				g, dir = decGuard, "out of"
				construct = fmt.Sprintf("%s collector-out #%d (%s)", fname(fn), nOut, be.Op)
			} else {
				nIn++
				g, dir = incGuard, "into"
				construct = fmt.Sprintf("%s collector-in #%d (%s)", fname(fn), nIn, be.Op)
			}
			r.Instance("R13.2")
			ug := p.NewUnguarded(g, may)
			if bad, chain := ug.Fn(fn); bad {
				r.Fail("R13.2", construct, "coins move "+dir+" the collector custody on a path that can complete without a "+g.Name+": custody and recorded net fees diverge", p.instrPos(c), chain)
				continue
			}
			// amount agreement with the book call(s) of this function
			moved := p.amountKeys(be.Coins)
			booked := []string{}
			for _, c2 := range calls(fn) {
				var amtArgs []ssa.Value
				args := callArgs(c2)
				switch {
				case p.callIsFn(c2, dec, inc, getAmt) && len(args) >= 4:
					amtArgs = args[3:4]
				case p.callIsFn(c2, updC) && len(args) >= 7:
					amtArgs = args[3:7]
				}
				for _, a := range amtArgs {
					for _, alt := range altKeys(p, a) {
						booked = append(booked, alt...)
					}
				}
			}
			if fname(fn) == "x/collector/keeper.Keeper.Refund" {
				r.Note("R13.2 exception %s: one-off governance refund paying a table of constants whose sum is the booked constant (numeric, not structural); only the successful-decrease guard is checked", construct)
				booked = nil
			}
			if len(booked) > 0 && !intersects(moved, booked) {
				r.Fail("R13.2", construct, fmt.Sprintf("the amount moved %s the collector %v is not the amount booked on the net fees %v", dir, uniq(moved), uniq(booked)), p.instrPos(c), nil)
				continue
			}
			// asset agreement: the net fees are kept per (app, asset); the asset id booked must be the asset of
			// the coin moved. Decidable where the record names both sides (DebtToken/DebtAssetId,
			// CollateralToken/CollateralAssetId, Inflow/AssetIn, Outflow/AssetOut).
			if side := coinSide(p, be.Coins); side != "" {
				mismatch := ""
				for _, c2 := range calls(fn) {
					if !p.callIsFn(c2, dec, inc, getAmt, updC) {
						continue
					}
					args := callArgs(c2)
					if len(args) < 3 {
						continue
					}
					if as := idSide(p, args[2]); as != "" && as != side {
						mismatch = fmt.Sprintf("coin is the %s token, booked under the %s asset id (%s)", side, as, p.instrPos(c2))
					}
				}
				if mismatch != "" {
					r.Fail("R13.2", construct+" asset", "the recorded net fees are changed under a different asset than the coin that moved: "+mismatch, p.instrPos(c), nil)
					continue
				}
			}
			r.OK("R13.2", construct, "movement needs "+g.Name+" for the same amount", p.instrPos(c))
		}
	}

	// R13.9 ------------------------------------------------------------------------
	// UpdateCollector is handed the four fee parts that were just paid in; what it adds to the
	// net fees is their sum, each part once, and nothing read back from the stored counters.
	r.Rule("R13.9", "UpdateCollector raises the net fees by the sum of exactly its fee parameters", 1)
	{
		var amtParams []string
		for _, pr := range updC.Params {
			if strings.HasSuffix(pr.Type().String(), "math.Int") {
				amtParams = append(amtParams, "p:"+pr.Name())
			}
		}
		sort.Strings(amtParams)
		n := 0
		for _, c := range calls(updC) {
			if !p.callIsFn(c, inc) {
				continue
			}
			args := callArgs(c)
			if len(args) < 4 {
				continue
			}
			n++
			r.Instance("R13.9")
			r.FuncsSeen[fname(updC)] = true
			construct := fmt.Sprintf("%s net-fee increase #%d", fname(updC), n)
			var leaves []string
			var flat func(v ssa.Value, d int)
			flat = func(v ssa.Value, d int) {
				if op, recv, x, ok := addSubOf(v); ok && op == "Add" && d < 8 {
					flat(recv, d+1)
					flat(x, d+1)
					return
				}
				k := p.ExprKey(v)
				// a stored-then-loaded parameter (newCollector.X = param) resolves to the parameter;
				// a sum hidden in the key (old.Add(param)) is split as well
				for strings.HasPrefix(k, "cosmossdk.io/math.Int.Add(") && strings.HasSuffix(k, ")") {
					inner := k[len("cosmossdk.io/math.Int.Add(") : len(k)-1]
					depth, cut := 0, -1
					for i, ch := range inner {
						switch ch {
						case '(':
							depth++
						case ')':
							depth--
						case ',':
							if depth == 0 && cut < 0 {
								cut = i
							}
						}
					}
					if cut < 0 {
						break
					}
					leaves = append(leaves, inner[:cut])
					k = inner[cut+1:]
				}
				leaves = append(leaves, k)
			}
			flat(args[3], 0)
			sort.Strings(leaves)
			if strings.Join(leaves, ",") == strings.Join(amtParams, ",") {
				r.OK("R13.9", construct, "sum of the fee parameters, each once", p.instrPos(c))
			} else {
				r.Fail("R13.9", construct, fmt.Sprintf("the net fees are raised by %v, which is not the sum of the fee amounts handed in %v: recorded net fees drift away from what was paid into the collector", leaves, amtParams), p.instrPos(c), nil)
			}
		}
	}

	// R13.3 ------------------------------------------------------------------------
	r.Rule("R13.3", "DecreaseNetFeeCollectedData cannot store a negative balance", 1)
	{
		r.Instance("R13.3")
		r.FuncsSeen[fname(dec)] = true
		// the store of the record must be reachable only through an edge implying new >= 0 (or amount <= current)
		var setSites []*ssa.BasicBlock
		for _, c := range calls(dec) {
			if op, _, ok := kvOp(c); ok && op == "Set" {
				setSites = append(setSites, c.Block())
			}
			for _, t := range p.Callees(c) {
				if isComdexFn(t) && stateWriteMay(p).Fn(t) {
					setSites = append(setSites, c.Block())
				}
			}
		}
		g := &GuardSpec{Name: "new net fees >= 0", Local: func(fn *ssa.Function, cond ssa.Value) (bool, bool) {
			x, y, onT, onF, ok := p.CmpRel(cond)
			if !ok || x == nil {
				return false, false
			}
			// IsNegative()/LT(zero) on a value derived from NetFeesCollected.Sub(amount), or amount GT NetFeesCollected
			involves := func(v ssa.Value) bool {
				return v != nil && p.originHasField(v, "AppAssetIdToFeeCollectedData", "NetFeesCollected")
			}
			if !involves(x) && !involves(y) {
				return false, false
			}
			if y == nil || isZeroValue(y) {
				return onT.subsetOf(RGE), onF.subsetOf(RGE)
			}
			if involves(x) {
				return onT.subsetOf(RGE), onF.subsetOf(RGE)
			}
			return onT.subsetOf(RLE), onF.subsetOf(RLE)
		}}
		ok, _, w := p.guardedTargets(g, dec, setSites, 0)
		if ok && len(setSites) > 0 {
			r.OK("R13.3", fname(dec), "the record is stored only after the non-negativity test", p.pos(dec.Pos()))
		} else {
			r.Fail("R13.3", fname(dec), "recorded net fees can be stored without a test that keeps them non-negative", p.pos(dec.Pos()), w)
		}
	}
}

func firstAmts(p *Prog, coins ssa.Value) []ssa.Value {
	a, _ := p.coinParts(coins)
	return a
}

// coinSide: "debt" / "collateral" when the coin's denomination comes from a record field naming that side.
func coinSide(p *Prog, coins ssa.Value) string {
	side := ""
	_, denoms := p.coinParts(coins)
	vals := denoms
	if len(vals) == 0 {
		vals = []ssa.Value{coins}
	}
	for _, v := range vals {
		for _, o := range p.DeepOrigins(v) {
			for _, f := range o.Path {
				s := sideOfName(f)
				if s == "" {
					continue
				}
				if side != "" && side != s {
					return ""
				}
				side = s
			}
		}
	}
	return side
}

func idSide(p *Prog, v ssa.Value) string {
	side := ""
	for _, o := range p.Origins(v) {
		if len(o.Path) == 0 {
			return ""
		}
		s := sideOfName(o.Path[len(o.Path)-1])
		if s == "" {
			return ""
		}
		if side != "" && side != s {
			return ""
		}
		side = s
	}
	return side
}

func sideOfName(f string) string {
	toks := camelTokens(f)
	has := func(w string) bool {
		for _, t := range toks {
			if t == w {
				return true
			}
		}
		return false
	}
	// the vocabulary of the auction records, confirmed at the sites that create them:
	// v1 dutch: OutflowToken*/AssetOutId = collateral sold, InflowToken*/AssetInId = debt raised;
	// surplus: SellToken/AssetOutId, BuyToken/AssetInId; debt: AuctionedToken, ExpectedMintedToken/AssetOutId,
	// ExpectedUserToken/AssetInId; v2: CollateralToken/CollateralAssetId, DebtToken/DebtAssetId.
	// (lend pairs use AssetIn/AssetOut with the opposite meaning: only the exact auction field names count.)
	switch {
	case f == "AssetInId":
		return "debt"
	case f == "AssetOutId":
		return "collateral"
	case has("debt") || has("inflow") || has("buy") || (has("expected") && has("user")):
		return "debt"
	case has("collateral") || has("outflow") || has("sell") || has("auctioned") || (has("expected") && has("minted")):
		return "collateral"
	}
	return ""
}
