package main

import (
	"fmt"
	"go/ast"
	"go/token"
	"go/types"
	"os"
	"sort"
	"strings"

	"golang.org/x/tools/go/packages"
	"golang.org/x/tools/go/ssa"
	"golang.org/x/tools/go/ssa/ssautil"
)

const modPath = "github.com/comdex-official/comdex"

// Prog is the loaded, type-checked and SSA-built repository.
type Prog struct {
	handlerSetMemo map[*ssa.Function]bool
	pureDepth      int
	throughPureOn  bool // DeepOrigins follows results of pure comdex helpers into their arguments
	Fset           *token.FileSet
	Roots          []*packages.Package
	ByPath         map[string]*packages.Package
	SSA            *ssa.Program
	Funcs          []*ssa.Function          // every comdex function incl. anonymous ones, sorted by name
	byName         map[string]*ssa.Function // short name -> function
	RepoDir        string

	implCache   map[*types.Interface][]types.Type
	namedTypes  []*types.Named // all comdex named non-interface types
	paramFuncs  map[*ssa.Parameter][]*ssa.Function
	fieldFuncs  map[*types.Var][]*ssa.Function
	calleeCache map[ssa.CallInstruction][]*ssa.Function
	callers     map[*ssa.Function][]ssa.CallInstruction
	funcArgSite map[*ssa.Function][]ssa.CallInstruction
	astFuncs    map[*ssa.Function]ast.Node
}

// isComdex reports whether a package path is part of the repository.
func isComdex(path string) bool {
	return path == modPath || strings.HasPrefix(path, modPath+"/")
}

func short(s string) string {
	return strings.ReplaceAll(s, modPath+"/", "")
}

// fname is the stable identity of a function: x/vault/keeper.msgServer.MsgCreate,
// x/liquidity.EndBlocker$1, ...
func fname(f *ssa.Function) string {
	if f == nil {
		return "<nil>"
	}
	s := f.String()
	s = short(s)
	s = strings.NewReplacer("(*", "", "(", "", ")", "").Replace(s)
	return s
}

func isTestFile(name string) bool { return strings.HasSuffix(name, "_test.go") }

// Load loads ./x/... ./app/... ./types/... of repo with full syntax and builds SSA.
func Load(repo string, overlay map[string][]byte) (*Prog, error) {
	env := append(os.Environ(), "GOFLAGS=-mod=mod", "GOPROXY=off", "GOSUMDB=off", "GOTOOLCHAIN=local", "GOWORK=off")
	cfg := &packages.Config{
		Mode:    packages.LoadAllSyntax,
		Dir:     repo,
		Env:     env,
		Tests:   false,
		Overlay: overlay,
	}
	pkgs, err := packages.Load(cfg, "./x/...", "./app/...", "./types/...")
	if err != nil {
		return nil, err
	}
	if len(pkgs) < 100 {
		return nil, fmt.Errorf("only %d packages loaded (expected >= 100)", len(pkgs))
	}
	p := &Prog{Roots: pkgs, ByPath: map[string]*packages.Package{}, RepoDir: repo}
	var terrs []string
	packages.Visit(pkgs, nil, func(pk *packages.Package) {
		p.ByPath[pk.PkgPath] = pk
		if isComdex(pk.PkgPath) {
			for _, e := range pk.Errors {
				terrs = append(terrs, e.Error())
			}
		}
	})
	if len(terrs) > 0 {
		sort.Strings(terrs)
		if len(terrs) > 10 {
			terrs = terrs[:10]
		}
		return nil, fmt.Errorf("type errors in repository packages:\n  %s", strings.Join(terrs, "\n  "))
	}
	p.Fset = pkgs[0].Fset
	prog, _ := ssautil.AllPackages(pkgs, ssa.InstantiateGenerics)
	prog.Build()
	p.SSA = prog
	p.byName = map[string]*ssa.Function{}
	for fn := range ssautil.AllFunctions(prog) {
		if fn.Pkg == nil && fn.Package() == nil {
			// synthetic wrappers/instantiations without package: keep if origin is comdex
			if fn.Origin() == nil || fn.Origin().Package() == nil || !isComdex(fn.Origin().Package().Pkg.Path()) {
				continue
			}
		} else if !isComdex(fn.Package().Pkg.Path()) {
			continue
		}
		if fn.Synthetic != "" && fn.Blocks == nil {
			continue
		}
		if pos := fn.Pos(); pos.IsValid() && isTestFile(p.Fset.Position(pos).Filename) {
			continue
		}
		p.Funcs = append(p.Funcs, fn)
	}
	sort.Slice(p.Funcs, func(i, j int) bool {
		a, b := fname(p.Funcs[i]), fname(p.Funcs[j])
		if a != b {
			return a < b
		}
		return p.Funcs[i].Pos() < p.Funcs[j].Pos()
	})
	for _, fn := range p.Funcs {
		if fn.Synthetic != "" {
			continue
		}
		n := fname(fn)
		if _, dup := p.byName[n]; !dup {
			p.byName[n] = fn
		}
	}
	for path, pk := range p.ByPath {
		if !isComdex(path) || pk.Types == nil {
			continue
		}
		sc := pk.Types.Scope()
		for _, name := range sc.Names() {
			if tn, ok := sc.Lookup(name).(*types.TypeName); ok && !tn.IsAlias() {
				if nt, ok := tn.Type().(*types.Named); ok {
					if _, isIface := nt.Underlying().(*types.Interface); !isIface {
						p.namedTypes = append(p.namedTypes, nt)
					}
				}
			}
		}
	}
	sort.Slice(p.namedTypes, func(i, j int) bool { return p.namedTypes[i].String() < p.namedTypes[j].String() })
	p.implCache = map[*types.Interface][]types.Type{}
	p.calleeCache = map[ssa.CallInstruction][]*ssa.Function{}
	p.indexCalls()
	return p, nil
}

// Func returns the function with the given short name or nil.
func (p *Prog) Func(name string) *ssa.Function { return p.byName[name] }

// MustFunc resolves an anchor; unresolved anchors abort the analysis (exit 2).
func (p *Prog) MustFunc(name string) *ssa.Function {
	f := p.byName[name]
	if f == nil {
		analysisError("anchor unresolved: function %s", name)
	}
	return f
}

func (p *Prog) pos(pos token.Pos) string {
	if !pos.IsValid() {
		return "?"
	}
	ps := p.Fset.Position(pos)
	fn := strings.TrimPrefix(ps.Filename, p.RepoDir+"/")
	return fmt.Sprintf("%s:%d", fn, ps.Line)
}

func (p *Prog) instrPos(in ssa.Instruction) string {
	if in == nil {
		return "?"
	}
	if in.Pos().IsValid() {
		return p.pos(in.Pos())
	}
	// fall back to any positioned instruction of the block
	if b := in.Block(); b != nil {
		for _, i2 := range b.Instrs {
			if i2.Pos().IsValid() {
				return p.pos(i2.Pos())
			}
		}
	}
	return p.pos(in.Parent().Pos())
}

// implementations returns the comdex named types (T or *T) implementing iface.
func (p *Prog) implementations(iface *types.Interface) []types.Type {
	if r, ok := p.implCache[iface]; ok {
		return r
	}
	var out []types.Type
	if iface.NumMethods() > 0 {
		for _, nt := range p.namedTypes {
			if nt.TypeParams() != nil && nt.TypeParams().Len() > 0 {
				continue
			}
			if types.Implements(nt, iface) {
				out = append(out, nt)
			} else if pt := types.NewPointer(nt); types.Implements(pt, iface) {
				out = append(out, pt)
			}
		}
	}
	p.implCache[iface] = out
	return out
}

// indexCalls builds the table of function values passed to func-typed parameters and
// stored in func-typed struct fields, so that dynamic calls of a parameter / field can
// be resolved to the closures that flow there.
func (p *Prog) indexCalls() {
	p.paramFuncs = map[*ssa.Parameter][]*ssa.Function{}
	p.fieldFuncs = map[*types.Var][]*ssa.Function{}
	p.callers = map[*ssa.Function][]ssa.CallInstruction{}
	p.funcArgSite = map[*ssa.Function][]ssa.CallInstruction{}
	for _, fn := range p.Funcs {
		for _, b := range fn.Blocks {
			for _, in := range b.Instrs {
				call, ok := in.(ssa.CallInstruction)
				if !ok {
					continue
				}
				cc := call.Common()
				var targets []*ssa.Function
				if sc := cc.StaticCallee(); sc != nil {
					targets = []*ssa.Function{sc}
				} else if cc.IsInvoke() {
					targets = p.invokeTargets(cc)
				}
				for _, a := range cc.Args {
					if f := funcValue(a); f != nil {
						p.funcArgSite[f] = append(p.funcArgSite[f], call)
					}
				}
				for _, t := range targets {
					if u := p.unwrap(t); u != t {
						p.callers[u] = append(p.callers[u], call)
					}
					p.callers[t] = append(p.callers[t], call)
					if len(t.Params) == 0 {
						continue
					}
					args := cc.Args
					params := t.Params
					if cc.IsInvoke() {
						// receiver is not in Args for invoke; Params[0] is the receiver
						params = params[1:]
					}
					for i, a := range args {
						if i >= len(params) {
							break
						}
						if f := funcValue(a); f != nil {
							p.paramFuncs[params[i]] = appendUniqueFn(p.paramFuncs[params[i]], f)
						}
					}
				}
			}
		}
	}
}

func appendUniqueFn(s []*ssa.Function, f *ssa.Function) []*ssa.Function {
	for _, x := range s {
		if x == f {
			return s
		}
	}
	return append(s, f)
}

// funcValue resolves a value to the function it denotes (closure, function, bound method).
func funcValue(v ssa.Value) *ssa.Function {
	switch v := v.(type) {
	case *ssa.Function:
		return v
	case *ssa.MakeClosure:
		if f, ok := v.Fn.(*ssa.Function); ok {
			return f
		}
	case *ssa.ChangeType:
		return funcValue(v.X)
	case *ssa.MakeInterface:
		return funcValue(v.X)
	}
	return nil
}

func (p *Prog) invokeTargets(cc *ssa.CallCommon) []*ssa.Function {
	iface, ok := cc.Value.Type().Underlying().(*types.Interface)
	if !ok {
		return nil
	}
	var out []*ssa.Function
	for _, t := range p.implementations(iface) {
		ms := p.SSA.MethodSets.MethodSet(t)
		sel := ms.Lookup(cc.Method.Pkg(), cc.Method.Name())
		if sel == nil {
			continue
		}
		if f := p.SSA.MethodValue(sel); f != nil {
			out = appendUniqueFn(out, f)
		}
	}
	return out
}

// Callees resolves a call to the comdex functions it may invoke. Calls leaving the
// repository resolve to the (bodyless for our purposes) external function.
func (p *Prog) Callees(call ssa.CallInstruction) []*ssa.Function {
	if r, ok := p.calleeCache[call]; ok {
		return r
	}
	cc := call.Common()
	var out []*ssa.Function
	if sc := cc.StaticCallee(); sc != nil {
		out = []*ssa.Function{sc}
	} else if cc.IsInvoke() {
		out = p.invokeTargets(cc)
	} else {
		// dynamic call of a func value
		switch v := cc.Value.(type) {
		case *ssa.Parameter:
			out = p.paramFuncs[v]
		case *ssa.MakeClosure:
			if f, ok := v.Fn.(*ssa.Function); ok {
				out = []*ssa.Function{f}
			}
		}
	}
	// unwrap synthetic wrappers / bound-method thunks to the real declaration
	for i, f := range out {
		out[i] = p.unwrap(f)
	}
	p.calleeCache[call] = out
	return out
}

// unwrap follows a synthetic wrapper (promoted-method wrapper, bound method thunk) to
// the declared function it forwards to.
func (p *Prog) unwrap(f *ssa.Function) *ssa.Function {
	for i := 0; i < 4 && f != nil && f.Synthetic != "" && len(f.Blocks) > 0; i++ {
		var next *ssa.Function
		n := 0
		for _, b := range f.Blocks {
			for _, in := range b.Instrs {
				if c, ok := in.(ssa.CallInstruction); ok {
					if sc := c.Common().StaticCallee(); sc != nil {
						next = sc
						n++
					}
				}
			}
		}
		if n != 1 {
			break
		}
		f = next
	}
	return f
}

func isComdexFn(f *ssa.Function) bool {
	if f == nil {
		return false
	}
	pk := f.Package()
	if pk == nil && f.Origin() != nil {
		pk = f.Origin().Package()
	}
	if pk == nil {
		// anonymous / synthetic: look at parent
		if f.Parent() != nil {
			return isComdexFn(f.Parent())
		}
		return false
	}
	return isComdex(pk.Pkg.Path())
}

// fnPkgPath is the package path of a function ("" when unknown).
func fnPkgPath(f *ssa.Function) string {
	for f != nil {
		if pk := f.Package(); pk != nil {
			return pk.Pkg.Path()
		}
		if f.Origin() != nil && f.Origin() != f {
			f = f.Origin()
			continue
		}
		f = f.Parent()
	}
	return ""
}

// fullName is the qualified name of a (possibly external) function: pkgpath.Recv.Name
func fullName(f *ssa.Function) string {
	if f == nil {
		return ""
	}
	s := f.String()
	s = strings.NewReplacer("(*", "", "(", "", ")", "").Replace(s)
	return s
}
