package main

import (
	"fmt"
	"go/token"
	"sort"
	"strings"

	"golang.org/x/tools/go/ssa"
)

// Replaced-field rule. When a function replaces field F of a record with a value that does
// not come from the old F (a restart posting a fresh start price, a time base moved to now),
// whatever else it stores into the same record must be computed from the new value, not from
// the old F it is discarding: an end price derived from the previous round's start price
// leaves the record inconsistent with itself. Self-updates (F = F.Add(x)) are not replacements.
func replacedFieldRule(p *Prog, r *Report, rule string, mods map[string]bool, floor int) {
	r.Rule(rule, "a record field replaced by a fresh value is not also used, in its old value, to compute a sibling field stored in the same function", floor)
	ops := p.operationalFns()
	var fns []*ssa.Function
	for f := range ops {
		if mods[moduleOf(f)] && !p.isAuxFn(f) {
			fns = append(fns, f)
		}
	}
	sort.Slice(fns, func(i, j int) bool { return fname(fns[i]) < fname(fns[j]) })
	for _, fn := range fns {
		type fstore struct {
			st    *ssa.Store
			base  ssa.Value
			typ   string
			field string
		}
		var stores []fstore
		for _, b := range fn.Blocks {
			for _, in := range b.Instrs {
				st, ok := in.(*ssa.Store)
				if !ok {
					continue
				}
				base, path := addrBase(st.Addr)
				if len(path) != 1 {
					continue
				}
				tn := namedTypeName(base.Type())
				if tn == "" {
					continue
				}
				stores = append(stores, fstore{st, base, tn, path[0]})
			}
		}
		back := backEdges(fn)
		// loads of base.field feeding v (through arithmetic, conversions, phis, locals)
		var feeding func(v ssa.Value, base ssa.Value, field string, seen map[ssa.Value]bool, d int) []*ssa.UnOp
		feeding = func(v ssa.Value, base ssa.Value, field string, seen map[ssa.Value]bool, d int) []*ssa.UnOp {
			if v == nil || seen[v] || d > 14 {
				return nil
			}
			seen[v] = true
			var out []*ssa.UnOp
			switch x := v.(type) {
			case *ssa.UnOp:
				if x.Op == token.MUL {
					b, path := addrBase(x.X)
					if b == base && len(path) >= 1 && path[0] == field {
						return []*ssa.UnOp{x}
					}
					if al, isAlloc := b.(*ssa.Alloc); isAlloc && al != base {
						// a local: follow what was stored into it
						if defs, _ := reachingStores(al, path, x); len(defs) > 0 {
							for _, dd := range defs {
								out = append(out, feeding(dd.st.Val, base, field, seen, d+1)...)
							}
						}
					}
					return out
				}
				return feeding(x.X, base, field, seen, d+1)
			case *ssa.Call:
				if n := calleeFullName(&x.Call); n != "" && (isTransparentCallee(n) || isComdexPure(x)) {
					for _, a := range x.Call.Args {
						out = append(out, feeding(a, base, field, seen, d+1)...)
					}
				}
			case *ssa.BinOp:
				out = append(out, feeding(x.X, base, field, seen, d+1)...)
				out = append(out, feeding(x.Y, base, field, seen, d+1)...)
			case *ssa.Phi:
				for _, e := range x.Edges {
					out = append(out, feeding(e, base, field, seen, d+1)...)
				}
			case *ssa.Field:
				out = append(out, feeding(x.X, base, field, seen, d+1)...)
			case *ssa.Convert:
				out = append(out, feeding(x.X, base, field, seen, d+1)...)
			case *ssa.ChangeType:
				out = append(out, feeding(x.X, base, field, seen, d+1)...)
			case *ssa.MakeInterface:
				out = append(out, feeding(x.X, base, field, seen, d+1)...)
			case *ssa.Extract:
				out = append(out, feeding(x.Tuple, base, field, seen, d+1)...)
			}
			return out
		}
		// the load reads the value the store replaces: the store does not reach it
		readsOld := func(ld *ssa.UnOp, st *ssa.Store) bool {
			if ld.Block() == st.Block() {
				for _, in := range ld.Block().Instrs {
					if in == ssa.Instruction(ld) {
						return true // load first
					}
					if in == ssa.Instruction(st) {
						return false
					}
				}
			}
			seen, _ := reach(fn, st.Block(), back, nil)
			return !seen[ld.Block()]
		}
		reaches := func(a, b ssa.Instruction) bool { // a before b on some acyclic path
			if a.Block() == b.Block() {
				for _, in := range a.Block().Instrs {
					if in == a {
						return true
					}
					if in == b {
						return false
					}
				}
			}
			seen, _ := reach(fn, a.Block(), back, nil)
			return seen[b.Block()]
		}
		usesOld := func(v ssa.Value, sf fstore) bool {
			for _, ld := range feeding(v, sf.base, sf.field, map[ssa.Value]bool{}, 0) {
				// the load reads the discarded value: no store of this field reaches it
				old := true
				for _, other := range stores {
					if other.base == sf.base && other.field == sf.field && !readsOld(ld, other.st) {
						old = false
					}
				}
				if old {
					return true
				}
			}
			return false
		}
		selfDerived := func(sf fstore) bool {
			return len(feeding(sf.st.Val, sf.base, sf.field, map[ssa.Value]bool{}, 0)) > 0
		}
		n := map[string]int{}
		for _, sf := range stores {
			if isZeroValue(sf.st.Val) || selfDerived(sf) {
				continue // reset to zero or self-update: not a replacement by a fresh value
			}
			if _, isConst := sf.st.Val.(*ssa.Const); isConst {
				continue
			}
			// only numeric / time fields carry derived siblings
			ts := sf.st.Val.Type().String()
			if !(strings.HasSuffix(ts, "math.Int") || strings.HasSuffix(ts, "LegacyDec") || strings.HasSuffix(ts, "time.Time") || strings.HasSuffix(ts, "types.Coin")) {
				continue
			}
			for _, sg := range stores {
				if sg.st == sf.st || sg.base != sf.base || sg.field == sf.field {
					continue
				}
				if !reaches(sf.st, sg.st) {
					continue // the sibling was stored (and possibly persisted) before the replacement, or on another branch
				}
				if ld, isLoad := sg.st.Val.(*ssa.UnOp); isLoad && ld.Op == token.MUL {
					if b, path := addrBase(ld.X); b == sf.base && len(path) == 1 && path[0] == sf.field {
						continue // "Previous = Current; Current = new": keeping the old value is the point
					}
				}
				base := fmt.Sprintf("%s %s.%s replaced, %s stored", fname(fn), sf.typ, sf.field, sg.field)
				n[base]++
				if n[base] > 1 {
					continue
				}
				r.Instance(rule)
				r.FuncsSeen[fname(fn)] = true
				if usesOld(sg.st.Val, sf) {
					r.Fail(rule, base, fmt.Sprintf("%s.%s is replaced by a fresh value in this function, but %s.%s is computed from the value being discarded: the stored record is inconsistent with itself (e.g. an end price of the previous round next to the new start price)", sf.typ, sf.field, sg.typ, sg.field), p.instrPos(sg.st), nil)
				} else {
					r.OK(rule, base, "sibling field does not depend on the discarded value", p.instrPos(sg.st))
				}
			}
		}
	}
}

// isComdexPure: a call to a comdex helper that only computes (no store, no bank access, no
// interface call), directly or through helpers of the same kind: its result depends on its
// arguments only.
func isComdexPure(c *ssa.Call) bool {
	sc := c.Call.StaticCallee()
	return sc != nil && pureFn(sc, 0, map[*ssa.Function]bool{})
}

func pureFn(f *ssa.Function, depth int, stack map[*ssa.Function]bool) bool {
	if !isComdexFn(f) || len(f.Blocks) == 0 || depth > 3 || stack[f] {
		return false
	}
	stack[f] = true
	defer delete(stack, f)
	for _, b := range f.Blocks {
		for _, in := range b.Instrs {
			ci, ok := in.(ssa.CallInstruction)
			if !ok {
				continue
			}
			if _, _, isKV := kvOp(ci); isKV || bankEffect(ci) != nil || ci.Common().IsInvoke() {
				return false
			}
			t := ci.Common().StaticCallee()
			if t == nil {
				if _, isBuiltin := ci.Common().Value.(*ssa.Builtin); isBuiltin {
					continue
				}
				// sdk.OneDec, sdk.NewDecFromInt ...: package-level function variables of the SDK
				if n := calleeFullName(ci.Common()); n != "" && !strings.Contains(n, "comdex-official/comdex") {
					continue
				}
				return false
			}
			if isComdexFn(t) && !pureFn(t, depth+1, stack) {
				return false
			}
		}
	}
	return true
}
