package main

import (
	"fmt"
	"go/token"
	"go/types"
	"sort"
	"strings"

	"golang.org/x/tools/go/ssa"
)

// keyArgAgreement: a contradiction rule over the store-key constructors of the types
// packages (functions named *Key returning []byte with two or more uint64 parameters).
// Parameter names of these constructors are not trusted; instead all call sites of one
// constructor are compared with each other: when the identifier kinds of the arguments are
// known at two sites and one site passes them in a different order than the others, records
// written there are not found by the readers (the genesis-only setters are such writers).
func keyArgAgreement(p *Prog, r *Report, rule string, floor int) {
	r.Rule(rule, "all call sites of a store-key constructor pass their identifier kinds in the same order", floor)
	type site struct {
		c    ssa.CallInstruction
		fn   *ssa.Function
		seq  []string
		full bool
	}
	byCtor := map[*ssa.Function][]site{}
	for _, fn := range p.Funcs {
		if !isComdexFn(fn) || p.isAuxFn(fn) || len(fn.Blocks) == 0 {
			continue
		}
		for _, c := range calls(fn) {
			sc := c.Common().StaticCallee()
			if sc == nil || !isComdexFn(sc) || sc.Signature.Recv() != nil || !strings.HasSuffix(fnPkgPath(sc), "/types") || !strings.HasSuffix(sc.Name(), "Key") {
				continue
			}
			res := sc.Signature.Results()
			if res.Len() != 1 {
				continue
			}
			if sl, ok := res.At(0).Type().Underlying().(*types.Slice); !ok || !types.Identical(sl.Elem(), types.Typ[types.Byte]) {
				continue
			}
			nU := 0
			for i := 0; i < sc.Signature.Params().Len(); i++ {
				if isUint64(sc.Signature.Params().At(i).Type()) {
					nU++
				}
			}
			if nU < 2 {
				continue
			}
			var seq []string
			full := true
			for i, a := range c.Common().Args {
				if i >= sc.Signature.Params().Len() || !isUint64(sc.Signature.Params().At(i).Type()) {
					continue
				}
				k := p.argKind(a)
				if k == "" {
					full = false
				}
				seq = append(seq, k)
			}
			byCtor[sc] = append(byCtor[sc], site{c, fn, seq, full})
		}
	}
	var ctors []*ssa.Function
	for f := range byCtor {
		ctors = append(ctors, f)
	}
	sort.Slice(ctors, func(i, j int) bool { return fname(ctors[i]) < fname(ctors[j]) })
	for _, ctor := range ctors {
		var known []site
		for _, s := range byCtor[ctor] {
			if s.full {
				known = append(known, s)
			}
		}
		if len(known) < 2 {
			continue
		}
		count := map[string]int{}
		for _, s := range known {
			count[strings.Join(s.seq, ",")]++
		}
		// the reference order: the one most sites use (ties: no verdict)
		best, bestN, tie := "", 0, false
		for k, n := range count {
			if n > bestN {
				best, bestN, tie = k, n, false
			} else if n == bestN {
				tie = true
			}
		}
		n := map[string]int{}
		for _, s := range known {
			r.Instance(rule)
			base := fmt.Sprintf("%s -> %s", fname(s.fn), ctor.Name())
			n[base]++
			construct := base
			if n[base] > 1 {
				construct = fmt.Sprintf("%s #%d", base, n[base])
			}
			got := strings.Join(s.seq, ",")
			if got == best || tie || !isPermutation(got, best) {
				r.OK(rule, construct, "kinds ("+got+") as at the other sites", p.instrPos(s.c))
				continue
			}
			r.Fail(rule, construct, fmt.Sprintf("this site builds the key from (%s) while %d other site(s) build it from (%s): what is written here is not found under the key the others read (or the other way round)", got, bestN, best), p.instrPos(s.c), nil)
		}
	}
}

func isPermutation(a, b string) bool {
	x, y := strings.Split(a, ","), strings.Split(b, ",")
	if len(x) != len(y) {
		return false
	}
	sort.Strings(x)
	sort.Strings(y)
	for i := range x {
		if x[i] != y[i] {
			return false
		}
	}
	return a != b
}

// accessorKeyRule: a keeper reader / deleter (Get*, Has*, Delete*) looks its record up under
// a key built from what it was asked for: every identifier handed to the key constructor
// comes from the accessor's parameters (or from a record it loaded), never from a value that
// is still zero at that point (a field of the not-yet-filled named result is the usual slip).
func accessorKeyRule(p *Prog, r *Report, rule string, mods map[string]bool, floor int) {
	r.Rule(rule, "readers and deleters build their store key from their parameters, not from a still-zero value", floor)
	var fns []*ssa.Function
	for _, fn := range p.Funcs {
		if !mods[moduleOf(fn)] || p.isAuxFn(fn) || len(fn.Blocks) == 0 || fn.Signature.Recv() == nil || !strings.HasSuffix(fnPkgPath(fn), "/keeper") {
			continue
		}
		n := fn.Name()
		if strings.HasPrefix(n, "Get") || strings.HasPrefix(n, "Has") || strings.HasPrefix(n, "Delete") {
			fns = append(fns, fn)
		}
	}
	sort.Slice(fns, func(i, j int) bool { return fname(fns[i]) < fname(fns[j]) })
	for _, fn := range fns {
		k := 0
		for _, c := range calls(fn) {
			sc := c.Common().StaticCallee()
			if sc == nil || !isComdexFn(sc) || sc.Signature.Recv() != nil || !strings.HasSuffix(fnPkgPath(sc), "/types") || !strings.Contains(sc.Name(), "Key") {
				continue
			}
			res := sc.Signature.Results()
			if res.Len() != 1 {
				continue
			}
			if sl, ok := res.At(0).Type().Underlying().(*types.Slice); !ok || !types.Identical(sl.Elem(), types.Typ[types.Byte]) {
				continue
			}
			if len(c.Common().Args) == 0 {
				continue
			}
			k++
			r.Instance(rule)
			r.FuncsSeen[fname(fn)] = true
			construct := fmt.Sprintf("%s -> %s #%d", fname(fn), sc.Name(), k)
			bad := ""
			for i, a := range c.Common().Args {
				for _, o := range p.Origins(a) {
					if o.Kind != "alloc" {
						continue
					}
					al, isA := o.Val.(*ssa.Alloc)
					if !isA {
						continue
					}
					// a local that nothing has been stored into on the way here: its zero value
					path := o.Path
					ld, _ := a.(ssa.Instruction)
					if ld == nil {
						ld = c
					}
					defs, entry := reachingStores(al, path, c)
					if entry && len(defs) == 0 {
						bad = fmt.Sprintf("argument %d (%s) is read from %s, which nothing has been stored into yet", i, sc.Signature.Params().At(i).Name(), al.Comment)
					}
				}
			}
			if bad == "" {
				r.OK(rule, construct, "key built from the accessor's inputs", p.instrPos(c))
			} else {
				r.Fail(rule, construct, "the store key is built from a value that is still zero: "+bad+"; every caller is served the record stored under id 0 (or none), whatever it asked for", p.instrPos(c), nil)
			}
		}
	}
}

// rekeyRule: where a function removes an index entry and writes it again (Delete<X>For<Y> /
// Set<X>For<Y> of the same index) because the key changed, the two calls use different keys:
// deleting the very key that is set next leaves the OLD entry behind. Such a stale entry is
// not part of the export (indexes are rebuilt from the records at import), so the imported
// chain answers lookups differently from the exporting one.
func rekeyRule(p *Prog, r *Report, rule string, floor int) {
	r.Rule(rule, "an index entry that is deleted and written again in one function is deleted under its old key, not under the key just written", floor)
	for _, fn := range p.Funcs {
		if !isComdexFn(fn) || p.isAuxFn(fn) || len(fn.Blocks) == 0 || !strings.HasSuffix(fnPkgPath(fn), "/keeper") {
			continue
		}
		type site struct {
			c    ssa.CallInstruction
			name string
			keys []string
		}
		var dels, sets []site
		for _, c := range calls(fn) {
			ts := p.Callees(c)
			if len(ts) == 0 || !isComdexFn(ts[0]) || ts[0].Signature.Recv() == nil {
				continue
			}
			n := ts[0].Name()
			args := callArgs(c)
			if len(args) < 2 {
				continue
			}
			switch {
			case strings.HasPrefix(n, "Delete") && strings.Contains(n, "For"):
				var ks []string
				for _, a := range args[1:] {
					ks = append(ks, p.ExprKey(a))
				}
				dels = append(dels, site{c, strings.TrimPrefix(n, "Delete"), ks})
			case strings.HasPrefix(n, "Set") && strings.Contains(n, "For"):
				var ks []string
				for _, a := range args[1:] {
					ks = append(ks, p.ExprKey(a))
				}
				sets = append(sets, site{c, strings.TrimPrefix(n, "Set"), ks})
			}
		}
		k := 0
		for _, d := range dels {
			for _, s := range sets {
				if d.name != s.name || len(s.keys) < len(d.keys) {
					continue
				}
				// the delete precedes the set on some path
				if d.c.Block() != s.c.Block() {
					seen, _ := reach(fn, d.c.Block(), nil, nil)
					if !seen[s.c.Block()] {
						continue
					}
				} else if !before(d.c, s.c) {
					continue
				}
				k++
				r.Instance(rule)
				r.FuncsSeen[fname(fn)] = true
				construct := fmt.Sprintf("%s re-keys %s #%d", fname(fn), d.name, k)
				same := true
				for i := range d.keys {
					if d.keys[i] != s.keys[i] {
						same = false
					}
				}
				if same {
					r.Fail(rule, construct, "the index entry is deleted under the very key it is written under next: the entry under the previous key stays behind (it exists on the running chain and is gone after an export / import, so lookups answer differently)", p.instrPos(d.c), nil)
				} else {
					r.OK(rule, construct, "deleted under another key than the one written", p.instrPos(d.c))
				}
			}
		}
	}
}

// exportReaderUnconditional: in the code ExportGenesis reaches, a bulk reader is not skipped
// depending on what ANOTHER bulk reader returned (`if len(active) == 0 { continue }` in front
// of the read of the queued records): the records of the skipped prefix are missing from the
// export although they are in the store.
func exportReaderUnconditional(p *Prog, r *Report, rule, m string, exportReach map[*ssa.Function]bool) {
	isBulk := func(c ssa.CallInstruction) bool {
		ts := p.Callees(c)
		if len(ts) == 0 || !isComdexFn(ts[0]) || ts[0].Signature.Recv() == nil {
			return false
		}
		n := ts[0].Name()
		if !strings.HasPrefix(n, "GetAll") && !strings.HasPrefix(n, "GetAll") {
			return false
		}
		res := ts[0].Signature.Results()
		if res.Len() == 0 {
			return false
		}
		_, isSlice := res.At(0).Type().Underlying().(*types.Slice)
		return isSlice
	}
	var fns []*ssa.Function
	for f := range exportReach {
		if moduleOf(f) == m && len(f.Blocks) > 0 && !p.isAuxFn(f) {
			fns = append(fns, f)
		}
	}
	sort.Slice(fns, func(i, j int) bool { return fname(fns[i]) < fname(fns[j]) })
	for _, fn := range fns {
		var readers []ssa.CallInstruction
		for _, c := range calls(fn) {
			if isBulk(c) {
				readers = append(readers, c)
			}
		}
		if len(readers) < 2 {
			continue
		}
		loopHead := map[*ssa.BasicBlock]bool{}
		for _, l := range loopsOf(fn) {
			loopHead[l.Head] = true
		}
		for i, rd := range readers {
			r.Instance(rule)
			r.FuncsSeen[fname(fn)] = true
			construct := fmt.Sprintf("%s reader %s #%d", fname(fn), callName(rd), i+1)
			bad := ""
			for _, b := range fn.Blocks {
				if len(b.Instrs) == 0 || !b.Dominates(rd.Block()) || b == rd.Block() {
					continue
				}
				ifi, ok := b.Instrs[len(b.Instrs)-1].(*ssa.If)
				if !ok {
					continue
				}
				// the continuation test of a range loop (index < len(list)): iterating over one
				// reader's records and reading per record is the normal nesting
				if bo, isBo := ifi.Cond.(*ssa.BinOp); isBo && bo.Op == token.LSS {
					if lc, isC := bo.Y.(*ssa.Call); isC {
						if bi, isB := lc.Call.Value.(*ssa.Builtin); isB && bi.Name() == "len" {
							continue
						}
					}
				}
				_ = loopHead
				// rd sits under exactly one arm of the test
				// (a successor that leaves the arm - the loop header reached by `continue` - dominates
				// the reader too, but is not dominated by the test)
				arm := func(s *ssa.BasicBlock) bool {
					return b.Dominates(s) && s != b && (s == rd.Block() || s.Dominates(rd.Block()))
				}
				under0 := arm(b.Succs[0])
				under1 := arm(b.Succs[1])
				if under0 == under1 {
					continue
				}
				// does the condition derive from another bulk reader's result (its length, emptiness)?
				var leaves []ssa.Value
				var walk func(v ssa.Value, d int)
				walk = func(v ssa.Value, d int) {
					if v == nil || d > 6 {
						return
					}
					switch x := v.(type) {
					case *ssa.BinOp:
						walk(x.X, d+1)
						walk(x.Y, d+1)
					case *ssa.UnOp:
						walk(x.X, d+1)
					case *ssa.Call:
						if _, isB := x.Call.Value.(*ssa.Builtin); isB {
							for _, a := range x.Call.Args {
								walk(a, d+1)
							}
							return
						}
						leaves = append(leaves, v)
					default:
						leaves = append(leaves, v)
					}
				}
				walk(ifi.Cond, 0)
				for _, lv := range leaves {
					for _, o := range p.DeepOrigins(lv) {
						if o.Kind != "call" {
							continue
						}
						for _, other := range readers {
							if other != rd && ssa.CallInstruction(o.Call) == other {
								bad = callName(other)
							}
						}
					}
				}
			}
			if bad == "" {
				r.OK(rule, construct, "not skipped on another reader's result", p.instrPos(rd))
			} else {
				r.Fail(rule, construct, "this export reader runs only for some results of "+bad+": the records it would have read are left out of the export although they are in the store", p.instrPos(rd), nil)
			}
		}
	}
}

// keyParts: for a store-key constructor of a types package built as nested appends onto a
// package-level prefix, the prefix global and the sequence of appended components, each
// described by the parameter it is made from (identifier kind for uint64, type otherwise).
func (p *Prog) keyParts(f *ssa.Function) (glob string, parts []string, ok bool) {
	if len(f.Blocks) != 1 {
		return "", nil, false
	}
	var ret *ssa.Return
	for _, in := range f.Blocks[0].Instrs {
		if r, isR := in.(*ssa.Return); isR {
			ret = r
		}
	}
	if ret == nil || len(ret.Results) != 1 {
		return "", nil, false
	}
	var desc func(v ssa.Value) string
	desc = func(v ssa.Value) string {
		for d := 0; d < 8; d++ {
			switch x := v.(type) {
			case *ssa.Parameter:
				if isUint64(x.Type()) {
					if k := kindOfName(x.Name()); k != "" {
						return "u64:" + k
					}
					return "u64:" + strings.ToLower(x.Name())
				}
				return x.Type().String()
			case *ssa.Call:
				if len(x.Call.Args) == 0 {
					return "?"
				}
				v = x.Call.Args[0]
			case *ssa.ChangeType:
				v = x.X
			case *ssa.Convert:
				v = x.X
			case *ssa.MakeInterface:
				v = x.X
			case *ssa.Slice:
				v = x.X
			default:
				return "?"
			}
		}
		return "?"
	}
	var walk func(v ssa.Value, d int) bool
	walk = func(v ssa.Value, d int) bool {
		if d > 12 {
			return false
		}
		switch x := v.(type) {
		case *ssa.Call:
			if bi, isB := x.Call.Value.(*ssa.Builtin); isB && bi.Name() == "append" && len(x.Call.Args) == 2 {
				if !walk(x.Call.Args[0], d+1) {
					return false
				}
				parts = append(parts, desc(x.Call.Args[1]))
				return true
			}
			return false
		case *ssa.UnOp:
			if g, isG := x.X.(*ssa.Global); isG {
				glob = g.Name()
				return true
			}
			return false
		}
		return false
	}
	if !walk(ret.Results[0], 0) || glob == "" {
		return "", nil, false
	}
	return glob, parts, true
}

// keyLayoutRule: records written under K(prefix, a, b, c) are iterated with the scan prefix
// P(prefix, a): the components of every shorter constructor over the same prefix global are
// the leading components of the longer ones. A record key whose leading components differ
// from its scan prefix is written where no iterator (and so no export) finds it.
func keyLayoutRule(p *Prog, r *Report, rule string, floor int) {
	r.Rule(rule, "store keys over one prefix share their leading components with the scan prefix used to iterate them", floor)
	type kc struct {
		f     *ssa.Function
		parts []string
	}
	byGlob := map[string][]kc{}
	for _, f := range p.Funcs {
		if !isComdexFn(f) || f.Signature.Recv() != nil || !strings.HasSuffix(fnPkgPath(f), "/types") || !strings.Contains(f.Name(), "Key") || len(f.Blocks) == 0 {
			continue
		}
		g, parts, ok := p.keyParts(f)
		if !ok {
			continue
		}
		key := fnPkgPath(f) + "." + g
		byGlob[key] = append(byGlob[key], kc{f, parts})
	}
	var gs []string
	for g := range byGlob {
		gs = append(gs, g)
	}
	sort.Strings(gs)
	for _, g := range gs {
		fam := byGlob[g]
		sort.Slice(fam, func(i, j int) bool { return fname(fam[i].f) < fname(fam[j].f) })
		for _, short := range fam {
			if len(short.parts) == 0 {
				continue
			}
			for _, long := range fam {
				if long.f == short.f || len(long.parts) <= len(short.parts) {
					continue
				}
				known := true
				for _, d := range append(append([]string{}, short.parts...), long.parts[:len(short.parts)]...) {
					if d == "?" {
						known = false
					}
				}
				if !known {
					continue
				}
				r.Instance(rule)
				construct := fmt.Sprintf("%s is a prefix of %s", short.f.Name(), long.f.Name())
				same := true
				for i := range short.parts {
					if short.parts[i] != long.parts[i] {
						same = false
					}
				}
				if same {
					r.OK(rule, construct, "leading components agree ("+strings.Join(short.parts, ", ")+")", p.pos(long.f.Pos()))
				} else {
					r.Fail(rule, construct, fmt.Sprintf("%s builds (%s), %s begins with (%s): records written under the longer key are not found by a scan with the shorter one, so they are missing from every iteration and from the export", short.f.Name(), strings.Join(short.parts, ", "), long.f.Name(), strings.Join(long.parts[:len(short.parts)], ", ")), p.pos(long.f.Pos()), nil)
				}
			}
		}
	}
}

// freshDecodeTargetRule: a bulk reader decodes every stored value into a target that is
// fresh for that iteration. Proto decoding does not reset its target (repeated fields are
// appended, absent scalars keep the previous value): a target declared outside the loop
// carries one record's content into the next.
func freshDecodeTargetRule(p *Prog, r *Report, rule string, floor int) {
	r.Rule(rule, "a value decoded inside a loop is decoded into a target declared inside that loop", floor)
	for _, fn := range p.Funcs {
		if !isComdexFn(fn) || p.isAuxFn(fn) || len(fn.Blocks) == 0 || !strings.HasSuffix(fnPkgPath(fn), "/keeper") {
			continue
		}
		if strings.HasPrefix(fn.Name(), "Migrate") {
			continue // one-off upgrade migrations of an older store layout are not part of the round trip
		}
		loops := loopsOf(fn)
		if len(loops) == 0 {
			continue
		}
		n := 0
		for _, c := range calls(fn) {
			nm := ""
			if c.Common().IsInvoke() {
				nm = c.Common().Method.Name()
			} else if sc := c.Common().StaticCallee(); sc != nil {
				nm = sc.Name()
			}
			if nm != "MustUnmarshal" && nm != "Unmarshal" {
				continue
			}
			var inLoop *Loop
			for _, l := range loops {
				if l.Body[c.Block()] && (inLoop == nil || len(l.Body) < len(inLoop.Body)) {
					inLoop = l
				}
			}
			if inLoop == nil {
				continue
			}
			var target *ssa.Alloc
			for _, a := range c.Common().Args {
				if al, ok := a.(*ssa.Alloc); ok {
					target = al
				}
				if mi, ok := a.(*ssa.MakeInterface); ok {
					if al, ok2 := mi.X.(*ssa.Alloc); ok2 {
						target = al
					}
				}
			}
			if target == nil {
				continue
			}
			n++
			r.Instance(rule)
			r.FuncsSeen[fname(fn)] = true
			construct := fmt.Sprintf("%s decode #%d", fname(fn), n)
			fresh := inLoop.Body[target.Block()]
			if !fresh {
				// reset by a whole-value store inside the loop before the decode
				for _, ref := range *target.Referrers() {
					if st, ok := ref.(*ssa.Store); ok && st.Addr == ssa.Value(target) && inLoop.Body[st.Block()] {
						fresh = true
					}
				}
			}
			if fresh {
				r.OK(rule, construct, "target is fresh in every iteration", p.instrPos(c))
			} else {
				r.Fail(rule, construct, "the decode target is declared outside the loop and never reset: proto decoding appends repeated fields and keeps absent scalars, so every record after the first is read with parts of the previous ones (and exported that way)", p.instrPos(c), nil)
			}
		}
	}
}
