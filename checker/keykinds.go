package main

import (
	"fmt"
	"go/types"
	"sort"
	"strings"

	"golang.org/x/tools/go/ssa"
)

// keyArgAgreement: a contradiction rule over the store-key constructors of the types
// packages (functions named *Key returning []byte with two or more uint64 parameters).
// Parameter names of these constructors are not trusted; instead all call sites of one
// constructor are compared with each other: when the identifier kinds of the arguments are
// known at two sites and one site passes them in a different order than the others, records
// written there are not found by the readers (the genesis-only setters are such writers).
func keyArgAgreement(p *Prog, r *Report, rule string, floor int) {
	r.Rule(rule, "all call sites of a store-key constructor pass their identifier kinds in the same order", floor)
	type site struct {
		c    ssa.CallInstruction
		fn   *ssa.Function
		seq  []string
		full bool
	}
	byCtor := map[*ssa.Function][]site{}
	for _, fn := range p.Funcs {
		if !isComdexFn(fn) || p.isAuxFn(fn) || len(fn.Blocks) == 0 {
			continue
		}
		for _, c := range calls(fn) {
			sc := c.Common().StaticCallee()
			if sc == nil || !isComdexFn(sc) || sc.Signature.Recv() != nil || !strings.HasSuffix(fnPkgPath(sc), "/types") || !strings.HasSuffix(sc.Name(), "Key") {
				continue
			}
			res := sc.Signature.Results()
			if res.Len() != 1 {
				continue
			}
			if sl, ok := res.At(0).Type().Underlying().(*types.Slice); !ok || !types.Identical(sl.Elem(), types.Typ[types.Byte]) {
				continue
			}
			nU := 0
			for i := 0; i < sc.Signature.Params().Len(); i++ {
				if isUint64(sc.Signature.Params().At(i).Type()) {
					nU++
				}
			}
			if nU < 2 {
				continue
			}
			var seq []string
			full := true
			for i, a := range c.Common().Args {
				if i >= sc.Signature.Params().Len() || !isUint64(sc.Signature.Params().At(i).Type()) {
					continue
				}
				k := p.argKind(a)
				if k == "" {
					full = false
				}
				seq = append(seq, k)
			}
			byCtor[sc] = append(byCtor[sc], site{c, fn, seq, full})
		}
	}
	var ctors []*ssa.Function
	for f := range byCtor {
		ctors = append(ctors, f)
	}
	sort.Slice(ctors, func(i, j int) bool { return fname(ctors[i]) < fname(ctors[j]) })
	for _, ctor := range ctors {
		var known []site
		for _, s := range byCtor[ctor] {
			if s.full {
				known = append(known, s)
			}
		}
		if len(known) < 2 {
			continue
		}
		count := map[string]int{}
		for _, s := range known {
			count[strings.Join(s.seq, ",")]++
		}
		// the reference order: the one most sites use (ties: no verdict)
		best, bestN, tie := "", 0, false
		for k, n := range count {
			if n > bestN {
				best, bestN, tie = k, n, false
			} else if n == bestN {
				tie = true
			}
		}
		n := map[string]int{}
		for _, s := range known {
			r.Instance(rule)
			base := fmt.Sprintf("%s -> %s", fname(s.fn), ctor.Name())
			n[base]++
			construct := base
			if n[base] > 1 {
				construct = fmt.Sprintf("%s #%d", base, n[base])
			}
			got := strings.Join(s.seq, ",")
			if got == best || tie || !isPermutation(got, best) {
				r.OK(rule, construct, "kinds ("+got+") as at the other sites", p.instrPos(s.c))
				continue
			}
			r.Fail(rule, construct, fmt.Sprintf("this site builds the key from (%s) while %d other site(s) build it from (%s): what is written here is not found under the key the others read (or the other way round)", got, bestN, best), p.instrPos(s.c), nil)
		}
	}
}

func isPermutation(a, b string) bool {
	x, y := strings.Split(a, ","), strings.Split(b, ",")
	if len(x) != len(y) {
		return false
	}
	sort.Strings(x)
	sort.Strings(y)
	for i := range x {
		if x[i] != y[i] {
			return false
		}
	}
	return a != b
}

// accessorKeyRule: a keeper reader / deleter (Get*, Has*, Delete*) looks its record up under
// a key built from what it was asked for: every identifier handed to the key constructor
// comes from the accessor's parameters (or from a record it loaded), never from a value that
// is still zero at that point (a field of the not-yet-filled named result is the usual slip).
func accessorKeyRule(p *Prog, r *Report, rule string, mods map[string]bool, floor int) {
	r.Rule(rule, "readers and deleters build their store key from their parameters, not from a still-zero value", floor)
	var fns []*ssa.Function
	for _, fn := range p.Funcs {
		if !mods[moduleOf(fn)] || p.isAuxFn(fn) || len(fn.Blocks) == 0 || fn.Signature.Recv() == nil || !strings.HasSuffix(fnPkgPath(fn), "/keeper") {
			continue
		}
		n := fn.Name()
		if strings.HasPrefix(n, "Get") || strings.HasPrefix(n, "Has") || strings.HasPrefix(n, "Delete") {
			fns = append(fns, fn)
		}
	}
	sort.Slice(fns, func(i, j int) bool { return fname(fns[i]) < fname(fns[j]) })
	for _, fn := range fns {
		k := 0
		for _, c := range calls(fn) {
			sc := c.Common().StaticCallee()
			if sc == nil || !isComdexFn(sc) || sc.Signature.Recv() != nil || !strings.HasSuffix(fnPkgPath(sc), "/types") || !strings.Contains(sc.Name(), "Key") {
				continue
			}
			res := sc.Signature.Results()
			if res.Len() != 1 {
				continue
			}
			if sl, ok := res.At(0).Type().Underlying().(*types.Slice); !ok || !types.Identical(sl.Elem(), types.Typ[types.Byte]) {
				continue
			}
			if len(c.Common().Args) == 0 {
				continue
			}
			k++
			r.Instance(rule)
			r.FuncsSeen[fname(fn)] = true
			construct := fmt.Sprintf("%s -> %s #%d", fname(fn), sc.Name(), k)
			bad := ""
			for i, a := range c.Common().Args {
				for _, o := range p.Origins(a) {
					if o.Kind != "alloc" {
						continue
					}
					al, isA := o.Val.(*ssa.Alloc)
					if !isA {
						continue
					}
					// a local that nothing has been stored into on the way here: its zero value
					path := o.Path
					ld, _ := a.(ssa.Instruction)
					if ld == nil {
						ld = c
					}
					defs, entry := reachingStores(al, path, c)
					if entry && len(defs) == 0 {
						bad = fmt.Sprintf("argument %d (%s) is read from %s, which nothing has been stored into yet", i, sc.Signature.Params().At(i).Name(), al.Comment)
					}
				}
			}
			if bad == "" {
				r.OK(rule, construct, "key built from the accessor's inputs", p.instrPos(c))
			} else {
				r.Fail(rule, construct, "the store key is built from a value that is still zero: "+bad+"; every caller is served the record stored under id 0 (or none), whatever it asked for", p.instrPos(c), nil)
			}
		}
	}
}
