package main

import (
	"fmt"
	"go/types"
	"os"
	"sort"
	"strings"

	"golang.org/x/tools/go/ssa"
)

// Record linkage ("foreign key") rule. A message handler that loads two records under two
// independent ids of the message (the product named by msg.ExtendedPairVaultId and the
// vault named by msg.UserVaultId) and then books on one with the parameters of the other
// must tie them together: when record B carries a field naming the kind of record A
// (Vault.ExtendedPairVaultID, Locker.AppId, ...), the handler cannot succeed without an
// equality test between B.<field> and A's own id (or the message field A was loaded under).
// Instances are discovered from the handlers themselves; nothing is tabulated by hand.

type msgLoad struct {
	calls  []*ssa.Call // every load of this record type under the same message fields
	call   *ssa.Call
	typ    *types.Named
	tname  string
	kind   string
	keys   []string // message fields the record was loaded under
	keyVal []ssa.Value
}

// ownIDField: the field of record type t holding its own id.
func ownIDField(t *types.Named) string {
	st, ok := t.Underlying().(*types.Struct)
	if !ok {
		return ""
	}
	for _, n := range []string{"Id", "ID", "LockerId", "LendingID", "BorrowingID", "AuctionId", "PoolId"} {
		for i := 0; i < st.NumFields(); i++ {
			if st.Field(i).Name() == n && isUint64(st.Field(i).Type()) {
				return n
			}
		}
	}
	return ""
}

// messageLoads: record loads of fn keyed purely by fields of the message.
func (p *Prog) messageLoads(fn *ssa.Function) []msgLoad {
	mp := msgParam(fn)
	if mp == nil {
		return nil
	}
	var out []msgLoad
	// origins of a key argument, seen from the handler: inside a helper (virtual inlining) a
	// parameter stands for what the handler passes
	var keyOrigins func(a ssa.Value, bind map[*ssa.Parameter]ssa.Value, d int) ([]Origin, bool)
	keyOrigins = func(a ssa.Value, bind map[*ssa.Parameter]ssa.Value, d int) ([]Origin, bool) {
		var res []Origin
		os := p.Origins(a)
		if len(os) == 0 {
			return nil, false
		}
		for _, o := range os {
			if o.Kind == "param" {
				if pr, isP := o.Val.(*ssa.Parameter); isP {
					if pr == mp && len(o.Path) > 0 {
						res = append(res, o)
						continue
					}
					if arg, bound := bind[pr]; bound && d < 3 {
						sub, ok := keyOrigins(arg, nil, d+1) // the argument is a handler value
						if !ok {
							return nil, false
						}
						for _, so := range sub {
							so.Path = append(append([]string{}, so.Path...), o.Path...)
							res = append(res, so)
						}
						continue
					}
				}
			}
			return nil, false
		}
		return res, true
	}
	type scope struct {
		f    *ssa.Function
		bind map[*ssa.Parameter]ssa.Value
	}
	scopes := []scope{{fn, nil}}
	handlers := p.handlerSet()
	for _, c := range calls(fn) {
		h := c.Common().StaticCallee()
		if h == nil {
			continue
		}
		h = p.unwrap(h)
		if h == nil || !isComdexFn(h) || len(h.Blocks) == 0 || handlers[h] || h == fn || moduleOf(h) != moduleOf(fn) || strings.HasPrefix(h.Name(), "Get") {
			continue
		}
		bind := map[*ssa.Parameter]ssa.Value{}
		args := c.Common().Args
		for i, pr := range h.Params {
			if i < len(args) {
				bind[pr] = args[i]
			}
		}
		scopes = append(scopes, scope{h, bind})
	}
	for _, sc := range scopes {
		for _, c := range calls(sc.f) {
			call, ok := c.(*ssa.Call)
			if !ok {
				continue
			}
			ts := p.Callees(c)
			if len(ts) == 0 || !isComdexFn(ts[0]) || ts[0].Signature.Recv() == nil {
				continue
			}
			if !strings.HasPrefix(ts[0].Name(), "Get") {
				continue
			}
			t := call.Type()
			if tup, ok := t.(*types.Tuple); ok {
				if tup.Len() == 0 {
					continue
				}
				t = tup.At(0).Type()
			}
			nt := namedOf(t)
			if nt == nil {
				continue
			}
			if _, isStruct := nt.Underlying().(*types.Struct); !isStruct {
				continue
			}
			kind := kindOfType(nt.Obj().Name())
			if kind == "" {
				continue
			}
			var keys []string
			var keyVals []ssa.Value
			pure := true
			nID := 0
			for _, a := range callArgs(c) {
				if !isUint64(a.Type()) {
					continue
				}
				nID++
				os, okk := keyOrigins(a, sc.bind, 0)
				if !okk {
					pure = false
				}
				for _, o := range os {
					keys = append(keys, strings.Join(o.Path, "."))
				}
				keyVals = append(keyVals, a)
			}
			if !pure || nID == 0 {
				continue
			}
			sort.Strings(keys)
			out = append(out, msgLoad{call: call, typ: nt, tname: nt.Obj().Name(), kind: kind, keys: keys, keyVal: keyVals})
		}
	}
	return out
}

// linkFields: the uint64 fields of record type b whose name says they hold the id of a
// record of the given kind (never b's own id field).
func linkFields(b *types.Named, kind string) []string {
	st, ok := b.Underlying().(*types.Struct)
	if !ok {
		return nil
	}
	own := ownIDField(b)
	var out []string
	for i := 0; i < st.NumFields(); i++ {
		f := st.Field(i)
		if !isUint64(f.Type()) || f.Name() == own {
			continue
		}
		if k := kindOfName(f.Name()); k != "" && k == kind {
			out = append(out, f.Name())
		}
	}
	return out
}

func recordLinkRule(p *Prog, r *Report, rule string, mods map[string]bool, floor int) {
	r.Rule(rule, "records loaded under independent message ids are tied together: B.<id of A> == A.id is tested before the handler can succeed", floor)
	moves := p.bankMay(func(e *BankEffect) bool { return true })
	for _, e := range p.MsgHandlers() {
		fn := e.Fn
		if !mods[moduleOf(fn)] || len(fn.Blocks) == 0 || !moves.Fn(fn) {
			continue // handlers that move no coins keep no books the mix-up could unbalance
		}
		raw := p.messageLoads(fn)
		var loads []msgLoad
		for _, l := range raw {
			merged := false
			for i := range loads {
				if loads[i].tname == l.tname && strings.Join(loads[i].keys, ",") == strings.Join(l.keys, ",") {
					loads[i].calls = append(loads[i].calls, l.call)
					merged = true
				}
			}
			if !merged {
				l.calls = []*ssa.Call{l.call}
				loads = append(loads, l)
			}
		}
		if len(loads) < 2 {
			continue
		}
		seen := map[string]bool{}
		for _, A := range loads {
			for _, B := range loads {
				if A.call == B.call || A.tname == B.tname {
					continue
				}
				if strings.Join(A.keys, ",") == strings.Join(B.keys, ",") {
					continue // loaded under the same message field(s): not independent
				}
				for _, lf := range linkFields(B.typ, A.kind) {
					construct := fmt.Sprintf("%s %s.%s ~ %s(msg.%s)", fname(fn), B.tname, lf, A.tname, strings.Join(A.keys, ","))
					if seen[construct] {
						continue
					}
					seen[construct] = true
					r.Instance(rule)
					r.FuncsSeen[fname(fn)] = true
					// is B.lf used at all as the link? when A is keyed by (x, y) with several ids only the
					// id of A's own kind matters
					A, B, lf := A, B, lf
					aOwn := ownIDField(A.typ)
					fromCall := func(v ssa.Value, call *ssa.Call) bool {
						for _, o := range p.Origins(v) {
							if o.Kind == "call" && o.Call == call {
								return true
							}
						}
						return false
					}
					// v is field fld of the record returned by call (through locals and named results)
					fieldOfCall := func(v ssa.Value, cs []*ssa.Call, fld string) bool {
						if fld == "" {
							return false
						}
						isOne := func(c *ssa.Call) bool {
							for _, x := range cs {
								if x == c {
									return true
								}
							}
							return false
						}
						if _, f, base, ok := fieldRead(v); ok && f == fld {
							for _, c := range cs {
								if fromCall(base, c) {
									return true
								}
							}
						}
						os := p.Origins(v)
						if len(os) == 0 {
							return false
						}
						for _, o := range os {
							if o.Kind != "call" || !isOne(o.Call) || o.Index != 0 || len(o.Path) != 1 || o.Path[0] != fld {
								return false
							}
						}
						return true
					}
					isBLink := func(v ssa.Value) bool { return fieldOfCall(v, B.calls, lf) }
					isAID := func(v ssa.Value) bool {
						if fieldOfCall(v, A.calls, aOwn) {
							return true
						}
						// the message field(s) A was loaded under
						os := p.Origins(v)
						if len(os) == 0 {
							return false
						}
						for _, o := range os {
							if o.Kind != "param" || len(o.Path) == 0 {
								return false
							}
							hit := false
							for _, k := range A.keys {
								if strings.Join(o.Path, ".") == k && kindOfName(o.Path[len(o.Path)-1]) == A.kind {
									hit = true
								}
							}
							if !hit {
								return false
							}
						}
						return true
					}
					// inside a helper the records are parameters: match by record type and field
					fromParam := func(v ssa.Value) bool {
						os := p.Origins(v)
						if len(os) == 0 {
							return false
						}
						for _, o := range os {
							if o.Kind != "param" {
								return false
							}
						}
						return true
					}
					isBLinkP := func(v ssa.Value) bool {
						t, f, base, ok := fieldRead(v)
						return ok && t == B.tname && f == lf && fromParam(base)
					}
					isAIDP := func(v ssa.Value) bool {
						if t, f, base, ok := fieldRead(v); ok && t == A.tname && f == aOwn && aOwn != "" && fromParam(base) {
							return true
						}
						// an id handed to the helper: which id it is is the call site's business (the
						// identifier-kind rule checks the argument against the parameter's name)
						if isUint64(v.Type()) && fromParam(v) {
							if k := p.argKind(v); k == "" || compatibleKinds(k, A.kind) || (k == "pair" && A.kind == "extpair") {
								return true
							}
						}
						return false
					}
					// inside a helper that loads the records itself
					isAIDH := func(v ssa.Value) bool { return fieldOfCall(v, A.calls, aOwn) }
					g := &GuardSpec{
						Name: fmt.Sprintf("%s.%s == %s id", B.tname, lf, A.tname),
						Local: func(f *ssa.Function, cond ssa.Value) (bool, bool) {
							a := p.Atom(cond)
							if os.Getenv("LINKDBG") != "" {
								fmt.Fprintf(os.Stderr, "LINKDBG %s in %s: cmp=%v op=%s\n", construct, fname(f), a.IsCmp, a.Op)
								if a.IsCmp && a.X != nil && a.Y != nil {
									fmt.Fprintf(os.Stderr, "   X: blink=%v aidh=%v aidp=%v  Y: blink=%v aidh=%v aidp=%v\n", isBLink(a.X), isAIDH(a.X), isAIDP(a.X), isBLink(a.Y), isAIDH(a.Y), isAIDP(a.Y))
								}
							}
							if !a.IsCmp || (a.Op != "==" && a.Op != "!=") || a.X == nil || a.Y == nil {
								return false, false
							}
							if f == fn {
								if !((isBLink(a.X) && isAID(a.Y)) || (isBLink(a.Y) && isAID(a.X))) {
									return false, false
								}
							} else if !(((isBLinkP(a.X) || isBLink(a.X)) && (isAIDP(a.Y) || isAIDH(a.Y))) || ((isBLinkP(a.Y) || isBLink(a.Y)) && (isAIDP(a.X) || isAIDH(a.X)))) {
								return false, false
							}
							eq := a.Op == "=="
							if a.Neg {
								eq = !eq
							}
							if eq {
								return true, false
							}
							return false, true
						},
					}
					ok, _, w := p.guardedTargets(g, fn, nil, 0)
					if ok {
						r.OK(rule, construct, "handler cannot succeed without "+g.Name, p.instrPos(B.call))
					} else {
						r.Fail(rule, construct, fmt.Sprintf("the handler loads a %s under msg.%s and a %s under msg.%s and can succeed without testing that the %s belongs to that %s (%s.%s against its id): a message combining the ids of two unrelated records is accepted and books one with the parameters of the other", A.tname, strings.Join(A.keys, ","), B.tname, strings.Join(B.keys, ","), B.tname, A.tname, B.tname, lf), p.instrPos(B.call), w)
					}
				}
			}
		}
	}
}
