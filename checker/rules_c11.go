package main

import (
	"fmt"
	"sort"
	"strings"

	"golang.org/x/tools/go/ssa"
)

func init() { register("C11", rulesC11) }

// recordFieldOrigin: every deep origin of v is a field (one of fields) of a record of
// one of the given types, read from a parameter or a reader call (stored state).
func (p *Prog) fromRecordFields(v ssa.Value, typs map[string]bool, fields map[string]bool) bool {
	n := 0
	for _, o := range p.DeepOrigins(v) {
		if o.Kind == "const" {
			continue
		}
		hit := false
		for i := len(o.Path) - 1; i >= 0; i-- {
			if fields[o.Path[i]] {
				sub := o
				sub.Path = o.Path[:i+1]
				if typs[pathBaseTypeName(sub)] {
					hit = true
					break
				}
			}
		}
		if !hit {
			return false
		}
		n++
	}
	return n > 0
}

func rulesC11(p *Prog, r *Report) {
	r.Explanation = "Decides the structural part of 'bidders' funds are safe' for the three English-auction implementations (v1 surplus, v1 debt, V2 english) and the limit-bid API: (R11.1) a new bid is taken into custody only behind a one-sided comparison between the offered amount and a value derived from the stored standing bid (and the bid factor), in the direction of the auction type; (R11.2) when a previous bid exists, taking the new bid is followed on every success path by a refund whose recipient and coins both come from the stored auction record; skipping it is possible only through a test of the stored status / active bid; (R11.3) on close, coins paid to the stored bidder are the stored standing bid (refund) or the stored lot, nothing else; (R11.4) custody release rule: coins leaving auction custody for an amount or denomination named in the message need a comparison requested <= recorded amount and an equality with the recorded denomination; (R11.5) limit-bid books: the depositor record and the protocol total move together and by the amount moved in custody; the record is looked up under the key it is stored under. Totals over bid sequences are NOT decided."
	r.Assumptions = []string{"amount equality is expression identity", "SDK runTx atomicity"}
	auctionMod := modConst(p, "x/auction/types")
	auctionV2Mod := modConst(p, "x/auctionsV2/types")
	isAuctionMod := func(v ssa.Value) bool { m := moduleName(v); return m == auctionMod || m == auctionV2Mod }

	type impl struct {
		place, close *ssa.Function
		recTypes     map[string]bool
		bidFields    map[string]bool // stored standing bid
		lotFields    map[string]bool
		bidderFields map[string]bool
	}
	impls := []impl{
		{p.MustFunc("x/auction/keeper.Keeper.PlaceSurplusAuctionBid"), p.MustFunc("x/auction/keeper.Keeper.closeSurplusAuction"),
			map[string]bool{"SurplusAuction": true, "SurplusBiddings": true}, map[string]bool{"Bid": true}, map[string]bool{"SellToken": true}, map[string]bool{"Bidder": true}},
		{p.MustFunc("x/auction/keeper.Keeper.PlaceDebtAuctionBid"), p.MustFunc("x/auction/keeper.Keeper.closeDebtAuction"),
			map[string]bool{"DebtAuction": true, "DebtBiddings": true}, map[string]bool{"ExpectedUserToken": true, "ExpectedMintedToken": true, "AuctionedToken": true}, map[string]bool{"ExpectedMintedToken": true, "AuctionedToken": true}, map[string]bool{"Bidder": true}},
		{p.MustFunc("x/auctionsV2/keeper.Keeper.PlaceEnglishAuctionBid"), p.MustFunc("x/auctionsV2/keeper.Keeper.CloseEnglishAuction"),
			map[string]bool{"Auction": true, "Bid": true}, map[string]bool{"DebtToken": true, "CollateralToken": true}, map[string]bool{"CollateralToken": true, "DebtToken": true}, map[string]bool{"BidderAddress": true}},
	}

	r.Rule("R11.1", "new bid taken only behind a one-sided comparison with a value derived from the stored standing bid", 3)
	r.Rule("R11.2", "outbid bidder refunded from the stored record on every success path with a previous bid", 3)
	r.Rule("R11.3", "coins paid to the stored bidder are the stored standing bid or the stored lot", 5)
	for _, im := range impls {
		fn := im.place
		name := fname(fn)
		r.FuncsSeen[name] = true
		r.FuncsSeen[fname(im.close)] = true
		// the bid parameter
		var bidParam *ssa.Parameter
		for _, pr := range fn.Params {
			if strings.HasSuffix(pr.Type().String(), "types.Coin") && strings.Contains(strings.ToLower(pr.Name()), "bid") {
				bidParam = pr
			}
		}
		if bidParam == nil {
			analysisError("anchor unresolved: bid parameter of %s", name)
		}
		isOffer := func(v ssa.Value) bool {
			os := p.DeepOrigins(v)
			if len(os) == 0 {
				return false
			}
			for _, o := range os {
				if o.Kind != "param" {
					return false
				}
				if o.Val == bidParam {
					continue
				}
				// inside a check extracted into a helper the offer is the helper's parameter: every
				// call of that helper from the bid function must pass the bid
				pr, isP := o.Val.(*ssa.Parameter)
				if !isP || pr.Parent() == nil || pr.Parent() == fn {
					return false
				}
				idx := paramIndex(pr)
				bound := false
				for _, cs := range p.CallSitesOf(pr.Parent()) {
					if cs.Parent() != fn {
						continue
					}
					args := cs.Common().Args
					if idx < 0 || idx >= len(args) {
						return false
					}
					for _, o2 := range p.DeepOrigins(args[idx]) {
						if !(o2.Kind == "param" && o2.Val == bidParam) {
							return false
						}
					}
					bound = true
				}
				if !bound {
					return false
				}
			}
			return true
		}
		derivedFromStanding := func(v ssa.Value) (bool, string) {
			if !p.fromRecordFieldsLoose(v, im.recTypes, im.bidFields) {
				return false, ""
			}
			// outermost arithmetic: Add => lower bound, Sub => upper bound
			if op, _, _, ok := addSubOf(v); ok {
				return true, op
			}
			if ph, ok := v.(*ssa.Phi); ok {
				ops := map[string]bool{}
				for _, e := range ph.Edges {
					if op, _, _, ok := addSubOf(e); ok {
						ops[op] = true
					}
				}
				if len(ops) == 1 {
					for k := range ops {
						return true, k
					}
				}
			}
			return true, ""
		}
		g := &GuardSpec{Name: "offer vs standing bid comparison", Local: func(f *ssa.Function, cond ssa.Value) (bool, bool) {
			x, y, onT, onF, ok := p.CmpRel(cond)
			if !ok || x == nil || y == nil {
				return false, false
			}
			var other ssa.Value
			switch {
			case isOffer(x):
				other = y
			case isOffer(y):
				other = x
				onT, onF = onT.mirror(), onF.mirror()
			default:
				return false, false
			}
			okD, op := derivedFromStanding(other)
			if !okD {
				return false, false
			}
			pass := func(rel Rel) bool {
				switch op {
				case "Add":
					return rel.subsetOf(RGE)
				case "Sub":
					return rel.subsetOf(RLE)
				}
				return rel.subsetOf(RGE) || rel.subsetOf(RLE)
			}
			return pass(onT), pass(onF)
		}}
		take := p.bankMay(func(e *BankEffect) bool { return e.Op == "AccToMod" && isAuctionMod(e.To) })
		r.Instance("R11.1")
		ug := p.NewUnguarded(g, take)
		if bad, chain := ug.Fn(fn); bad {
			r.Fail("R11.1", name, "a bid can be taken into custody without having been compared (in one direction) with a value derived from the stored standing bid: a non-improving bid can replace the standing one", p.pos(fn.Pos()), chain)
		} else {
			r.OK("R11.1", name, "bid taken only behind the bid-factor comparison", p.pos(fn.Pos()))
		}

		// R11.2 refund
		r.Instance("R11.2")
		var takeBlocks, refundBlocks []*ssa.BasicBlock
		refundProvenance := ""
		for _, vs := range p.virtualSites(fn, nil) { // same-module helpers count at their call site
			if vs.call == nil {
				continue
			}
			c := vs.call
			be := bankEffect(c)
			if be == nil {
				continue
			}
			if be.Op == "AccToMod" && isAuctionMod(be.To) {
				takeBlocks = append(takeBlocks, vs.anchor.Block())
			}
			if be.Op == "ModToAcc" && isAuctionMod(be.From) {
				recOK := p.fromRecordFieldsLoose(be.To, im.recTypes, im.bidderFields)
				coinOK := p.fromRecordFieldsLoose(be.Coins, im.recTypes, im.bidFields)
				if recOK && coinOK && vs.must {
					refundBlocks = append(refundBlocks, vs.anchor.Block())
				} else {
					refundProvenance = fmt.Sprintf("%s: recipient from stored bidder=%v, coins from stored standing bid=%v", p.instrPos(c), recOK, coinOK)
				}
			}
		}
		switch {
		case len(refundBlocks) == 0:
			msg := "taking a new bid is not accompanied by any refund whose recipient is the stored bidder and whose coins are the stored standing bid"
			if refundProvenance != "" {
				msg += " (found " + refundProvenance + ")"
			}
			r.Fail("R11.2", name, msg, p.pos(fn.Pos()), nil)
		default:
			// from the take, a success exit avoiding the refund is allowed only through a test of stored status fields
			blocked := map[*ssa.BasicBlock]bool{}
			for _, b := range refundBlocks {
				blocked[b] = true
			}
			cut := map[Edge]bool{}
			for _, b := range fn.Blocks {
				ifi, ok := b.Instrs[len(b.Instrs)-1].(*ssa.If)
				if !ok {
					continue
				}
				if p.condReadsField(ifi.Cond, map[string]bool{"AuctionStatus": true, "ActiveBiddingId": true, "BiddingIds": true, "Bidder": true}) {
					// the edge that skips the refund is the "no previous bid" outcome: both edges of such a test are
					// acceptable ways past the refund block
					cut[Edge{b, 0}] = true
					cut[Edge{b, 1}] = true
				}
			}
			bad := false
			var wit []string
			for _, tb := range takeBlocks {
				seen, par := reach(fn, tb, cut, blocked)
				for _, t := range p.successTargets(nil, fn, 0) {
					if seen[t] {
						bad = true
						wit = p.witness(par, t)
					}
				}
			}
			if bad {
				r.Fail("R11.2", name, "after taking the new bid a success exit is reachable without refunding the stored bidder and without any test of the stored auction status", p.pos(fn.Pos()), wit)
			} else {
				r.OK("R11.2", name, "refund (stored bidder, stored bid) on every success path with a previous bid", p.pos(fn.Pos()))
			}
		}

		// R11.3 close pays only the stored bid / lot to the stored bidder
		n := 0
		for _, c := range calls(im.close) {
			be := bankEffect(c)
			if be == nil || be.Op != "ModToAcc" || !isAuctionMod(be.From) {
				continue
			}
			n++
			r.Instance("R11.3")
			construct := fmt.Sprintf("%s payout #%d", fname(im.close), n)
			recOK := p.fromRecordFieldsLoose(be.To, im.recTypes, im.bidderFields)
			if !recOK && p.fromRecordFieldsLoose(be.To, map[string]bool{"LockedVault": true}, map[string]bool{"ExternalKeeperAddress": true}) &&
				p.fromRecordFieldsLoose(be.Coins, im.recTypes, im.bidFields) {
				// proceeds of an externally initiated auction go back to the external initiator (C10), not to a bidder
				r.OK("R11.3", construct, "proceeds returned to the stored external initiator", p.instrPos(c))
				continue
			}
			allowed := map[string]bool{}
			for k := range im.bidFields {
				allowed[k] = true
			}
			for k := range im.lotFields {
				allowed[k] = true
			}
			coinOK := p.fromRecordFieldsLoose(be.Coins, im.recTypes, allowed)
			if recOK && coinOK {
				r.OK("R11.3", construct, "paid to the stored bidder from the stored bid / lot", p.instrPos(c))
			} else {
				r.Fail("R11.3", construct, fmt.Sprintf("at close, coins leave auction custody whose recipient (stored bidder: %v) or amount (stored standing bid or lot: %v) does not come from the auction record: the bidder is not made whole or someone else is paid", recOK, coinOK), p.instrPos(c), nil)
			}
		}
	}

	// R11.4 custody release rule for message-named amounts / denoms (auctionsV2 limit bids) -----
	r.Rule("R11.4", "release of a message-named amount needs requested <= recorded and denom == recorded denom", 1)
	limitFns := []*ssa.Function{
		p.MustFunc("x/auctionsV2/keeper.Keeper.WithdrawLimitAuctionBid"),
		p.MustFunc("x/auctionsV2/keeper.Keeper.CancelLimitAuctionBid"),
		p.MustFunc("x/auctionsV2/keeper.Keeper.DepositLimitAuctionBid"),
	}
	for _, fn := range limitFns {
		var amountParam *ssa.Parameter
		for _, pr := range fn.Params {
			if strings.HasSuffix(pr.Type().String(), "types.Coin") {
				amountParam = pr
			}
		}
		releases := p.bankMay(func(e *BankEffect) bool {
			if e.Op != "ModToAcc" || !isAuctionMod(e.From) || amountParam == nil {
				return false
			}
			for _, o := range p.DeepOrigins(e.Coins) {
				if o.Kind == "param" && o.Val == amountParam {
					return true
				}
			}
			return false
		})
		direct := false
		for _, c := range calls(fn) {
			if be := bankEffect(c); be != nil && releases.pred(c, nil) {
				direct = true
			}
		}
		if !direct {
			continue
		}
		r.FuncsSeen[fname(fn)] = true
		fromAmount := func(v ssa.Value, field string) bool {
			for _, o := range p.DeepOrigins(v) {
				if o.Kind == "param" && o.Val == amountParam && len(o.Path) > 0 && o.Path[len(o.Path)-1] == field {
					return true
				}
			}
			return false
		}
		lob := map[string]bool{"LimitOrderBid": true}
		dtok := map[string]bool{"DebtToken": true}
		isRecAmt := func(v ssa.Value) bool { return p.fromRecordFieldsLoose(v, lob, dtok) && !fromAmount(v, "Amount") }
		amtG := p.cmpGuard("requested amount <= recorded deposit", func(v ssa.Value) bool { return fromAmount(v, "Amount") }, isRecAmt, RLE)
		denomG := &GuardSpec{Name: "requested denom == recorded denom", Local: func(f *ssa.Function, cond ssa.Value) (bool, bool) {
			a := p.Atom(cond)
			if !a.IsCmp || (a.Op != "==" && a.Op != "!=") || a.X == nil || a.Y == nil {
				return false, false
			}
			isReq := func(v ssa.Value) bool { return fromAmount(v, "Denom") }
			isRec := func(v ssa.Value) bool { return p.fromRecordFieldsLoose(v, lob, dtok) && !isReq(v) }
			if !((isReq(a.X) && isRec(a.Y)) || (isReq(a.Y) && isRec(a.X))) {
				return false, false
			}
			eq := a.Op == "=="
			if a.Neg {
				eq = !eq
			}
			if eq {
				return true, false
			}
			return false, true
		}}
		for _, g := range []*GuardSpec{amtG, denomG} {
			r.Instance("R11.4")
			construct := fname(fn) + " " + g.Name
			ug := p.NewUnguarded(g, releases)
			if bad, chain := ug.Fn(fn); bad {
				r.Fail("R11.4", construct, "coins leave auction custody for an amount / denomination taken from the message without "+g.Name+": a depositor can withdraw more than, or something other than, their deposit", p.pos(fn.Pos()), chain)
			} else {
				r.OK("R11.4", construct, "release only behind "+g.Name, p.pos(fn.Pos()))
			}
		}
	}

	{
		skip := map[*ssa.Function]bool{}
		for _, f := range limitFns {
			skip[f] = true
		}
		limitSweepTwins(p, r, skip)
	}
	// R11.5 limit-bid books -------------------------------------------------------------------
	r.Rule("R11.5", "limit-bid record and protocol total move together, by the custody amount, under one key", 6)
	getLB := p.MustFunc("x/auctionsV2/keeper.Keeper.GetUserLimitBidData")
	setLB := p.MustFunc("x/auctionsV2/keeper.Keeper.SetUserLimitBidData")
	for _, fn := range limitFns {
		name := fname(fn)
		r.FuncsSeen[name] = true
		// (a) twin amounts: stores to LimitOrderBid.DebtToken(.Amount) and LimitBidProtocolData.BidValue vs custody
		var inAmts, outAmts []string
		for _, c := range calls(fn) {
			be := bankEffect(c)
			if be == nil {
				continue
			}
			if be.Op == "AccToMod" && isAuctionMod(be.To) {
				inAmts = append(inAmts, p.amountKeys(be.Coins)...)
			}
			if be.Op == "ModToAcc" && isAuctionMod(be.From) {
				outAmts = append(outAmts, p.amountKeys(be.Coins)...)
			}
		}
		n := 0
		deletesRecord := false
		setsRecord := false
		for _, c := range calls(fn) {
			if p.callIs(c, "DeleteUserLimitBidData") {
				deletesRecord = true
			}
			if p.callIsFn(c, setLB) {
				setsRecord = true
			}
		}
		for _, b := range fn.Blocks {
			for _, in := range b.Instrs {
				st, ok := in.(*ssa.Store)
				if !ok {
					continue
				}
				base, path := addrBase(st.Addr)
				tn := namedTypeName(base.Type())
				if tn == "LimitOrderBid" && deletesRecord {
					continue // the record is deleted: a fee taken off the local copy before the payout is not a book change
				}
				if !((tn == "LimitOrderBid" && len(path) > 0 && path[0] == "DebtToken") || (tn == "LimitBidProtocolData" && len(path) > 0 && path[0] == "BidValue")) {
					continue
				}
				op, _, x, ok := addSubOf(st.Val)
				if !ok {
					continue
				}
				n++
				r.Instance("R11.5")
				construct := fmt.Sprintf("%s %s.%s %s #%d", name, tn, path[0], op, n)
				alts := altKeys(p, x)
				// the protocol total and the record must change by the same amounts as each other; the custody
				// movement may be net of a fee (withdraw/cancel): accept the custody amount, or an amount the
				// custody amount is derived from by subtracting a fee
				amts := inAmts
				if op == "Sub" {
					amts = append(append([]string{}, outAmts...), feeBases(p, fn, isAuctionMod)...)
				}
				if op == "Sub" && tn == "LimitBidProtocolData" && deletesRecord && !setsRecord {
					// the deposit record is deleted on every path: the total drops by the deposit as it
					// was stored, not by what is paid out after the fee
					amts = nil
					for _, c := range calls(fn) {
						if call, isCall := c.(*ssa.Call); isCall && p.callIsFn(c, getLB) {
							amts = append(amts, idOf(call)+"#0.DebtToken.Amount")
						}
					}
				}
				if allAltsIn(alts, amts) {
					r.OK("R11.5", construct, "book change is the custody amount (gross of the stated fee)", p.instrPos(st))
				} else {
					r.Fail("R11.5", construct, fmt.Sprintf("the limit-bid books change by %v, which is not the amount moved in custody %v", keysOf(p, x), uniq(amts)), p.instrPos(st), nil)
				}
			}
		}
		// (a') the record and the total move by the same amount: what leaves the depositor's record is
		// what leaves the recorded total (a fee is taken off the payout, not off one of the two books)
		{
			var recX, totX []ssa.Value
			for _, b := range fn.Blocks {
				for _, in := range b.Instrs {
					st, ok := in.(*ssa.Store)
					if !ok {
						continue
					}
					base, path := addrBase(st.Addr)
					tn := namedTypeName(base.Type())
					op, _, x, isAS := addSubOf(st.Val)
					if !isAS || len(path) == 0 {
						continue
					}
					_ = op
					if tn == "LimitOrderBid" && path[0] == "DebtToken" && !deletesRecord {
						recX = append(recX, x)
					}
					if tn == "LimitBidProtocolData" && path[0] == "BidValue" {
						totX = append(totX, x)
					}
				}
			}
			if len(recX) > 0 && len(totX) > 0 {
				r.Instance("R11.5")
				construct := name + " record and total agree"
				var tk []string
				for _, x := range totX {
					tk = append(tk, flatten(altKeys(p, x))...)
				}
				okAll := true
				for _, x := range recX {
					if !allAltsIn(altKeys(p, x), tk) {
						okAll = false
					}
				}
				if okAll {
					r.OK("R11.5", construct, "the depositor's record and the recorded total change by the same amount", p.pos(fn.Pos()))
				} else {
					r.Fail("R11.5", construct, fmt.Sprintf("the depositor's record changes by %v while the recorded total changes by %v: the total no longer equals the sum of the deposits, and the depositor can later take out the difference", keysOf(p, recX[0]), uniq(tk)), p.pos(fn.Pos()), nil)
				}
			}
		}
		// (b) key agreement: the record is read under the same (debt, collateral, premium, bidder) it is stored under
		var getArgs, setArgs []ssa.Value
		for _, c := range calls(fn) {
			if p.callIsFn(c, getLB) {
				getArgs = callArgs(c)[1:]
			}
			if p.callIsFn(c, setLB) {
				a := callArgs(c)
				setArgs = a[2:]
			}
		}
		if len(getArgs) >= 3 && len(setArgs) >= 3 {
			r.Instance("R11.5")
			same := true
			for i := 0; i < 3; i++ {
				if p.ExprKey(getArgs[i]) != p.ExprKey(setArgs[i]) {
					same = false
				}
			}
			if same {
				r.OK("R11.5", name+" record key", "looked up and stored under the same (debt asset, collateral asset, premium)", p.pos(fn.Pos()))
			} else {
				r.Fail("R11.5", name+" record key", "the limit-bid record is looked up under a different (debt asset, collateral asset, premium) key than it is stored under: an existing deposit is not found and gets overwritten", p.pos(fn.Pos()), nil)
			}
		}
	}
	// R11.8 bid-step rounding ---------------------------------------------------------------
	// "improves by at least the bid factor": the minimum step BidFactor x standing bid is an
	// inexact decimal; turned into coins it must be rounded UP in every English auction.
	r.Rule("R11.8", "the minimum bid step derived from BidFactor is rounded up when converted to coins", 3)
	for _, fn := range p.Funcs {
		m := moduleOf(fn)
		if (m != "auction" && m != "auctionsV2") || p.isAuxFn(fn) {
			continue
		}
		n := 0
		for _, c := range calls(fn) {
			call, ok := c.(*ssa.Call)
			if !ok {
				continue
			}
			sn := calleeShortName(&call.Call)
			if sn != "TruncateInt" && sn != "RoundInt" && sn != "TruncateInt64" && sn != "RoundInt64" {
				continue
			}
			if !strings.HasPrefix(calleeFullName(&call.Call), "cosmossdk.io/math.LegacyDec.") || len(call.Call.Args) == 0 {
				continue
			}
			if !p.originHasField(call.Call.Args[0], "", "BidFactor") {
				continue
			}
			n++
			r.Instance("R11.8")
			r.FuncsSeen[fname(fn)] = true
			construct := fmt.Sprintf("%s bid step #%d", fname(fn), n)
			if d := p.roundDir(call); d == "UP" {
				r.OK("R11.8", construct, "BidFactor x standing bid is rounded up", p.instrPos(call))
			} else {
				r.Fail("R11.8", construct, "the minimum step computed from BidFactor is rounded "+d+" instead of up: a bid that improves by less than the bid factor (or not at all, when the step rounds to zero) is accepted", p.instrPos(call), nil)
			}
		}
	}
	sort.Strings(r.Notes)
}

// fromRecordFieldsLoose: some deep origin of v is one of the fields of a record of the
// given types, and no origin is a parameter of basic (message) provenance outside those
// records. Used where values mix a stored field with configuration (bid factor).
func (p *Prog) fromRecordFieldsLoose(v ssa.Value, typs map[string]bool, fields map[string]bool) bool {
	hit := false
	// "is this value built from field F of record R" holds through helpers that only compute
	// (an extracted split / conversion function)
	prev := p.throughPureOn
	p.throughPureOn = true
	os := p.DeepOrigins(v)
	p.throughPureOn = prev
	for _, o := range os {
		for i := len(o.Path) - 1; i >= 0; i-- {
			if fields[o.Path[i]] {
				sub := o
				sub.Path = o.Path[:i+1]
				if typs[pathBaseTypeName(sub)] {
					hit = true
				}
			}
		}
	}
	return hit
}

// fromRecordFieldsUp: fromRecordFieldsLoose, and when the value is a parameter of an
// extracted helper, what the call sites pass for it.
func (p *Prog) fromRecordFieldsUp(v ssa.Value, typs map[string]bool, fields map[string]bool) bool {
	if p.fromRecordFieldsLoose(v, typs, fields) {
		return true
	}
	prev := p.throughPureOn
	p.throughPureOn = true
	os := p.UpOrigins(p.DeepOrigins(v), 0)
	p.throughPureOn = prev
	for _, o := range os {
		for i := len(o.Path) - 1; i >= 0; i-- {
			if fields[o.Path[i]] {
				sub := o
				sub.Path = o.Path[:i+1]
				if typs[pathBaseTypeName(sub)] {
					return true
				}
			}
		}
	}
	return false
}

// condReadsField: the condition reads one of the named fields of some record.
func (p *Prog) condReadsField(cond ssa.Value, fields map[string]bool) bool {
	found := false
	seen := map[ssa.Value]bool{}
	var rec func(v ssa.Value, d int)
	rec = func(v ssa.Value, d int) {
		if v == nil || seen[v] || d > 6 || found {
			return
		}
		seen[v] = true
		if _, f, _, ok := fieldRead(v); ok && fields[f] {
			found = true
			return
		}
		if in, ok := v.(ssa.Instruction); ok {
			for _, op := range in.Operands(nil) {
				if *op != nil {
					rec(*op, d+1)
				}
			}
		}
	}
	rec(cond, 0)
	return found
}

// feeBases: for custody outflows whose amount is X.Sub(fee), the gross X is an acceptable
// booked amount as well.
func feeBases(p *Prog, fn *ssa.Function, isMod func(ssa.Value) bool) []string {
	var out []string
	for _, c := range calls(fn) {
		be := bankEffect(c)
		if be == nil || be.Op != "ModToAcc" || !isMod(be.From) {
			continue
		}
		amts, _ := p.coinParts(be.Coins)
		for _, a := range amts {
			if av := coinAmountDef(a); av != nil {
				a = av
			}
			if op, recv, _, ok := addSubOf(a); ok && op == "Sub" {
				out = append(out, p.ExprKey(recv))
			}
		}
	}
	return out
}
