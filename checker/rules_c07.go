package main

import (
	"fmt"
	"go/constant"
	"go/token"
	"go/types"
	"sort"
	"strings"

	"golang.org/x/tools/go/ssa"
)

func init() {
	register("C07", rulesC07)
	register("C04", rulesC04)
}

// isCallTo: v is (the result of) a call to a method/function with the given name.
func isCallNamed(v ssa.Value, names ...string) (*ssa.Call, bool) {
	c, ok := v.(*ssa.Call)
	if !ok {
		return nil, false
	}
	n := ""
	if c.Call.IsInvoke() {
		n = c.Call.Method.Name()
	} else if sc := c.Call.StaticCallee(); sc != nil {
		n = sc.Name()
	}
	for _, x := range names {
		if n == x {
			return c, true
		}
	}
	return nil, false
}

// sendEffect decomposes a bank SendCoins(from, to, coins).
func sendsOf(fn *ssa.Function) []*BankEffect {
	var out []*BankEffect
	for _, c := range calls(fn) {
		if be := bankEffect(c); be != nil && be.Op == "Send" {
			out = append(out, be)
		}
	}
	return out
}

// globalNamed: v is a load of the package-level variable with that name.
func isGlobalNamed(v ssa.Value, name string) bool {
	u, ok := v.(*ssa.UnOp)
	if !ok || u.Op != token.MUL {
		return false
	}
	g, ok := u.X.(*ssa.Global)
	return ok && g.Name() == name
}

// terminalGuard: pass edge = the edge on which the order/request is NOT yet terminal.
// For orders both atoms must hold: Status != Completed and !IsCanceledOrExpired().
func statusConst(p *Prog, pkg, name string) string {
	pk := p.ByPath[modPath+"/"+pkg]
	if pk == nil {
		analysisError("anchor unresolved: package %s", pkg)
	}
	c, ok := pk.Types.Scope().Lookup(name).(*types.Const)
	if !ok {
		analysisError("anchor unresolved: %s.%s", pkg, name)
	}
	return c.Val().ExactString()
}

func rulesC07(p *Prog, r *Report) {
	r.Explanation = "Decides the structural part of 'every order is settled exactly': (R07.1) FinishOrder and FinishMMOrder pay the refund only when the order is not yet terminal: the payout is reachable only through both 'Status != Completed' and '!IsCanceledOrExpired()' (a second settlement of a finished order would pay twice out of the other orders' escrow); (R07.2) the refund goes from the pair escrow to the stored orderer and is built from the order's RemainingOfferCoin (plus the unused part of the fee reserve), and the order is stored with its new status on every success path through the payout; (R07.3) orders become terminal only through FinishOrder/FinishMMOrder; (R07.4) cancelling market-making orders visits every indexed id before the index is deleted: the loop over the ids is left only through its header or to an error; (R07.5) ValidateMsgCancelOrder rejects only for the reasons the property allows; (R07.6) identifier-kind agreement in the liquidity module (app id / pair id / order id); (R07.7) placing an order escrows coins from the orderer to the pair escrow on the path that stores the new order. The per-order money identity across batches is NOT decided."
	r.Assumptions = []string{"SDK atomicity of a message; batch execution is wrapped per app (C15)"}
	finish := p.MustFunc("x/liquidity/keeper.Keeper.FinishOrder")
	finishMM := p.MustFunc("x/liquidity/keeper.Keeper.FinishMMOrder")
	completed := statusConst(p, "x/liquidity/types", "OrderStatusCompleted")

	orderSettlementRules(p, r, "R07.1", "R07.2")

	// R07.3 terminal statuses only via Finish* ------------------------------------------------
	r.Rule("R07.3", "orders become terminal only through FinishOrder/FinishMMOrder", 3)
	terminal := map[string]bool{
		completed: true,
		statusConst(p, "x/liquidity/types", "OrderStatusCanceled"): true,
		statusConst(p, "x/liquidity/types", "OrderStatusExpired"):  true,
	}
	for _, fn := range p.Funcs {
		if moduleOf(fn) != "liquidity" || p.isAuxFn(fn) || !strings.HasSuffix(fnPkgPath(fn), "/keeper") {
			continue
		}
		for _, c := range calls(fn) {
			call, ok := c.(*ssa.Call)
			if !ok {
				continue
			}
			sc := call.Call.StaticCallee()
			if sc == nil || sc.Name() != "SetStatus" || sc.Signature.Recv() == nil || namedTypeName(sc.Signature.Recv().Type()) != "Order" {
				continue
			}
			r.Instance("R07.3")
			r.FuncsSeen[fname(fn)] = true
			arg := call.Call.Args[len(call.Call.Args)-1]
			isTerm := false
			if k, ok := arg.(*ssa.Const); ok && k.Value != nil {
				isTerm = terminal[k.Value.ExactString()]
			} else {
				isTerm = true // a status passed through a parameter may be terminal
			}
			construct := fmt.Sprintf("%s SetStatus", fname(fn))
			if !isTerm || fn == finish || fn == finishMM {
				r.OK("R07.3", construct, "non-terminal status, or inside Finish*", p.instrPos(c))
			} else {
				r.Fail("R07.3", construct, "an order is given a terminal status outside FinishOrder/FinishMMOrder: it is never refunded", p.instrPos(c), nil)
			}
		}
	}

	// R07.4 cancelMMOrder visits all ids ------------------------------------------------------
	r.Rule("R07.4", "market-making cancel: the loop over the indexed ids is left only through its header or to an error; index deleted after it", 2)
	{
		fn := p.MustFunc("x/liquidity/keeper.Keeper.cancelMMOrder")
		r.FuncsSeen[fname(fn)] = true
		var del []ssa.CallInstruction
		for _, c := range calls(fn) {
			if p.callIs(c, "DeleteMMOrderIndex") {
				del = append(del, c)
			}
		}
		var loop *Loop
		for _, l := range loopsOf(fn) {
			for b := range l.Body {
				for _, in := range b.Instrs {
					if c, ok := in.(ssa.CallInstruction); ok && p.callIs(c, "GetOrder") {
						loop = l
					}
				}
			}
		}
		r.Instance("R07.4")
		if loop == nil || len(del) == 0 {
			r.Fail("R07.4", fname(fn)+" shape", "cannot find the loop over the indexed order ids / the index deletion", p.pos(fn.Pos()), nil)
		} else {
			r.OK("R07.4", fname(fn)+" shape", "loop over index ids and index deletion found", p.pos(fn.Pos()))
			r.Instance("R07.4")
			badPos := ""
			for b := range loop.Body {
				if b == loop.Head {
					continue
				}
				for _, s := range b.Succs {
					if loop.Body[s] {
						continue
					}
					// an exit from the body: only error exits may be reachable from it
					seen, _ := reach(fn, s, nil, nil)
					for _, rt := range returns(fn) {
						if seen[rt.Block()] && exitKind(rt) != ExitError {
							badPos = p.instrPos(b.Instrs[len(b.Instrs)-1])
						}
					}
					for _, d := range del {
						if seen[d.Block()] {
							badPos = p.instrPos(b.Instrs[len(b.Instrs)-1])
						}
					}
				}
			}
			if badPos == "" {
				r.OK("R07.4", fname(fn)+" visits every id", "the id loop is left early only to an error return", p.pos(fn.Pos()))
			} else {
				r.Fail("R07.4", fname(fn)+" visits every id", "the loop over the owner's indexed market-making orders can be left early ("+badPos+") and the function still succeeds / deletes the index: the remaining orders are neither cancelled nor refunded and can no longer be found", badPos, nil)
			}
			// index deletion only after the loop
			r.Instance("R07.4")
			inLoop := false
			for _, d := range del {
				if loop.Body[d.Block()] {
					inLoop = true
				}
			}
			if inLoop {
				r.Fail("R07.4", fname(fn)+" index deleted after the loop", "the market-making index is deleted inside the loop over its ids", p.instrPos(del[0]), nil)
			} else {
				r.OK("R07.4", fname(fn)+" index deleted after the loop", "deletion after all ids were visited", p.instrPos(del[0]))
			}
		}
	}

	// R07.5 allowed rejection reasons ---------------------------------------------------------
	r.Rule("R07.5", "ValidateMsgCancelOrder rejects only for: app/order not found, signer mismatch, already cancelled, same batch", 4)
	{
		// the cancel path: the MsgCancelOrder handler and the liquidity functions it runs before
		// the settlement (FinishOrder); found from the handler so that inlining or renaming the
		// validation helper does not lose the rule
		var root *ssa.Function
		for _, e := range p.MsgHandlers() {
			if moduleOf(e.Fn) == "liquidity" && e.Fn.Name() == "CancelOrder" {
				root = e.Fn
			}
		}
		if root == nil {
			analysisError("anchor unresolved: the liquidity MsgCancelOrder handler")
		}
		var cancelFns []*ssa.Function
		seenFn := map[*ssa.Function]bool{}
		var collect func(f *ssa.Function, d int)
		collect = func(f *ssa.Function, d int) {
			if seenFn[f] || d > 3 {
				return
			}
			seenFn[f] = true
			cancelFns = append(cancelFns, f)
			for _, c := range calls(f) {
				h := c.Common().StaticCallee()
				if h == nil {
					continue
				}
				h = p.unwrap(h)
				if h == nil || !isComdexFn(h) || len(h.Blocks) == 0 || moduleOf(h) != "liquidity" || !strings.HasSuffix(fnPkgPath(h), "/keeper") || errResultIndex(h) < 0 {
					continue
				}
				if strings.HasPrefix(h.Name(), "Finish") || strings.HasPrefix(h.Name(), "Get") || strings.HasPrefix(h.Name(), "Set") {
					continue
				}
				collect(h, d+1)
			}
		}
		collect(root, 0)
		n := 0
		for _, fn := range cancelFns {
			r.FuncsSeen[fname(fn)] = true
			for _, b := range fn.Blocks {
				ifi, ok := b.Instrs[len(b.Instrs)-1].(*ssa.If)
				if !ok {
					continue
				}
				// does one edge lead straight to an error exit?
				leadsToErr := false
				for _, s := range b.Succs {
					if len(s.Instrs) > 0 {
						if rt, ok := s.Instrs[len(s.Instrs)-1].(*ssa.Return); ok && exitKind(rt) == ExitError && len(s.Preds) == 1 {
							leadsToErr = true
						}
					}
				}
				if !leadsToErr {
					continue
				}
				n++
				r.Instance("R07.5")
				construct := fmt.Sprintf("%s rejection #%d", fname(fn), n)
				a := p.Atom(ifi.Cond)
				reason := ""
				if e, _, isNil := nilCheck(ifi.Cond); isNil && isErrorType(e.Type()) && len(errorCallsOf(e, 0)) > 0 {
					reason = "propagates the failure of a step (validation helper, settlement)"
				}
				switch {
				case reason != "":
				case !a.IsCmp && len(a.Origins) > 0 && func() bool {
					for _, o := range a.Origins {
						if !(o.Kind == "call" && o.Index == 1 && p.callIs(o.Call, "GetApp", "GetOrder")) {
							return false
						}
					}
					return true
				}():
					reason = "app / order not found"
				case a.IsCmp && (a.Op == "==" || a.Op == "!=") && a.X != nil && a.Y != nil:
					fx, fy := "", ""
					if _, f, _, ok := fieldRead(a.X); ok {
						fx = f
					}
					if _, f, _, ok := fieldRead(a.Y); ok {
						fy = f
					}
					switch {
					case fx == "Orderer" && fy == "Orderer":
						reason = "signer is not the stored orderer"
					case (fx == "Status" && isConst(a.Y)) || (fy == "Status" && isConst(a.X)):
						reason = "already cancelled"
					case (fx == "BatchId" && fy == "CurrentBatchId") || (fy == "BatchId" && fx == "CurrentBatchId"):
						reason = "placed in the current batch"
					}
				}
				if reason != "" {
					r.OK("R07.5", construct, reason, p.instrPos(ifi))
				} else {
					r.Fail("R07.5", construct, "the cancel path rejects for a reason the property does not allow: some order outside its placement batch cannot be cancelled by its owner", p.instrPos(ifi), nil)
				}
			}
		}
	}

	// R07.6 ------------------------------------------------------------------------
	idKindRule(p, r, "R07.6", map[string]bool{"liquidity": true}, 100)

	// R07.7 placement escrows --------------------------------------------------------------
	r.Rule("R07.7", "storing a newly placed order is preceded by escrowing coins from the orderer to the pair escrow", 3)
	escrowCreation(p, r, "R07.7", []string{"NewOrderForLimitOrder", "NewOrderForMarketOrder", "NewOrderForMMOrder", "NewOrder"}, "GetEscrowAddress", "", 3)
}

// escrowCreation: every keeper function that constructs a new request/order (ctor names)
// must, on every success path, send coins to the escrow (a call named escrowCall, or the
// global escrowGlobal as destination).
func escrowCreation(p *Prog, r *Report, rule string, ctors []string, escrowCall, escrowGlobal string, floor int) {
	var fns []*ssa.Function
	for _, fn := range p.Funcs {
		if moduleOf(fn) == "liquidity" && !p.isAuxFn(fn) && strings.HasSuffix(fnPkgPath(fn), "/keeper") {
			fns = append(fns, fn)
		}
	}
	sort.Slice(fns, func(i, j int) bool { return fname(fns[i]) < fname(fns[j]) })
	inlinedHelper := func(h *ssa.Function) bool {
		if h.Object() == nil || h.Object().Exported() || h.Parent() != nil {
			return false
		}
		sites := p.CallSitesOf(h)
		if len(sites) == 0 {
			return false
		}
		for _, cs := range sites {
			if cs.Parent() == nil || cs.Parent().Pkg != h.Pkg {
				return false
			}
		}
		return true
	}
	for _, fn := range fns {
		if p.isLocalClosure(fn) || inlinedHelper(fn) {
			continue // analysed as part of the function that defines / calls it
		}
		// constructor calls and escrow sends of the function, including those inside local closures
		// and same-module helpers it calls (virtual inlining); each is placed at its call site
		type site struct {
			anchor ssa.Instruction
			call   ssa.CallInstruction
		}
		var ctorCalls []site
		blocked := map[*ssa.BasicBlock]bool{}
		for _, vs := range p.virtualSites(fn, nil) {
			if vs.call == nil {
				continue
			}
			if p.callIs(vs.call, ctors...) {
				// a constructor inside a helper that is itself analysed (it has the constructor) is its business
				if vs.call.Parent() != fn && !p.isLocalClosure(vs.call.Parent()) && !inlinedHelper(vs.call.Parent()) {
					continue
				}
				ctorCalls = append(ctorCalls, site{vs.anchor, vs.call})
			}
			if be := bankEffect(vs.call); be != nil && be.Op == "Send" && vs.must {
				ok := false
				if escrowCall != "" {
					if _, isC := isCallNamed(be.To, escrowCall); isC {
						ok = true
					}
				}
				if escrowGlobal != "" && isGlobalNamed(be.To, escrowGlobal) {
					ok = true
				}
				if ok {
					blocked[vs.anchor.Block()] = true
				}
			}
		}
		if len(ctorCalls) == 0 {
			continue
		}
		r.FuncsSeen[fname(fn)] = true
		for i, cc := range ctorCalls {
			r.Instance(rule)
			construct := fmt.Sprintf("%s creation #%d", fname(fn), i+1)
			// every path entry -> ctor -> success must pass an escrow send (before or after the constructor)
			seenE, _ := reach(fn, nil, nil, blocked)
			bad := false
			if seenE[cc.anchor.Block()] && !blocked[cc.anchor.Block()] {
				seenA, _ := reach(fn, cc.anchor.Block(), nil, blocked)
				for _, t := range p.successTargets(nil, fn, 0) {
					if seenA[t] {
						bad = true
					}
				}
			}
			if len(blocked) == 0 || bad {
				r.Fail(rule, construct, "a new request/order is recorded on a success path that does not move the coins it records from the requester into the escrow account: the escrow no longer covers the pending requests/orders", p.instrPos(cc.call), nil)
			} else {
				r.OK(rule, construct, "recorded only on paths that escrow the coins", p.instrPos(cc.call))
			}
		}
	}
}

func rulesC04(p *Prog, r *Report) {
	r.Explanation = "Decides custody discipline of the liquidity module: (R04.1) a deposit / withdrawal request is recorded only on paths that move its coins from the requester to the global escrow; a new order only on paths that move coins to the pair escrow; (R04.2) requests are finished only once (refund reachable only through Status == NotExecuted), the refund goes from the global escrow to the stored requester and is built from the request's own coins; orders likewise (shared with C07: refund only when not yet terminal); (R04.3) farming moves the farmed pool coins into the module account on the path that records them, un-farming pays out only behind farmed >= requested; (R04.4) pool coins are minted/burnt only in the deposit/withdraw executors and pool creation, and burning in ExecuteWithdrawRequest is followed by the supply-zero test that disables the pool; (R04.5) per-farmer queue updates do not carry entries over from one farmer to the next (no loop-carried accumulator is saved into a per-item record). The balance inequalities as numbers are NOT decided."
	r.Assumptions = []string{"batch execution per app is wrapped (C15)", "bank semantics"}
	liqMod := modConst(p, "x/liquidity/types")

	// R04.1 ------------------------------------------------------------------------
	r.Rule("R04.1", "requests/orders recorded only on paths that escrow their coins", 4)
	escrowCreation(p, r, "R04.1", []string{"NewDepositRequest", "NewWithdrawRequest"}, "", "GlobalEscrowAddress", 2)
	escrowCreation(p, r, "R04.1", []string{"NewOrderForLimitOrder", "NewOrderForMarketOrder", "NewOrderForMMOrder"}, "GetEscrowAddress", "", 3)

	// R04.2 ------------------------------------------------------------------------
	r.Rule("R04.2", "requests finished once; refund from the global escrow to the stored requester from the request's own coins", 2)
	notExec := statusConst(p, "x/liquidity/types", "RequestStatusNotExecuted")
	for _, spec := range []struct {
		fn      string
		typ     string
		getter  string
		coinFld map[string]bool
	}{
		{"x/liquidity/keeper.Keeper.FinishDepositRequest", "DepositRequest", "GetDepositor", map[string]bool{"DepositCoins": true}},
		{"x/liquidity/keeper.Keeper.FinishWithdrawRequest", "WithdrawRequest", "GetWithdrawer", map[string]bool{"PoolCoin": true}},
	} {
		fn := p.MustFunc(spec.fn)
		r.FuncsSeen[fname(fn)] = true
		g := &GuardSpec{Name: "Status == RequestStatusNotExecuted", Local: func(f *ssa.Function, cond ssa.Value) (bool, bool) {
			a := p.Atom(cond)
			if !a.IsCmp || (a.Op != "==" && a.Op != "!=") || a.X == nil || a.Y == nil {
				return false, false
			}
			isStatus := func(v ssa.Value) bool { t, f, _, ok := fieldRead(v); return ok && t == spec.typ && f == "Status" }
			isC := func(v ssa.Value) bool {
				c, ok := v.(*ssa.Const)
				return ok && c.Value != nil && c.Value.ExactString() == notExec
			}
			if !((isStatus(a.X) && isC(a.Y)) || (isStatus(a.Y) && isC(a.X))) {
				return false, false
			}
			eq := a.Op == "=="
			if a.Neg {
				eq = !eq
			}
			if eq {
				return true, false
			}
			return false, true
		}}
		n := 0
		for _, be := range sendsOf(fn) {
			n++
			r.Instance("R04.2")
			construct := fmt.Sprintf("%s refund #%d", fname(fn), n)
			okG, w := p.GuardedSite(g, be.Call)
			fromEsc := isGlobalNamed(be.From, "GlobalEscrowAddress")
			_, toReq := isCallNamed(be.To, spec.getter)
			coins := p.fromRecordFieldsLoose(be.Coins, map[string]bool{spec.typ: true}, spec.coinFld)
			if okG && fromEsc && toReq && coins {
				r.OK("R04.2", construct, "only when not yet executed; global escrow -> stored requester; request's own coins", p.instrPos(be.Call))
			} else {
				r.Fail("R04.2", construct, fmt.Sprintf("request refund is not (only when NotExecuted: %v) (from the global escrow: %v) (to the stored requester: %v) (the request's own coins: %v)", okG, fromEsc, toReq, coins), p.instrPos(be.Call), w)
			}
		}
		if n == 0 {
			r.Instance("R04.2")
			r.Fail("R04.2", fname(fn)+" refund", "no refund path found", p.pos(fn.Pos()), nil)
		}
	}

	r.Rule("R04.2o", "order refund only when the order is not yet terminal (pair escrow keeps covering the live orders)", 4)
	r.Rule("R04.2p", "order refund: pair escrow -> stored orderer, built from RemainingOfferCoin; order stored terminal", 4)
	orderSettlementRules(p, r, "R04.2o", "R04.2p")

	// R04.3 farm / unfarm --------------------------------------------------------------------
	r.Rule("R04.3", "farm moves the pool coins into the module on the recording path; unfarm pays only behind farmed >= requested", 2)
	{
		farm := p.MustFunc("x/liquidity/keeper.Keeper.Farm")
		unfarm := p.MustFunc("x/liquidity/keeper.Keeper.Unfarm")
		r.FuncsSeen[fname(farm)] = true
		r.FuncsSeen[fname(unfarm)] = true
		in := p.bankMay(func(e *BankEffect) bool { return e.Op == "AccToMod" && moduleName(e.To) == liqMod })
		// Farm: every success exit passes the AccToMod
		r.Instance("R04.3")
		blocked := map[*ssa.BasicBlock]bool{}
		for _, c := range in.Sites(farm) {
			blocked[c.Block()] = true
		}
		seen, par := reach(farm, nil, nil, blocked)
		bad := false
		var wit []string
		for _, t := range p.successTargets(nil, farm, 0) {
			if seen[t] {
				bad = true
				wit = p.witness(par, t)
			}
		}
		if bad || len(blocked) == 0 {
			r.Fail("R04.3", fname(farm)+" custody", "farming can succeed without the pool coins having been moved into the liquidity module account", p.pos(farm.Pos()), wit)
		} else {
			r.OK("R04.3", fname(farm)+" custody", "every success path moves the farmed coins into the module account", p.pos(farm.Pos()))
		}
		// Unfarm: payout guarded by a comparison farmed >= requested
		r.Instance("R04.3")
		out := p.bankMay(func(e *BankEffect) bool { return e.Op == "ModToAcc" && moduleName(e.From) == liqMod })
		isReq := func(v ssa.Value) bool {
			for _, o := range p.DeepOrigins(v) {
				if o.Kind == "param" {
					if pr, ok := o.Val.(*ssa.Parameter); ok && msgParam(pr.Parent()) == pr {
						return true
					}
				}
			}
			return false
		}
		isFarmed := func(v ssa.Value) bool {
			if isReq(v) {
				return false
			}
			return p.fromRecordFieldsLoose(v, map[string]bool{"ActiveFarmer": true, "QueuedFarmer": true, "QueuedCoin": true}, map[string]bool{"FarmedPoolCoin": true, "QueudCoins": true, "Amount": true})
		}
		g := p.cmpGuard("farmed >= requested", isFarmed, isReq, RGE)
		ug := p.NewUnguarded(g, out)
		if badU, chain := ug.Fn(unfarm); badU {
			r.Fail("R04.3", fname(unfarm)+" bounded", "pool coins can leave the module account for a requested amount that was not compared with the farmer's recorded farmed coins", p.pos(unfarm.Pos()), chain)
		} else {
			r.OK("R04.3", fname(unfarm)+" bounded", "payout only behind farmed >= requested", p.pos(unfarm.Pos()))
		}
	}

	// R04.4 pool coin supply ---------------------------------------------------------------
	r.Rule("R04.4", "pool coins minted/burnt only by pool creation and the deposit/withdraw executors; burn followed by the disable test", 3)
	{
		allowed := map[string]bool{
			"x/liquidity/keeper.Keeper.ExecuteDepositRequest":  true,
			"x/liquidity/keeper.Keeper.ExecuteWithdrawRequest": true,
			"x/liquidity/keeper.Keeper.CreatePool":             true,
			"x/liquidity/keeper.Keeper.CreateRangedPool":       true,
		}
		for _, fn := range p.Funcs {
			if p.isAuxFn(fn) {
				continue
			}
			for _, c := range calls(fn) {
				be := bankEffect(c)
				if be == nil || (be.Op != "Mint" && be.Op != "Burn") || moduleName(be.From) != liqMod {
					continue
				}
				// only the pool-coin denomination (shares); the swap-fee burn uses the fee distribution denom
				if !p.fromRecordFieldsLoose(be.Coins, map[string]bool{"Pool": true, "WithdrawRequest": true, "DepositRequest": true}, map[string]bool{"PoolCoinDenom": true, "PoolCoin": true, "MintedPoolCoin": true}) {
					continue
				}
				r.Instance("R04.4")
				r.FuncsSeen[fname(fn)] = true
				construct := fmt.Sprintf("%s %s(%s)", fname(fn), be.Op, liqMod)
				if allowed[fname(fn)] || p.onlyCalledFrom(fn, allowed, 0) {
					r.OK("R04.4", construct, "pool-coin supply changed by an executor / pool creation (or a helper only they call)", p.instrPos(c))
				} else {
					r.Fail("R04.4", construct, "the liquidity module's coin supply is changed outside pool creation and the deposit/withdraw executors", p.instrPos(c), nil)
				}
			}
		}
		ew := p.MustFunc("x/liquidity/keeper.Keeper.ExecuteWithdrawRequest")
		r.Instance("R04.4")
		// after BurnCoins every success path passes the test PoolCoin.Amount.Equal(ps)
		var burnB *ssa.BasicBlock
		for _, vs := range p.virtualSites(ew, nil) { // the burn may sit in a settlement helper
			if vs.call == nil {
				continue
			}
			if be := bankEffect(vs.call); be != nil && be.Op == "Burn" {
				burnB = vs.anchor.Block()
			}
		}
		testBlocks := map[*ssa.BasicBlock]bool{}
		for _, b := range ew.Blocks {
			if ifi, ok := b.Instrs[len(b.Instrs)-1].(*ssa.If); ok {
				a := p.Atom(ifi.Cond)
				if a.IsCmp && a.Op == "Equal" && a.Call != nil {
					// one side the withdrawn pool coin amount, the other the pool coin supply
					sup := false
					for _, arg := range a.Call.Call.Args {
						for _, o := range p.Origins(arg) {
							if o.Kind == "call" && (p.callIs(o.Call, "GetPoolCoinSupply") || p.isPoolCoinSupplyRead(o)) {
								sup = true
							}
						}
					}
					if sup && (b.Succs[0] != nil) {
						// and the true edge disables the pool
						for _, in := range b.Succs[0].Instrs {
							if c, ok := in.(ssa.CallInstruction); ok && p.callIs(c, "MarkPoolAsDisabled") {
								testBlocks[b] = true
							}
						}
					}
				}
			}
		}
		bad := burnB == nil || len(testBlocks) == 0
		if !bad {
			seen, _ := reach(ew, burnB, nil, testBlocks)
			for _, t := range p.successTargets(nil, ew, 0) {
				if seen[t] {
					bad = true
				}
			}
		}
		if bad {
			r.Fail("R04.4", fname(ew)+" disable on zero supply", "after burning pool coins the executor can succeed without testing 'withdrawn == supply' and disabling the pool: a pool with zero supply stays enabled", p.pos(ew.Pos()), nil)
		} else {
			r.OK("R04.4", fname(ew)+" disable on zero supply", "burn is followed by the supply-zero test that disables the pool", p.pos(ew.Pos()))
		}
	}

	// R04.5 no cross-item accumulator saved per item -------------------------------------------
	r.Rule("R04.5", "per-item records saved inside a loop do not hold a slice accumulated across that loop's iterations", 2)
	for _, fn := range p.Funcs {
		if moduleOf(fn) != "liquidity" || p.isAuxFn(fn) || !strings.HasSuffix(fnPkgPath(fn), "/keeper") {
			continue
		}
		for li, l := range loopsOf(fn) {
			// stores of a slice into a record field, inside the loop, where the record is saved (Set* call) in the loop
			saves := false
			for b := range l.Body {
				for _, in := range b.Instrs {
					if c, ok := in.(ssa.CallInstruction); ok {
						if t := p.Callees(c); len(t) > 0 && isComdexFn(t[0]) && strings.HasPrefix(t[0].Name(), "Set") {
							saves = true
						}
					}
				}
			}
			if !saves {
				continue
			}
			for b := range l.Body {
				for _, in := range b.Instrs {
					st, ok := in.(*ssa.Store)
					if !ok {
						continue
					}
					fa, ok := st.Addr.(*ssa.FieldAddr)
					if !ok {
						continue
					}
					if _, isSlice := fa.Type().(*types.Pointer).Elem().Underlying().(*types.Slice); !isSlice {
						continue
					}
					r.Instance("R04.5")
					r.FuncsSeen[fname(fn)] = true
					construct := fmt.Sprintf("%s loop#%d %s.%s", fname(fn), li+1, namedTypeName(fa.X.Type()), fieldName(fa.X.Type(), fa.Field))
					if carriedAcrossLoop(st.Val, l) {
						r.Fail("R04.5", construct, "a list that accumulates across the iterations of this loop is stored into a record saved once per iteration: later items inherit the entries of earlier items (recorded amounts exceed custody)", p.instrPos(st), nil)
					} else {
						r.OK("R04.5", construct, "the stored list is built within the iteration", p.instrPos(st))
					}
				}
			}
		}
	}
}

// carriedAcrossLoop: v derives (through append / phis) from a phi in the header of loop l
// whose in-loop edge is itself derived from v's chain, i.e. the slice accumulates across
// iterations of l.
func carriedAcrossLoop(v ssa.Value, l *Loop) bool {
	seen := map[ssa.Value]bool{}
	found := false
	var rec func(v ssa.Value, d int)
	rec = func(v ssa.Value, d int) {
		if v == nil || seen[v] || d > 12 || found {
			return
		}
		seen[v] = true
		switch x := v.(type) {
		case *ssa.Phi:
			if x.Block() == l.Head {
				// loop-carried in l: has an in-loop incoming edge that is not itself
				for i, e := range x.Edges {
					if l.Body[l.Head.Preds[i]] && e != x {
						found = true
						return
					}
				}
			}
			for _, e := range x.Edges {
				rec(e, d+1)
			}
		case *ssa.Call:
			if bi, ok := x.Call.Value.(*ssa.Builtin); ok && bi.Name() == "append" {
				rec(x.Call.Args[0], d+1)
			}
		case *ssa.Slice:
			rec(x.X, d+1)
		case *ssa.UnOp:
			if x.Op == token.MUL {
				if a, ok := x.X.(*ssa.Alloc); ok {
					// variable declared outside the loop and appended to inside it
					if !l.Body[a.Block()] {
						for _, ref := range *a.Referrers() {
							if st, ok := ref.(*ssa.Store); ok && st.Addr == a && l.Body[st.Block()] {
								if c, ok := st.Val.(*ssa.Call); ok {
									if bi, ok := c.Call.Value.(*ssa.Builtin); ok && bi.Name() == "append" {
										found = true
									}
								}
							}
						}
					}
				}
			}
		}
	}
	rec(v, 0)
	return found
}

// orderSettlementRules: shared by C07 (exact settlement) and C04 (pair escrow covers live orders).
func orderSettlementRules(p *Prog, r *Report, rule1, rule2 string) {
	finish := p.MustFunc("x/liquidity/keeper.Keeper.FinishOrder")
	finishMM := p.MustFunc("x/liquidity/keeper.Keeper.FinishMMOrder")
	completed := statusConst(p, "x/liquidity/types", "OrderStatusCompleted")
	// R07.1 / R07.2 ---------------------------------------------------------------------
	r.Rule(rule1, "order refund only when the order is not yet terminal (both status tests)", 4)
	r.Rule(rule2, "refund: pair escrow -> stored orderer, built from RemainingOfferCoin; order stored with its new status", 4)
	notCompleted := &GuardSpec{Name: "Status != OrderStatusCompleted", Local: func(fn *ssa.Function, cond ssa.Value) (bool, bool) {
		a := p.Atom(cond)
		if !a.IsCmp || (a.Op != "==" && a.Op != "!=") || a.X == nil || a.Y == nil {
			return false, false
		}
		isStatus := func(v ssa.Value) bool { t, f, _, ok := fieldRead(v); return ok && t == "Order" && f == "Status" }
		isC := func(v ssa.Value) bool {
			c, ok := v.(*ssa.Const)
			return ok && c.Value != nil && c.Value.Kind() == constant.Int && c.Value.ExactString() == completed
		}
		if !((isStatus(a.X) && isC(a.Y)) || (isStatus(a.Y) && isC(a.X))) {
			return false, false
		}
		eq := a.Op == "=="
		if a.Neg {
			eq = !eq
		}
		if eq {
			return false, true
		}
		return true, false
	}}
	notCancelled := &GuardSpec{Name: "!Status.IsCanceledOrExpired()", Local: func(fn *ssa.Function, cond ssa.Value) (bool, bool) {
		a := p.Atom(cond)
		c, ok := isCallNamed(a.Val, "IsCanceledOrExpired")
		if !ok || len(c.Call.Args) != 1 {
			return false, false
		}
		if t, f, _, ok := fieldRead(c.Call.Args[0]); !(ok && t == "Order" && f == "Status") {
			return false, false
		}
		if a.Neg {
			return true, false
		}
		return false, true
	}}
	for _, fn := range []*ssa.Function{finish, finishMM} {
		name := fname(fn)
		r.FuncsSeen[name] = true
		var orderParam *ssa.Parameter
		for _, pr := range fn.Params {
			if namedTypeName(pr.Type()) == "Order" {
				orderParam = pr
			}
		}
		n := 0
		for _, be := range sendsOf(fn) {
			// only payouts to the orderer (the fee forwarding to the collector address is not a refund)
			toOrderer := false
			if c, ok := isCallNamed(be.To, "GetOrderer"); ok {
				for _, o := range p.Origins(c.Call.Args[0]) {
					if o.Kind == "param" && o.Val == orderParam {
						toOrderer = true
					}
				}
			}
			if !toOrderer {
				continue
			}
			n++
			for _, g := range []*GuardSpec{notCompleted, notCancelled} {
				r.Instance(rule1)
				construct := fmt.Sprintf("%s refund #%d needs %s", name, n, g.Name)
				// FinishOrder delegates MM orders before its own guard: a site guarded in the callee chain is fine
				if ok, w := p.GuardedSite(g, be.Call); ok {
					r.OK(rule1, construct, "payout only on the not-yet-terminal edge", p.instrPos(be.Call))
				} else {
					r.Fail(rule1, construct, "the refund of an order can be paid although the order is already terminal ("+g.Name+" not required): a finished order revisited by the expiry sweep is paid a second time out of the pair escrow", p.instrPos(be.Call), w)
				}
			}
			r.Instance(rule2)
			construct := fmt.Sprintf("%s refund #%d provenance", name, n)
			fromEscrow := false
			if c, ok := isCallNamed(be.From, "GetEscrowAddress"); ok && len(c.Call.Args) == 1 {
				for _, o := range p.Origins(c.Call.Args[0]) {
					if o.Kind == "call" && p.callIs(o.Call, "GetPair") {
						args := callArgs(o.Call)
						if len(args) >= 3 && p.fromRecordFieldsLoose(args[1], map[string]bool{"Order": true}, map[string]bool{"AppId": true}) && p.fromRecordFieldsLoose(args[2], map[string]bool{"Order": true}, map[string]bool{"PairId": true}) {
							fromEscrow = true
						}
					}
				}
			}
			coinsOK := p.fromRecordFieldsLoose(be.Coins, map[string]bool{"Order": true}, map[string]bool{"RemainingOfferCoin": true})
			if fromEscrow && coinsOK {
				r.OK(rule2, construct, "escrow of the order's own pair -> stored orderer, RemainingOfferCoin", p.instrPos(be.Call))
			} else {
				r.Fail(rule2, construct, fmt.Sprintf("the order refund does not go from the escrow of the order's own (app, pair) (%v) or is not built from the order's RemainingOfferCoin (%v)", fromEscrow, coinsOK), p.instrPos(be.Call), nil)
			}
		}
		if n == 0 {
			r.Instance(rule2)
			r.Fail(rule2, name+" refund", "no refund of the remaining offer coin to the stored orderer found: a terminated order leaves its coins in escrow", p.pos(fn.Pos()), nil)
		}
		// the order is stored with its new status on success paths that passed the guard
		r.Instance(rule2)
		setOrderBlocks := map[*ssa.BasicBlock]bool{}
		for _, c := range calls(fn) {
			if p.callIs(c, "SetOrder") {
				setOrderBlocks[c.Block()] = true
			}
		}
		bad := false
		for _, be := range sendsOf(fn) {
			seen, _ := reach(fn, be.Call.Block(), nil, setOrderBlocks)
			for _, t := range p.successTargets(nil, fn, 0) {
				if seen[t] && !setOrderBlocks[be.Call.Block()] {
					bad = true
				}
			}
		}
		if bad || len(setOrderBlocks) == 0 {
			r.Fail(rule2, name+" stores the new status", "after paying the refund the function can succeed without storing the order with its terminal status (the refund could be paid again)", p.pos(fn.Pos()), nil)
		} else {
			r.OK(rule2, name+" stores the new status", "SetOrder on every success path through a payout", p.pos(fn.Pos()))
		}
	}

}
