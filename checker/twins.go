package main

import (
	"fmt"
	"go/token"
	"sort"
	"strings"

	"golang.org/x/tools/go/ssa"
)

// Books-twin analysis: a custody movement (bank effect of some class) must be accompanied
// by its bookkeeping twins (updater calls, record-field changes) for the same amount.

type EffectClass struct {
	Name string
	Is   func(e *BankEffect) bool
}

type Updater struct {
	Fn      *ssa.Function
	AmtArg  int    // index into callArgs (without receiver)
	DirArg  int    // index of the constant bool direction argument, -1 when fixed
	Plus    string // class when direction is true (or fixed)
	Minus   string // class when direction is false
	Aggr    bool   // aggregate updater taking the whole record: amounts not compared
	Classes []string
}

type FieldRule struct {
	Type, Field string
	Add, Sub    string // classes
}

type TwinSpec struct {
	Rule      string
	Classes   []EffectClass
	Updaters  []Updater
	Fields    []FieldRule
	Deleters  map[*ssa.Function][]string // deleting the record accounts for these (minus) classes
	NeedStore map[string]bool            // classes that also need a record-field change on the path
}

type twinSite struct {
	weak  bool // inside a helper, not on every successful pass: counts for amounts, not for presence
	in    ssa.Instruction
	class string
	alts  [][]string
	keys  []string
	what  string
	aggr  bool
}

// altKeys returns, for a booked value, the alternatives it may take (one per phi arm),
// each as the set of keys it may be identified by.
func altKeys(p *Prog, v ssa.Value) [][]string {
	var out [][]string
	seen := map[ssa.Value]bool{}
	var expand func(v ssa.Value, suffix string, d int)
	expand = func(v ssa.Value, suffix string, d int) {
		if seen[v] && suffix == "" {
			return
		}
		seen[v] = true
		if ph, ok := v.(*ssa.Phi); ok && d < 4 {
			for _, e := range ph.Edges {
				expand(e, suffix, d+1)
			}
			return
		}
		// a load of a local with several reaching definitions: one alternative per definition
		if u, ok := v.(*ssa.UnOp); ok && u.Op == token.MUL && d < 4 {
			base, path := addrBase(u.X)
			if a, isAlloc := base.(*ssa.Alloc); isAlloc {
				// (a zero-initialised `var x T` that also reaches the load contributes the zero amount: no alternative)
				if defs, entry := reachingStores(a, path, u); (!entry && len(defs) > 1) || (entry && len(defs) >= 1) {
					for _, dd := range defs {
						rest := path
						if !dd.whole {
							rest = path[dd.depth:]
						}
						sfx := suffix
						if len(rest) > 0 {
							sfx = "." + strings.Join(rest, ".") + suffix
						}
						expand(dd.st.Val, sfx, d+1)
					}
					return
				}
			}
		}
		ks := map[string]bool{p.ExprKey(v) + suffix: true}
		if suffix == "" && (strings.HasSuffix(v.Type().String(), "types.Coin") || strings.HasSuffix(v.Type().String(), "types.Coins")) {
			for _, k := range p.amountKeys(v) {
				ks[k] = true
			}
		}
		var l []string
		for k := range ks {
			l = append(l, k)
		}
		sort.Strings(l)
		out = append(out, l)
	}
	expand(v, "", 0)
	return out
}

func keysOf(p *Prog, v ssa.Value) []string {
	var out []string
	for _, a := range altKeys(p, v) {
		out = append(out, strings.Join(a, "="))
	}
	sort.Strings(out)
	return out
}

// allAltsIn: every alternative of the booked value is one of the moved amounts.
func allAltsIn(alts [][]string, amts []string) bool {
	if len(alts) == 0 {
		return false
	}
	for _, a := range alts {
		if !intersects(a, amts) {
			return false
		}
	}
	return true
}

func intersects(a, b []string) bool {
	for _, x := range a {
		for _, y := range b {
			if x == y {
				return true
			}
		}
	}
	return false
}

// vsite is a call or store seen from the analysed function: either its own instruction, or
// one inside a same-module helper it calls (virtual inlining: "extract method" refactorings
// move a bookkeeping sequence into a helper without changing behaviour). anchor is the
// instruction of the analysed function at which it happens; tr translates amount keys of
// the helper's parameters into the caller's argument keys; must says that the site is on
// every successful pass through the helper.
type vsite struct {
	anchor ssa.Instruction
	call   ssa.CallInstruction
	store  *ssa.Store
	tr     func(string) string
	must   bool
}

func trAll(tr func(string) string, ks []string) []string {
	if tr == nil {
		return ks
	}
	out := make([]string, len(ks))
	for i, k := range ks {
		out[i] = tr(k)
	}
	return out
}

func trAlts(tr func(string) string, alts [][]string) [][]string {
	if tr == nil {
		return alts
	}
	out := make([][]string, len(alts))
	for i, a := range alts {
		out[i] = trAll(tr, a)
	}
	return out
}

// keyTranslator maps keys built on the parameters of h to keys of the arguments of call c.
func (p *Prog) keyTranslator(h *ssa.Function, c ssa.CallInstruction, outer func(string) string) func(string) string {
	args := c.Common().Args
	type rp struct {
		name, key string
		alloc     *ssa.Alloc // the argument is a load of this local (a record built field by field)
	}
	var reps []rp
	for i, pr := range h.Params {
		if i < len(args) {
			k := p.ExprKey(args[i])
			if outer != nil {
				k = outer(k)
			}
			var al *ssa.Alloc
			if u, ok := args[i].(*ssa.UnOp); ok && u.Op == token.MUL {
				al, _ = u.X.(*ssa.Alloc)
			}
			reps = append(reps, rp{pr.Name(), k, al})
		}
	}
	isIdent := func(b byte) bool {
		return b == '_' || (b >= '0' && b <= '9') || (b >= 'a' && b <= 'z') || (b >= 'A' && b <= 'Z')
	}
	return func(k string) string {
		for _, r := range reps {
			pat := "p:" + r.name
			from := 0
			for {
				i := strings.Index(k[from:], pat)
				if i < 0 {
					break
				}
				i += from
				end := i + len(pat)
				if end < len(k) && isIdent(k[end]) {
					from = end
					continue
				}
				// a field path of a record the caller filled field by field: the value stored in
				// that field before the call
				if r.alloc != nil && end < len(k) && k[end] == '.' {
					j := end
					var path []string
					for j < len(k) && k[j] == '.' {
						e := j + 1
						for e < len(k) && isIdent(k[e]) {
							e++
						}
						if e == j+1 {
							break
						}
						path = append(path, k[j+1:e])
						j = e
					}
					done := false
					for n := len(path); n > 0 && !done; n-- {
						if fk := p.pathKeyAt(r.alloc, path[:n], c); fk != "" && !strings.HasPrefix(fk, "load:") {
							if outer != nil {
								fk = outer(fk)
							}
							cut := end
							for _, seg := range path[:n] {
								cut += 1 + len(seg)
							}
							k = k[:i] + fk + k[cut:]
							from = i + len(fk)
							done = true
						}
					}
					if done {
						continue
					}
				}
				k = k[:i] + r.key + k[end:]
				from = i + len(r.key)
			}
		}
		return k
	}
}

// mustPassBlock: every successful run of h passes through block b.
func (p *Prog) mustPassBlock(h *ssa.Function, b *ssa.BasicBlock) bool {
	if len(h.Blocks) == 0 || b == h.Blocks[0] {
		return true
	}
	seen, _ := reach(h, nil, nil, map[*ssa.BasicBlock]bool{b: true})
	for _, rt := range returns(h) {
		if seen[rt.Block()] && exitKind(rt) != ExitError {
			return false
		}
	}
	return true
}

// virtualSites lists the calls and field stores of fn together with those of the
// same-module helpers it calls statically (two levels), except through `stop` functions.
func (p *Prog) virtualSites(fn *ssa.Function, stop map[*ssa.Function]bool) []vsite {
	var out []vsite
	handlers := p.handlerSet()
	var walk func(f *ssa.Function, anchor ssa.Instruction, tr func(string) string, must bool, depth int, stack map[*ssa.Function]bool)
	walk = func(f *ssa.Function, anchor ssa.Instruction, tr func(string) string, must bool, depth int, stack map[*ssa.Function]bool) {
		for _, b := range f.Blocks {
			bm := must
			if anchor != nil && must {
				bm = p.mustPassBlock(f, b)
			}
			for _, in := range b.Instrs {
				a := anchor
				if a == nil {
					a = in
				}
				switch x := in.(type) {
				case *ssa.Store:
					out = append(out, vsite{anchor: a, store: x, tr: tr, must: bm})
				case ssa.CallInstruction:
					out = append(out, vsite{anchor: a, call: x, tr: tr, must: bm})
					if depth >= 2 {
						continue
					}
					h := x.Common().StaticCallee()
					if h == nil {
						continue
					}
					h = p.unwrap(h)
					if h == nil || !isComdexFn(h) || len(h.Blocks) == 0 || stop[h] || handlers[h] || stack[h] || moduleOf(h) != moduleOf(fn) || h.Signature.Recv() == nil && false {
						continue
					}
					if strings.HasSuffix(fnPkgPath(h), "/types") {
						continue
					}
					stack[h] = true
					walk(h, a, p.keyTranslator(h, x, tr), bm, depth+1, stack)
					delete(stack, h)
				}
			}
		}
	}
	walk(fn, nil, nil, true, 0, map[*ssa.Function]bool{fn: true})
	return out
}

// isLocalClosure: an anonymous function that its parent only calls directly (a local helper
// closure), as opposed to one handed to another function (wrapper units, iterator callbacks).
func (p *Prog) isLocalClosure(fn *ssa.Function) bool {
	par := fn.Parent()
	if par == nil {
		return false
	}
	found := false
	for _, b := range par.Blocks {
		for _, in := range b.Instrs {
			mc, ok := in.(*ssa.MakeClosure)
			if !ok || mc.Fn != fn {
				continue
			}
			found = true
			if mc.Referrers() == nil {
				return false
			}
			for _, ref := range *mc.Referrers() {
				ci, isCall := ref.(ssa.CallInstruction)
				if !isCall || ci.Common().Value != ssa.Value(mc) {
					return false
				}
			}
		}
	}
	return found
}

// onlyCalledFrom: fn is a same-package helper whose every call site lies in one of the named
// functions (or in helpers for which the same holds, three levels).
func (p *Prog) onlyCalledFrom(fn *ssa.Function, names map[string]bool, depth int) bool {
	if depth > 3 {
		return false
	}
	sites := p.CallSitesOf(fn)
	if len(sites) == 0 {
		return false
	}
	for _, cs := range sites {
		par := cs.Parent()
		if par == nil || fnPkgPath(par) != fnPkgPath(fn) {
			return false
		}
		if names[fname(par)] {
			continue
		}
		if !p.onlyCalledFrom(par, names, depth+1) {
			return false
		}
	}
	return true
}

func (p *Prog) handlerSet() map[*ssa.Function]bool {
	if p.handlerSetMemo != nil {
		return p.handlerSetMemo
	}
	m := map[*ssa.Function]bool{}
	for _, e := range p.MsgHandlers() {
		m[e.Fn] = true
	}
	p.handlerSetMemo = m
	return m
}

// analyseTwins evaluates the spec on one handler function.
func (p *Prog) analyseTwins(r *Report, spec *TwinSpec, fn *ssa.Function) {
	name := fname(fn)
	// effects by class
	type eff struct {
		be     *BankEffect
		class  string
		keys   []string
		anchor ssa.Instruction
	}
	var effects []eff
	classAmts := map[string][]string{}
	stop := map[*ssa.Function]bool{}
	for _, u := range spec.Updaters {
		stop[u.Fn] = true
	}
	for d := range spec.Deleters {
		stop[d] = true
	}
	vs := p.virtualSites(fn, stop)
	for _, v := range vs {
		if v.call == nil {
			continue
		}
		be := bankEffect(v.call)
		if be == nil {
			continue
		}
		for _, cl := range spec.Classes {
			if cl.Is(be) {
				ks := trAll(v.tr, p.amountKeys(be.Coins))
				effects = append(effects, eff{be, cl.Name, ks, v.anchor})
				classAmts[cl.Name] = append(classAmts[cl.Name], ks...)
			}
		}
	}
	// twin sites
	var sites []twinSite
	for _, v := range vs {
		if v.call == nil {
			continue
		}
		c := v.call
		for _, u := range spec.Updaters {
			if !p.callIsFn(c, u.Fn) {
				continue
			}
			args := callArgs(c)
			if u.Aggr {
				for _, cl := range u.Classes {
					sites = append(sites, twinSite{in: v.anchor, class: cl, what: u.Fn.Name(), aggr: true, weak: !v.must})
				}
				continue
			}
			if u.AmtArg >= len(args) {
				continue
			}
			class := u.Plus
			if u.DirArg >= 0 && u.DirArg < len(args) {
				b, isC := constBool(args[u.DirArg])
				if !isC {
					r.Instance(spec.Rule)
					r.Fail(spec.Rule, fmt.Sprintf("%s %s direction", name, u.Fn.Name()), "the direction flag of a totals update is not a constant: cannot be matched to a custody movement", p.instrPos(c), nil)
					continue
				}
				if !b {
					class = u.Minus
				}
			}
			sites = append(sites, twinSite{in: v.anchor, class: class, keys: trAll(v.tr, keysOf(p, args[u.AmtArg])), alts: trAlts(v.tr, altKeys(p, args[u.AmtArg])), what: u.Fn.Name(), weak: !v.must})
		}
		for del, classes := range spec.Deleters {
			if p.callIsFn(c, del) {
				for _, cl := range classes {
					sites = append(sites, twinSite{in: v.anchor, class: cl, what: del.Name(), aggr: true, weak: !v.must})
				}
			}
		}
	}
	var storeSites []twinSite
	for _, fr := range spec.Fields {
		for _, v := range vs {
			if v.store == nil {
				continue
			}
			st := v.store
			fa, isFA := st.Addr.(*ssa.FieldAddr)
			if !isFA || namedTypeName(fa.X.Type()) != fr.Type || fieldName(fa.X.Type(), fa.Field) != fr.Field {
				continue
			}
			val := st.Val
			op, recv, x, ok := addSubOf(val)
			what := fr.Type + "." + fr.Field
			if ok {
				// receiver must be the same field of the same kind of record
				if t, f, _, isR := fieldRead(recv); !(isR && t == fr.Type && f == fr.Field) {
					// e.g. newAmount := other.Sub(...): treat as direct assignment
					ok = false
				}
			}
			if ok {
				class := fr.Add
				if op == "Sub" {
					class = fr.Sub
				}
				storeSites = append(storeSites, twinSite{in: v.anchor, class: class, keys: trAll(v.tr, keysOf(p, x)), alts: trAlts(v.tr, altKeys(p, x)), what: what + " " + op, weak: !v.must})
				continue
			}
			// the value may be a variable computed as field.Add/Sub earlier (updatedUserDebt := AmountOut.Sub(x))
			if ph, isCall := val.(*ssa.Call); isCall {
				_ = ph
			}
			// fresh record / direct assignment: counts for the Add class with the assigned amount
			if isZeroValue(val) {
				continue
			}
			storeSites = append(storeSites, twinSite{in: v.anchor, class: fr.Add, keys: trAll(v.tr, keysOf(p, val)), alts: trAlts(v.tr, altKeys(p, val)), what: what + " =", weak: !v.must})
		}
	}
	if len(effects) == 0 && len(sites) == 0 && len(storeSites) == 0 {
		return
	}
	r.FuncsSeen[name] = true
	// Rule A: amount agreement of every twin site with some effect of its class
	n := map[string]int{}
	for _, s := range append(append([]twinSite{}, sites...), storeSites...) {
		if s.aggr {
			continue
		}
		base := fmt.Sprintf("%s %s ~ %s", name, s.what, s.class)
		n[base]++
		construct := base
		if n[base] > 1 {
			construct = fmt.Sprintf("%s #%d", base, n[base])
		}
		r.Instance(spec.Rule)
		amts := classAmts[s.class]
		switch {
		case len(amts) == 0:
			r.Fail(spec.Rule, construct, fmt.Sprintf("the books are changed (%s, class %s) but the handler performs no custody movement of that class", s.what, s.class), p.instrPos(s.in), nil)
		case !allAltsIn(s.alts, amts):
			r.Fail(spec.Rule, construct, fmt.Sprintf("the amount booked by %s is not the amount moved in custody for %s: booked %v, moved %v", s.what, s.class, s.keys, uniq(amts)), p.instrPos(s.in), nil)
		default:
			r.OK(spec.Rule, construct, "booked amount is the amount moved", p.instrPos(s.in))
		}
	}
	// Rule B: presence — every effect has an updater twin (and a record change when required) on its path
	success := p.successTargets(nil, fn, 0)
	m := map[string]int{}
	for _, e := range effects {
		for _, kind := range []string{"updater", "record"} {
			if kind == "record" && !spec.NeedStore[e.class] {
				continue
			}
			var twins []twinSite
			if kind == "updater" {
				twins = sites
			} else {
				twins = storeSites
				// deleting the record also settles the minus classes
				for _, s := range sites {
					if s.aggr {
						twins = append(twins, s)
					}
				}
			}
			blocked := map[*ssa.BasicBlock]bool{}
			have := false
			for _, s := range twins {
				if s.class == e.class && !s.weak {
					blocked[s.in.Block()] = true
					have = true
				}
			}
			base := fmt.Sprintf("%s %s(%s) has %s twin", name, e.be.Op, e.class, kind)
			m[base]++
			construct := base
			if m[base] > 1 {
				construct = fmt.Sprintf("%s #%d", base, m[base])
			}
			r.Instance(spec.Rule)
			a := e.anchor.Block()
			if blocked[a] {
				r.OK(spec.Rule, construct, "twin in the same block", p.instrPos(e.anchor))
				continue
			}
			seenFromEntry, _ := reach(fn, nil, nil, blocked)
			bad := false
			var wit []string
			if seenFromEntry[a] {
				seenFromA, par := reach(fn, a, nil, blocked)
				for _, t := range success {
					if seenFromA[t] {
						bad = true
						wit = p.witness(par, t)
						break
					}
				}
			}
			if !have || bad {
				r.Fail(spec.Rule, construct, fmt.Sprintf("a success path moves coins (%s, class %s) without the matching %s update", e.be.Op, e.class, kind), p.instrPos(e.anchor), wit)
			} else {
				r.OK(spec.Rule, construct, "every success path through the movement passes its twin", p.instrPos(e.anchor))
			}
		}
	}
}

func uniq(s []string) []string {
	set := map[string]bool{}
	for _, x := range s {
		set[x] = true
	}
	var out []string
	for x := range set {
		out = append(out, x)
	}
	sort.Strings(out)
	return out
}

// staleReads: in fn, a value derived from a record of type recType that was read before a
// call that may rewrite that record type must not be used afterwards (in the record written
// back, in guard arguments, in bank amounts, in totals updates).
func (p *Prog) staleReads(r *Report, rule string, fn *ssa.Function, recType string, readers []*ssa.Function, writerMay *MaySummary, ownWriter *ssa.Function, useCalls func(c ssa.CallInstruction) bool) {
	name := fname(fn)
	// calls that may rewrite the record (not the handler's own direct write-back)
	var writers []ssa.CallInstruction
	for _, c := range calls(fn) {
		if ownWriter != nil && p.callIsFn(c, ownWriter) {
			continue
		}
		if writerMay.Call(c) {
			writers = append(writers, c)
		}
	}
	if len(writers) == 0 {
		return
	}
	back := backEdges(fn)
	isReader := func(c *ssa.Call) bool {
		return p.callIsFn(c, readers...)
	}
	before := func(a, b ssa.Instruction) bool {
		// a happens before b on some acyclic path
		if a.Block() == b.Block() {
			for _, in := range a.Block().Instrs {
				if in == a {
					return true
				}
				if in == b {
					return false
				}
			}
		}
		seen, _ := reach(fn, a.Block(), back, nil)
		return seen[b.Block()]
	}
	n := 0
	for _, c := range calls(fn) {
		if !useCalls(c) {
			continue
		}
		for ai, a := range c.Common().Args {
			for _, o := range p.DeepOrigins(a) {
				if o.Kind != "call" || !isReader(o.Call) || o.Index != 0 {
					continue
				}
				for _, w := range writers {
					if w == c {
						continue
					}
					if before(o.Call, w) && before(w, c) && !before(w, o.Call) {
						n++
						r.Instance(rule)
						construct := fmt.Sprintf("%s stale %s in %s arg %d", name, recType, callName(c), ai)
						r.Fail(rule, construct, fmt.Sprintf("a value read from the %s record at %s is used at %s after %s may have rewritten that record (no reload in between): the stale copy overrides or ignores the update", recType, p.instrPos(o.Call), p.instrPos(c), callName(w)), p.instrPos(c), nil)
					}
				}
			}
		}
	}
	r.Instance(rule)
	if n == 0 {
		r.OK(rule, name+" no stale "+recType, fmt.Sprintf("%d rewriting calls; every later use derives from a reload", len(writers)), p.pos(fn.Pos()))
	}
}
