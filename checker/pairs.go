package main

import (
	"fmt"
	"sort"

	"golang.org/x/tools/go/ssa"
)

// Paired writers. Candidates were mined from the repository (writer A on whose every
// entry -> A -> success path writer B also occurs, at all of >= 3 sites, 100 %), then each was
// confirmed by reading and frozen here with its reason. A new site of A (or an edit of an old
// one) that can succeed without B leaves an index, total or record behind.
type writerPair struct {
	A, B string // fname-style names of comdex functions (x/<mod>/keeper.Keeper.<Name>)
	Why  string
}

var pairTable = map[string][]writerPair{
	"C08": {
		{"x/lend/keeper.Keeper.SetUserBorrowIDCounter", "x/lend/keeper.Keeper.SetBorrow", "a new borrow id is handed out only together with storing the borrow"},
		{"x/lend/keeper.Keeper.SetUserBorrowIDCounter", "x/lend/keeper.Keeper.SetUserLendBorrowMapping", "a new borrow is entered in its lend position's open-borrow list (the list that stops CloseLend)"},
		{"x/lend/keeper.Keeper.SetUserBorrowIDCounter", "x/lend/keeper.Keeper.UpdateBorrowStats", "a new borrow is added to the published borrow totals"},
		{"x/lend/keeper.Keeper.DeleteBorrow", "x/lend/keeper.Keeper.DeleteBorrowIDFromUserMapping", "a removed borrow leaves its lend position's open-borrow list"},
		{"x/lend/keeper.Keeper.DeleteBorrow", "x/lend/keeper.Keeper.DeleteIDFromAssetStatsMapping", "a removed borrow leaves the pool's borrow id list"},
		{"x/lend/keeper.Keeper.DeleteBorrowIDFromUserMapping", "x/lend/keeper.Keeper.DeleteBorrow", "the open-borrow list loses an id only when that borrow is removed"},
	},
	"C01": {
		{"x/vault/keeper.Keeper.DeleteVault", "x/vault/keeper.Keeper.DeleteAddressFromAppExtendedPairVaultMapping", "a deleted vault leaves the product's vault id list (the sums over open vaults run over that list)"},
	},
	"C11": {
		{"x/auctionsV2/keeper.Keeper.SetUserLimitBidData", "x/auctionsV2/keeper.Keeper.SetLimitBidProtocolData", "a changed limit-bid deposit changes the recorded total of limit bids"},
		{"x/auctionsV2/keeper.Keeper.DeleteUserLimitBidData", "x/auctionsV2/keeper.Keeper.SetLimitBidProtocolData", "a removed limit-bid deposit leaves the recorded total of limit bids"},
	},
	"C07": {
		{"x/liquidity/keeper.Keeper.SetOrderIndex", "x/liquidity/keeper.Keeper.SetOrder", "an order id is indexed for its owner only together with storing the order"},
	},
}

func pairedWritersRule(p *Prog, r *Report, rule string, pairs []writerPair, floor int) {
	r.Rule(rule, "paired writers: every success path through writer A also passes writer B (pairs mined from the repository, confirmed and frozen)", floor)
	for _, pr := range pairs {
		a := p.byName[pr.A]
		b := p.byName[pr.B]
		if a == nil || b == nil {
			analysisError("anchor unresolved: paired writer %s / %s", pr.A, pr.B)
		}
		ops := p.operationalFns()
		var fns []*ssa.Function
		for _, fn := range p.Funcs {
			if !ops[fn] || p.isAuxFn(fn) || len(fn.Blocks) == 0 || fn == a || fn == b || p.isLocalClosure(fn) {
				continue // (genesis import restores counters and records from the document, one by one)
			}
			for _, c := range calls(fn) {
				if p.callIsFn(c, a) {
					fns = append(fns, fn)
					break
				}
			}
		}
		sort.Slice(fns, func(i, j int) bool { return fname(fns[i]) < fname(fns[j]) })
		for _, fn := range fns {
			// where the check is made: fn itself, or (when fn is a helper without B) each of its
			// same-module callers, A standing at the call of fn
			type ctx struct {
				host *ssa.Function
			}
			hosts := []ctx{{fn}}
			hasB := false
			for _, vs := range p.virtualSites(fn, nil) {
				if vs.call != nil && p.callIsFn(vs.call, b) {
					hasB = true
				}
			}
			if !hasB {
				var up []ctx
				for _, cs := range p.CallSitesOf(fn) {
					if g := cs.Parent(); g != nil && moduleOf(g) == moduleOf(fn) && !p.isAuxFn(g) && ops[g] {
						up = append(up, ctx{g})
					}
				}
				if len(up) > 0 {
					hosts = up
				}
			}
			seen := map[*ssa.Function]bool{}
			for _, h := range hosts {
				if seen[h.host] {
					continue
				}
				seen[h.host] = true
				r.Instance(rule)
				r.FuncsSeen[fname(h.host)] = true
				construct := fmt.Sprintf("%s: %s => %s", fname(h.host), a.Name(), b.Name())
				if p.passesB(h.host, a, b) {
					r.OK(rule, construct, pr.Why, p.pos(h.host.Pos()))
				} else {
					r.Fail(rule, construct, fmt.Sprintf("a success path calls %s without %s: %s", a.Name(), b.Name(), pr.Why), p.pos(h.host.Pos()), nil)
				}
			}
		}
	}
}

// passesB: in host (same-module helpers and local closures inlined) every path
// entry -> A -> success exit passes a B that is executed on every successful pass.
func (p *Prog) passesB(host, a, b *ssa.Function) bool {
	var aBlocks []*ssa.BasicBlock
	blocked := map[*ssa.BasicBlock]bool{}
	for _, vs := range p.virtualSites(host, nil) {
		if vs.call == nil {
			continue
		}
		if p.callIsFn(vs.call, a) {
			aBlocks = append(aBlocks, vs.anchor.Block())
		}
		if p.callIsFn(vs.call, b) && vs.must {
			blocked[vs.anchor.Block()] = true
		}
	}
	if len(aBlocks) == 0 {
		return true
	}
	succ := p.successTargets(nil, host, 0)
	seenE, _ := reach(host, nil, nil, blocked)
	for _, ab := range aBlocks {
		if blocked[ab] || !seenE[ab] {
			continue
		}
		seenA, _ := reach(host, ab, nil, blocked)
		for _, t := range succ {
			if seenA[t] {
				return false
			}
		}
	}
	return true
}
